"""C03 — units mirror pages / slides / sheets / chapters / messages.

G: Python's whitespace set and the PPT text-type tables dumped from the live interpreter/modules into
   Gen/C03Tables.v; C03/Inst.v re-decides the obligations over them.
D: (a) random dataclass instances of data_types.py <-> the same records as Coq terms (units, numbers, full text);
   (b) extractor pieces through their internal functions (PPT slide list / document, RTF page split, mbox split,
       DocxContent.iterate_units) on generated inputs;
   (c) end-to-end on all fixtures and on generated multi-unit documents (property oracle only).
"""
from __future__ import annotations

import glob
import io
import os
import re
import struct
import zipfile

from common import REPO, coq_str, coq_list, coq_opt, coq_bool, coq_Z, coq_eval_shards

DERIVED = {"PdfContent", "PptxContent", "OdpContent", "XlsxContent", "OdsContent", "EpubContent", "HtmlContent",
           "PlainTextContent", "EmailContent", "OdgContent", "OdfContent"}

WS = [" ", " ", "\n", "\n", "\t", "\r", "\x0b", "\x0c", "\x1c", "\x1f", "\x85", "\xa0", "\u2003", "\u2028", "\u3000",
      "\u200b", "\ufeff", "\x00"]
WORDS = ["alpha", "Beta", "g", "42", "\u00e9t\u00e9", "x_y", "$", "[Image:", "\U0001f600"]


def pair(*xs):
    return "(" + ", ".join(xs) + ")"


def cstrs(l):
    return coq_list([coq_str(x) for x in l])


# ----------------------------------------------------------------------------- G
def gen_tables(ctx):
    from sharepoint2text.parsing.extractors.ms_legacy import ppt_extractor as px
    from sharepoint2text.parsing.extractors import data_types as dt
    spaces = [c for c in range(0x110000) if (chr(c) + "x" + chr(c)).strip() == "x"]
    spaces2 = [c for c in range(0x110000) if chr(c).isspace()]
    ctx.obligation("python-strip-set==isspace-set", spaces == spaces2, f"{spaces} vs {spaces2}")
    txt = "(* GENERATED on every check run from the live interpreter / modules — do not edit. *)\n"
    txt += "From Coq Require Import ZArith List.\nFrom S2T Require Import Lib.PyStr C03.Lib C03.Model C03.Extract.\nImport ListNotations.\n\n"
    txt += "Definition py_spaces : list N := [" + "; ".join(str(c) for c in spaces) + "]%N.\n\n"
    txt += ("Definition PPT : ppt_tables := {|\n  title_types := [" + "; ".join(str(x) for x in sorted(px._TITLE_TYPES)) + "]%Z;\n"
            "  body_types := [" + "; ".join(str(x) for x in sorted(px._BODY_TYPES)) + "]%Z;\n"
            f"  notes_type := ({dt.PPT_TEXT_TYPE_NOTES})%Z\n|}}.\n")
    ctx.gen_write("Gen/C03Tables.v", txt)


# ----------------------------------------------------------------------------- text generators
def rtext(rng, marker=None, maxlen=6):
    parts = []
    for _ in range(rng.randint(0, maxlen)):
        parts.append(rng.choice(WS) if rng.random() < 0.5 else rng.choice(WORDS))
    if marker is not None:
        parts.insert(rng.randint(0, len(parts)), marker)
    return "".join(parts)


def rws(rng):
    return "".join(rng.choice(WS[:15]) for _ in range(rng.randint(0, 3)))


def numbers(rng, n):
    """slide / chapter numbers as an extractor stores them: mostly 1..n, sometimes arbitrary."""
    if rng.random() < 0.8:
        return list(range(1, n + 1)), True
    return [rng.randint(-1, 4) for _ in range(n)], False


# ----------------------------------------------------------------------------- (a) data_types instances
def make_instance(rng, kind):
    """-> (python object, coq term of type content, wf_numbers, markers [(marker, expected unit number)],
           call kwargs, expected number of units or None)"""
    from sharepoint2text.parsing.extractors import data_types as dt
    n = rng.choice([0, 1, 1, 2, 3, 3, 4, 6])
    mk = lambda k: f"Mk{k}q" if rng.random() < 0.7 else None
    kw = {}
    marks = []
    dup_mode = rng.random() < 0.3
    made = []

    def gt(k):
        """(marker or None, text) for source unit k; in dup mode often IDENTICAL to an earlier unit's text."""
        if dup_mode and made and rng.random() < 0.6:
            pair_ = rng.choice([made[-1], made[0]])
        else:
            m_ = mk(k)
            pair_ = (m_, rtext(rng, m_))
        made.append(pair_)
        return pair_
    if kind == "pdf":
        pairs_ = [gt(k) for k in range(1, n + 1)]
        ms = [a for a, _ in pairs_]
        texts = [b for _, b in pairs_]
        obj = dt.PdfContent(pages=[dt.PdfPage(text=t) for t in texts])
        term = f"(CPdf {cstrs(texts)})"
        marks = [(m, k) for k, m in enumerate(ms, 1) if m]
        return obj, term, True, marks, kw, n
    if kind in ("plain", "html", "odg", "odf"):
        raw = rtext(rng, "Mk1q" if rng.random() < 0.7 else None, 8)
        if kind == "plain":
            obj = dt.PlainTextContent(content=raw); field = obj.content; con = "CPlain"
        elif kind == "html":
            obj = dt.HtmlContent(content=raw); field = obj.content; con = "CHtml"
        elif kind == "odg":
            obj = dt.OdgContent(full_text=raw); field = obj.full_text; con = "COdg"
        else:
            obj = dt.OdfContent(full_text=raw); field = obj.full_text; con = "COdf"
        return obj, f"({con} {coq_str(field)})", True, ([("Mk1q", 1)] if "Mk1q" in raw else []), kw, 1
    if kind == "email":
        bp = rng.choice(["", rws(rng), rtext(rng, "Mk1q")])
        bh = rng.choice(["", rws(rng), "<p>" + rtext(rng) + "</p>"])
        obj = dt.EmailContent(from_email=dt.EmailAddress(), body_plain=bp, body_html=bh)
        term = f"(CEmail (mkEmail {coq_str(obj.body_plain)} {coq_str(obj.body_html)}))"
        return obj, term, True, ([("Mk1q", 1)] if "Mk1q" in bp else []), kw, 1
    if kind == "pptx":
        nums, wf = numbers(rng, n)
        slides, terms = [], []
        for k, num in enumerate(nums, 1):
            m, gtxt = gt(k)
            base = rng.choice(["", gtxt])
            if m and m in base and wf:
                marks.append((m, num))
            forms = [(rng.random() < 0.5, rtext(rng, None, 2)) for _ in range(rng.randint(0, 2))]
            descs = [rng.choice(["", "alt " + rtext(rng, None, 2)]) for _ in range(rng.randint(0, 2))]
            slides.append(dt.PptxSlide(slide_number=num, base_text=base, text=rtext(rng),
                                       formulas=[dt.PptxFormula(latex=l, is_display=d) for d, l in forms],
                                       images=[dt.PptxImage(description=d_) for d_ in descs]))
            terms.append(f"(mkPptxSlide {coq_Z(num)} {coq_str(base)} "
                         + coq_list([pair(coq_bool(d), coq_str(l)) for d, l in forms]) + " " + cstrs(descs) + ")")
        cap = rng.random() < 0.5
        kw = {"include_image_captions": cap}
        return dt.PptxContent(slides=slides), f"(CPptx {coq_bool(cap)} {coq_list(terms)})", wf, marks, kw, n
    if kind in ("ppt", "odp"):
        nums, wf = numbers(rng, n)
        slides, terms = [], []
        for k, num in enumerate(nums, 1):
            m, gtxt = gt(k)
            title = rng.choice([None, "", rtext(rng), "Title"]) if kind == "ppt" else rng.choice(["", rtext(rng), "Title"])
            body = [gtxt if i == 0 else rtext(rng) for i in range(rng.randint(0, 2))]
            other = [rtext(rng) for _ in range(rng.randint(0, 2))]
            if m and body and wf:
                marks.append((m, num))
            if kind == "ppt":
                slides.append(dt.PptSlideContent(slide_number=num, title=title, body_text=body, other_text=other,
                                                 notes=[rtext(rng)]))
            else:
                slides.append(dt.OdpSlide(slide_number=num, title=title, body_text=body, other_text=other, notes=[rtext(rng)]))
            terms.append(f"(mkSlide {coq_Z(num)} {coq_opt(title, coq_str)} {cstrs(body)} {cstrs(other)})")
        if kind == "ppt":
            return dt.PptContent(slides=slides), f"(CPpt {coq_list(terms)})", wf, marks, kw, n
        return dt.OdpContent(slides=slides), f"(COdp {coq_list(terms)})", wf, marks, kw, n
    if kind in ("xlsx", "xls", "ods"):
        sheets, terms = [], []
        for k in range(1, n + 1):
            m, text = gt(k)
            name = rng.choice(["Sheet%d" % k, "Sheet", "", rws(rng), rtext(rng, None, 2)])
            if m:
                marks.append((m, k))
            terms.append(f"(mkSheet {coq_str(name)} {coq_str(text)})")
            data = rng.choice([[], [["a", 1], [None, "b"]]])
            if kind == "xlsx":
                sheets.append(dt.XlsxSheet(name=name, text=text, data=data))
            elif kind == "ods":
                sheets.append(dt.OdsSheet(name=name, text=text, data=data))
            else:
                sheets.append(dt.XlsSheet(name=name, text=text, data=[{"c1": "a", "c2": 1}] if data else []))
        if kind == "xlsx":
            return dt.XlsxContent(sheets=sheets), f"(CXlsx {coq_list(terms)})", True, marks, kw, n
        if kind == "ods":
            return dt.OdsContent(sheets=sheets), f"(COds {coq_list(terms)})", True, marks, kw, n
        ft = rtext(rng, None, 8)
        return dt.XlsContent(sheets=sheets, full_text=ft), f"(CXls {coq_list(terms)} {coq_str(ft)})", True, marks, kw, n
    if kind == "epub":
        if rng.random() < 0.8:
            nums = sorted(rng.sample(range(1, n + 4), n)); wf = True
        else:
            nums = [rng.randint(-1, 4) for _ in range(n)]; wf = all(a < b for a, b in zip([0] + nums, nums))
        chs, terms = [], []
        for k, num in enumerate(nums, 1):
            m, t = gt(k)
            if m and wf:
                marks.append((m, num))
            chs.append(dt.EpubChapter(chapter_number=num, text=t, title=rtext(rng, None, 2)))
            terms.append(f"(mkChapter {coq_Z(num)} {coq_str(t)})")
        return dt.EpubContent(chapters=chs), f"(CEpub {coq_list(terms)})", wf, marks, kw, n
    if kind == "rtf":
        pages = []
        for k in range(1, n + 1):
            m, gtxt = gt(k)
            p = rng.choice(["", rws(rng), gtxt, gtxt])
            if m and m in p:
                marks.append((m, k))
            pages.append(p)
        ft = rng.choice(["", "", rtext(rng, None, 8)])
        paras = [rtext(rng, None, 3) for _ in range(rng.randint(0, 3))]
        obj = dt.RtfContent(pages=pages, full_text=ft, paragraphs=[dt.RtfParagraph(text=p) for p in paras])
        term = f"(CRtf (mkRtf {cstrs(pages)} {coq_str(ft)} {cstrs(paras)}))"
        expected = sum(1 for p in pages if p.strip()) if pages else None
        return obj, term, True, marks, kw, expected
    raise ValueError(kind)


KINDS = ["pdf", "plain", "html", "odg", "odf", "email", "pptx", "ppt", "odp", "xlsx", "xls", "ods", "epub", "rtf"]


def observe(obj, kw=None):
    kw = kw or {}
    us = list(obj.iterate_units(**kw))
    return [(u.get_metadata().unit_number, u.get_text()) for u in us], obj.get_full_text(**kw)


def oracle_units(ctx, where, clsname, us, ft, wf=True, marks=(), expected_units=None, replay=None):
    """The theorem's right-hand sides evaluated on the implementation's output."""
    replay = dict(replay or {})
    replay.update({"where": where, "class": clsname, "units": us[:20], "full_text": ft[:2000]})
    nums = [n for n, _ in us]
    if wf and not all(isinstance(n, int) and a < b for n, a, b in zip(nums[1:], nums, nums[1:])):
        ctx.finding(f"{where}:numbers-not-strictly-increasing", f"{clsname}: unit numbers {nums[:12]} are not strictly "
                    f"increasing ({where})", replay)
    if wf and nums and nums[0] < 1:
        ctx.finding(f"{where}:number-below-1", f"{clsname}: unit numbers start at {nums[0]}", replay)
    if clsname in DERIVED:
        want = "\n".join(t for _, t in us).strip()
        if ft != want:
            ctx.finding(f"{where}:full-text-not-join", f"{clsname}.get_full_text() differs from strip(join(unit texts)) "
                        f"({where})", dict(replay, expected=want[:2000]))
    if expected_units is not None and len(us) != expected_units:
        ctx.finding(f"{where}:unit-count", f"{clsname}: {len(us)} units for {expected_units} source units ({where})",
                    dict(replay, expected_units=expected_units))
    owners = {}
    for m, k in marks:
        owners.setdefault(m, []).append(k)
    for m, k in marks:
        holders = [n for n, t in us if m in t]
        if holders != sorted(set(owners[m])):
            ctx.finding(f"{where}:text-in-wrong-unit", f"{clsname}: text of source unit {k} is held by units {holders} "
                        f"({where})", dict(replay, marker=m, source=k))


def run_datatypes(ctx):
    rng = ctx.rng
    cases, info, env_objs = [], [], []
    for i in range(ctx.n(1400, 30000)):
        kind = KINDS[i % len(KINDS)]
        obj, term, wf, marks, kw, exp = make_instance(rng, kind)
        import copy as _copy
        fresh = _copy.deepcopy(obj)
        us, ft = observe(obj, kw)
        ctx.case((kind, term), len(us) >= 2 or kind in ("rtf",) and len(us) >= 1, kind=f"datatypes:{kind}")
        oracle_units(ctx, f"datatypes:{kind}", type(obj).__name__, us, ft, wf, marks, exp, {"coq_term": term[:3000]})
        cases.append(pair(term, coq_list([pair(coq_Z(n), coq_str(t)) for n, t in us]), coq_str(ft)))
        info.append((kind, term))
        # observer history: any sequence of observer calls (with any arguments) on the SAME object must answer like a fresh
        # copy that has never been asked anything (instance-level caches, lazily stored state)
        if i % 3 == 0:
            import copy
            argsets = [{}, {"include_image_captions": True}, {"include_image_captions": False}] if kind == "pptx" else [{}]
            seq = [(rng.choice(["full", "units"]), rng.choice(argsets)) for _ in range(5)]
            obj2 = copy.deepcopy(fresh)
            for what, a_ in seq:
                call = (lambda o: o.get_full_text(**a_)) if what == "full" else (
                    lambda o: [(u.get_metadata().unit_number, u.get_text()) for u in o.iterate_units(**a_)])
                got_, want_ = call(obj2), call(copy.deepcopy(fresh))
                if got_ != want_:
                    ctx.finding(f"datatypes:{kind}:observer-depends-on-call-history",
                                f"{type(obj).__name__}: {'get_full_text' if what == 'full' else 'iterate_units'}({a_}) after the "
                                f"calls {seq} differs from the same call on a fresh copy", {"coq_term": term[:3000], "sequence": seq,
                                                                                          "got": got_, "fresh": want_})
                    break
        if len(env_objs) < 100:
            env_objs.append((obj, kw, term[:400]))
    pre = "From Coq Require Import ZArith List.\nFrom S2T Require Import Lib.PyStr C03.Lib C03.Model C03.Corr.\nImport ListNotations.\n"
    ok, failing, log = coq_eval_shards(ctx, "dt", pre, "corr_case", cases, shard=400,
                                       ty="content * list (Z * str) * str")
    ctx.traces += len(cases)
    ctx.disagreements += len(failing)
    ctx.obligation("correspondence:data_types units/full_text model==implementation", ok and not failing,
                   (f"{len(failing)} disagreements, first: {info[failing[0]] if failing else ''} " + log)[:1500])
    if failing:
        ctx.extra["dt_disagreements"] = [list(info[i]) for i in failing[:5]]
    import common
    common.env_sweep(ctx, "dataclass-units", lambda x: observe(x[0], x[1]), env_objs, describe=lambda x: x[2])
    # str.strip / join against CPython
    sc = []
    for _ in range(ctx.n(600, 6000)):
        x = rtext(rng, None, 8)
        parts = [rtext(rng, None, 3) for _ in range(rng.randint(0, 4))]
        sc.append(pair(coq_str(x), coq_str(x.strip()), cstrs(parts), coq_str("\n".join(parts))))
    for c in range(0x3100):  # every BMP code point below U+3100 as sole wrapping character
        if c % (1 if ctx.tier == "thorough" else 11) == 0 or chr(c).isspace():
            x = chr(c) + "a" + chr(c)
            sc.append(pair(coq_str(x), coq_str(x.strip()), "[]", coq_str("")))
    ok, failing, log = coq_eval_shards(ctx, "strip", pre, "strip_case", sc, shard=800, ty="str * str * list str * str")
    ctx.obligation("correspondence:strip/join model==CPython", ok and not failing, (f"{len(failing)} disagreements " + log)[:800])


# ----------------------------------------------------------------------------- (b) PPT
def _rec(ver_inst, typ, data):
    return struct.pack("<HHI", ver_inst, typ, len(data)) + data


def gen_ppt_events(rng, px):
    """-> (bytes of a SlideListWithText body, events as Coq terms, n_persist, texts per persist index)"""
    evs, out = [], b""
    persist = 0
    style = rng.choice(["all", "none", "mixed", "mixed", "lead-empty"])
    n = rng.randint(0, 5)
    per_slide = []
    if rng.random() < 0.15:  # text before the first SlidePersistAtom
        data = b"orphan"
        out += _rec(0, px.RT_TEXT_BYTES_ATOM, data)
        evs.append(f"(EvText {coq_str(px._clean_text(px._decode_text(px.RT_TEXT_BYTES_ATOM, data) or ''))})")
    for k in range(n):
        out += _rec(0, px.RT_SLIDE_PERSIST_ATOM, b"\0" * 20)
        evs.append("EvPersist")
        persist += 1
        has = {"all": True, "none": False, "mixed": rng.random() < 0.55, "lead-empty": k > 0 and rng.random() < 0.7}[style]
        texts = []
        for _ in range(rng.randint(1, 3) if has else rng.randint(0, 1)):
            if rng.random() < 0.7:
                t = rng.choice([0, 1, 2, 4, 5, 6, 7, 8, 99])
                hd = struct.pack("<I", t) if rng.random() < 0.9 else b"\x01\x00"
                out += _rec(0, px.RT_TEXT_HEADER_ATOM, hd)
                evs.append(f"(EvHeader {coq_Z(t)})" if len(hd) >= 4 else "EvOther")
            if has:
                txt = rng.choice(["Slide %d text" % (k + 1), "T%d  a\rb" % k, "x\x0by", "caf\xe9 %d" % k])
            else:
                txt = rng.choice(["", "*", "\x01\x02", "___PPT9", "Click to edit Master", " \r "])
            if rng.random() < 0.5:
                data, typ = txt.encode("latin-1"), px.RT_TEXT_BYTES_ATOM
            else:
                data, typ = txt.encode("utf-16-le"), px.RT_TEXT_CHARS_ATOM
            out += _rec(0, typ, data)
            cleaned = px._clean_text(px._decode_text(typ, data) or "")
            evs.append(f"(EvText {coq_str(cleaned)})")
            if cleaned:
                texts.append(cleaned)
            if rng.random() < 0.2:
                out += _rec(0, 0x0FA1, b"\0\0")  # StyleTextPropAtom: ignored
                evs.append("EvOther")
        per_slide.append(texts)
    return out, evs, persist, per_slide


def run_ppt(ctx):
    from sharepoint2text.parsing.extractors import data_types as dt
    from sharepoint2text.parsing.extractors.ms_legacy import ppt_extractor as px
    rng = ctx.rng
    blk = lambda b: pair(coq_str(b.text), coq_opt(b.text_type, coq_Z))
    c1, c2, info2 = [], [], []
    for i in range(ctx.n(350, 5000)):
        body, evs, npers, per_slide = gen_ppt_events(rng, px)
        got = px._parse_slide_list_container(body)
        c1.append(pair(coq_list(evs), coq_list([coq_list([blk(b) for b in sl]) for sl in got])))
        ctx.case(("ppt-slist", evs), npers >= 2, kind="ppt:slide-list")
        # property oracle: one entry per SlidePersistAtom, entry k holds the texts of slide k
        if [[b.text for b in sl] for sl in got] != per_slide:
            ctx.finding("ppt:empty-slide-dropped-renumbers-following",
                        f"_parse_slide_list_container returns {len(got)} slides for {npers} SlidePersistAtoms "
                        f"(empty slides dropped, later slides renumbered)",
                        {"slide_list_body_hex": body.hex()[:4000], "per_slide_texts": per_slide,
                         "got": [[b.text for b in sl] for sl in got]})
    for i in range(ctx.n(300, 4000)):
        data, conts = b"", []
        for _ in range(rng.randint(0, 2)):
            body, evs, npers, per_slide = gen_ppt_events(rng, px)
            inst = rng.choice([0, 0, 0, 1])
            data += _rec(0x000F | (inst << 4), px.RT_SLIDE_LIST_WITH_TEXT, body)
            if inst == 0:
                conts.append(evs)
        for _ in range(rng.randint(0, 2)):  # slide containers with their own text records
            inner = b""
            for _ in range(rng.randint(0, 2)):
                inner += _rec(0, px.RT_TEXT_BYTES_ATOM, rng.choice([b"In container", b"", b"*"]))
            data += _rec(0x000F, rng.choice([px.RT_SLIDE_CONTAINER, px.RT_NOTES_CONTAINER]), inner)
        if rng.random() < 0.4:
            data += _rec(0, px.RT_CSTRING, rng.choice(["Raw title", ""]).encode("utf-16-le"))
        content = dt.PptContent()
        px._parse_ppt_document(data, content)
        us, ft = observe(content)
        cs = px._parse_containers(data)["slides"]
        raw = px._extract_all_text_raw(data)
        c2.append(pair(coq_list([coq_list(e) for e in conts]), coq_list([coq_list([blk(b) for b in sl]) for sl in cs]),
                       cstrs(raw), coq_list([pair(coq_Z(n), coq_str(t)) for n, t in us])))
        info2.append(data.hex()[:600])
        ctx.case(("ppt-doc", data.hex()), len(us) >= 2, kind="ppt:document")
        nums = [n for n, _ in us]
        if len(set(nums)) != len(nums):
            ctx.finding("ppt:raw-fallback-second-slide-1",
                        f"_parse_ppt_document: unit numbers {nums} repeat (raw-text fallback appends another slide 1 "
                        f"after the slides already built)", {"powerpoint_document_stream_hex": data.hex()[:6000], "units": us})
        elif not all(a < b for a, b in zip(nums, nums[1:])):
            ctx.finding("ppt:document-numbers-not-increasing", f"_parse_ppt_document: unit numbers {nums}",
                        {"powerpoint_document_stream_hex": data.hex()[:6000], "units": us})
    # malformed stream: numbering must hold whatever the bytes are
    for i in range(ctx.n(300, 3000)):
        data = bytes(rng.choice([0, 0, 0x0F, 0xF0, 0xF3, 0x03, 0xA8, 0x9F, 1, 4, 8, 65, 255]) for _ in range(rng.randint(0, 80)))
        content = dt.PptContent()
        try:
            px._parse_ppt_document(data, content)
        except Exception:  # noqa  (failure surface is C01's business)
            continue
        nums = [u.get_metadata().unit_number for u in content.iterate_units()]
        ctx.case(("ppt-malformed", data.hex()), len(nums) >= 2, kind="ppt:malformed")
        if len(set(nums)) != len(nums):
            ctx.finding("ppt:raw-fallback-second-slide-1", f"_parse_ppt_document: unit numbers {nums} repeat",
                        {"powerpoint_document_stream_hex": data.hex()})
    pre = ("From Coq Require Import ZArith List.\nFrom S2T Require Import Lib.PyStr C03.Lib C03.Model C03.Extract C03.Corr "
           "Gen.C03Tables.\nImport ListNotations.\n")
    ok, failing, log = coq_eval_shards(ctx, "pptsl", pre, "ppt_slist_case", c1, shard=400,
                                       ty="list ppt_event * list (list (str * option Z))")
    ctx.traces += len(c1)
    ctx.obligation("correspondence:ppt _parse_slide_list_container", ok and not failing,
                   (f"{len(failing)} disagreements, first: {c1[failing[0]][:400] if failing else ''} " + log)[:1500])
    ok, failing, log = coq_eval_shards(ctx, "pptdoc", pre, "(ppt_doc_case PPT)", c2, shard=400,
                                       ty="list (list ppt_event) * list (list (str * option Z)) * list str * list (Z * str)")
    ctx.traces += len(c2)
    ctx.obligation("correspondence:ppt _parse_ppt_document slides/units", ok and not failing,
                   (f"{len(failing)} disagreements, first: {info2[failing[0]] if failing else ''} " + log)[:1500])


# ----------------------------------------------------------------------------- (b) RTF pages
def rtf_prologue(rng):
    r"""Header groups a real producer writes before the body: font / colour / style tables, \info with dates (valid,
    zeroed and out-of-range components), generator, header / footer, paragraph set-up."""
    out = []
    if rng.random() < 0.6:
        out.append(r"{\fonttbl{\f0\froman\fcharset0 Times New Roman;}{\f1\fswiss Arial;}}")
    if rng.random() < 0.4:
        out.append(r"{\colortbl;\red0\green0\blue0;\red255\green0\blue0;}")
    if rng.random() < 0.3:
        out.append(r"{\stylesheet{\s0 Normal;}{\s1 heading 1;}}")
    if rng.random() < 0.6:
        def stamp(word):
            comp = [("yr", [0, 1899, 2024, 2024, 9999, 10000]), ("mo", [0, 1, 2, 6, 12, 13]), ("dy", [0, 1, 29, 30, 31]),
                    ("hr", [0, 12, 23, 24]), ("min", [0, 30, 59, 60])]
            s_ = "{\\" + word + "".join("\\%s%d" % (n_, rng.choice(v_)) for n_, v_ in comp if rng.random() < 0.9)
            if rng.random() < 0.4:
                s_ += "\\sec%d" % rng.choice([0, 59, 60])
            return s_ + "}"
        info = r"{\info{\title Doc title}{\author Ann}"
        for w in ("creatim", "revtim", "printim"):
            if rng.random() < 0.6:
                info += stamp(w)
        out.append(info + r"{\nofpages3}}")
    if rng.random() < 0.3:
        out.append(r"{\*\generator Gen 1.0;}")
    if rng.random() < 0.3:
        out.append(r"{\header Head text\par}")
    if rng.random() < 0.2:
        out.append(r"{\footer Foot text\par}")
    if rng.random() < 0.4:
        out.append("\\pard\\f0\\fs24 ")
    return "".join(out)


def run_rtf(ctx):
    from sharepoint2text.parsing.extractors.ms_legacy import rtf_extractor as rx
    rng = ctx.rng
    cases, info, rtf_docs = [], [], []
    for i in range(ctx.n(300, 3000)):
        npages = rng.choice([1, 1, 2, 3, 4, 5])
        segs, src, marks = [], [], []
        page_style = {}
        same_pages = rng.random() < 0.3      # every text page carries the same text
        blank_seen = False
        for k in range(1, npages + 1):
            style = rng.choice(["text", "text", "text", "blank", "spaces", "parsonly"])
            blank_seen = blank_seen or style != "text"
            page_style[k] = style
            seg, rtf = "", ""
            if style == "text":
                m = "MkSameq" if same_pages else f"Mk{k}q"
                marks.append((m, k))
                for j in range(1 if same_pages else rng.randint(1, 3)):
                    w = "word" if same_pages else rng.choice([m if j == 0 else "word", "two  spaces", "tail "])
                    if j == 0:
                        w = m + " " + w
                    seg += w; rtf += w
                    for _ in range(1 if same_pages else rng.choice([0, 1, 1, 4])):
                        seg += "\n"; rtf += "\\par "
            elif style == "spaces":
                seg = rtf = "   "
            elif style == "parsonly":
                seg = "\n\n"; rtf = "\\par \\par "
            segs.append(seg); src.append(rtf)
        brk = [rng.choice(["\\page ", "\\page\n", "\\sbkpage "]) for _ in range(npages - 1)]
        segs2 = [segs[0]]
        body = src[0]
        for b, sg, sr in zip(brk, segs[1:], src[1:]):
            body += b + sr
            segs2.append(("\n" if b.endswith("\n") else "") + sg)
        doc = ("{\\rtf1\\ansi\\deff0 " + rtf_prologue(rng) + body + "}").encode("ascii")
        content = next(rx.read_rtf(io.BytesIO(doc)))
        us, ft = observe(content)
        rtf_docs.append(doc)
        tbl = {}
        for sg in segs2 + ["".join(segs2)]:
            st = sg.strip()
            nv = rx._RE_MULTI_NEWLINE.sub("\n\n", rx._RE_MULTI_SPACE.sub(" ", st))
            if nv != st:
                tbl[st] = nv
        cases.append(pair(coq_list([pair(coq_str(a), coq_str(b)) for a, b in tbl.items()]), cstrs(segs2), cstrs(content.pages)))
        info.append(doc.decode())
        ctx.case(("rtf", doc), npages >= 2, kind="rtf:pages")
        # property oracle: text of explicit page k is in the unit numbered k and nowhere else
        owners = {}
        for m, k in marks:
            owners.setdefault(m, []).append(k)
        bad = [(m, k, [n for n, t in us if m in t]) for m, k in marks if [n for n, t in us if m in t] != owners[m]]
        nums = [n for n, _ in us]
        if not all(a < b for a, b in zip(nums, nums[1:])):
            ctx.finding("rtf:numbers-not-increasing", f"RTF unit numbers {nums}", {"rtf": doc.decode(), "units": us})
        elif bad and not blank_seen:
            ctx.finding("rtf:page-text-in-wrong-unit", f"RTF without blank pages: text of explicit page {bad[0][1]} is returned "
                        f"in units {bad[0][2]}", {"rtf": doc.decode(), "units": us, "pages": content.pages})
        elif bad and any(holders != [sum(1 for q in range(1, k + 1) if page_style[q] == "text") for k in owners[m]]
                         for m, k_, holders in bad):
            # not explained by the known defect either (blank pages dropped before numbering => unit number = rank among
            # the non-blank pages)
            ctx.finding("rtf:page-text-in-wrong-unit", f"RTF: text of explicit page {bad[0][1]} is returned in units {bad[0][2]} "
                        f"(not the page position, and not the rank among non-blank pages either)",
                        {"rtf": doc.decode(), "units": us, "pages": content.pages})
        elif bad:
            ctx.finding("rtf:blank-page-dropped-renumbers-following",
                        f"RTF: text of explicit page {bad[0][1]} is returned in unit {bad[0][2]} (blank pages are dropped "
                        f"by flush_page before numbering)", {"rtf": doc.decode(), "units": us, "pages": content.pages})
    pre = ("From Coq Require Import ZArith List.\nFrom S2T Require Import Lib.PyStr C03.Lib C03.Model C03.Extract C03.Corr.\n"
           "Import ListNotations.\n")
    ok, failing, log = coq_eval_shards(ctx, "rtf", pre, "rtf_pages_case", cases, shard=300,
                                       ty="list (str * str) * list str * list str")
    ctx.traces += len(cases)
    ctx.obligation("correspondence:rtf page splitting (flush_page) model==implementation", ok and not failing,
                   (f"{len(failing)} disagreements, first: {info[failing[0]]!r} " if failing else "") + log[:800])
    import common
    common.env_sweep(ctx, "rtf-units", lambda d: observe(next(rx.read_rtf(io.BytesIO(d)))), rtf_docs[:60],
                     describe=lambda d: d.decode()[:300])


# ----------------------------------------------------------------------------- (b) mbox
def run_mbox(ctx):
    from sharepoint2text.parsing.extractors.mail import mbox_email_extractor as mx
    rng = ctx.rng
    cases, info = [], []
    seps = [b"From a@b.c Mon Jan  1 00:00:00 2024\n", b"From MAILER-DAEMON Thu Feb 29 23:59:59 2024\r\n",
            b"From x 1999\n", b"From - 12345\n"]
    body_lines = [b"Hello", b">From the start 2024", b"From here on", b"From  x 2024", b"From", b"", b"see 2024",
                  b">>From a 2024", b"Fromage 2024", b" From a 2024", b"caf\xc3\xa9", b"From x 2024 ", b"From x 202",
                  b"\tFrom a 2024"]
    for i in range(ctx.n(400, 4000)):
        hostile = rng.random() < 0.25
        msgs = []
        data = rng.choice([b"", b"", b"preamble\n", b"\n"])
        for k in range(rng.randint(0, 4)):
            lines = [b"Subject: m%d" % k, b"From: a@b", b""]
            for _ in range(rng.randint(0, 4)):
                lines.append(rng.choice(body_lines) if not hostile else rng.choice(body_lines + [b"From z@z 2024", b"From z 2024\r"]))
            nl = rng.choice([b"\n", b"\n", b"\r\n"])
            m = nl.join(lines)
            if rng.random() < 0.1:
                m = b""
            msgs.append(m.rstrip(b"\r\n"))
            data += rng.choice(seps) + m + nl + rng.choice([b"", nl, nl + nl])
        if rng.random() < 0.1:
            data = data.rstrip(b"\n")
            hostile = True  # possibly a truncated separator line at the very end: not a well-formed mailbox
        got = mx._split_mbox_messages(data)
        d = lambda b: b.decode("latin-1")
        cases.append(pair(coq_str(d(data)), cstrs([d(g) for g in got])))
        info.append(data)
        ctx.case(("mbox", data), len(got) >= 2, kind="mbox:hostile" if hostile else "mbox:escaped")
        if not hostile:
            want = [m for m in msgs if m]
            if got != want:
                ctx.finding("mbox:escaped-bodies-not-one-per-message",
                            f"_split_mbox_messages returns {len(got)} messages for {len(want)} written (escaped bodies)",
                            {"mbox": data, "got": got, "want": want})
    pre = ("From Coq Require Import ZArith List.\nFrom S2T Require Import Lib.PyStr C03.Lib C03.Model C03.Extract C03.Corr.\n"
           "Import ListNotations.\n")
    ok, failing, log = coq_eval_shards(ctx, "mbox", pre, "mbox_case", cases, shard=300, ty="str * list str")
    ctx.traces += len(cases)
    ctx.obligation("correspondence:mbox _split_mbox_messages model==implementation", ok and not failing,
                   (f"{len(failing)} disagreements, first: {info[failing[0]]!r} " if failing else "") + log[:800])


# ----------------------------------------------------------------------------- (b) DOCX heading sections
HEADING_RE = re.compile(r"^heading\s*(\d+)\b", flags=re.IGNORECASE)  # the regex of DocxContent.iterate_units


def heading_level(style):
    if not style:
        return None
    m = HEADING_RE.match(style.strip())
    return int(m.group(1)) if m else None


def run_docx(ctx):
    from sharepoint2text.parsing.extractors import data_types as dt
    rng = ctx.rng
    styles = ["Heading 1", "heading2", " Heading 3", "HEADING 1", "Heading1", "Normal", None, "Title", "Heading", "Heading 2x",
              "Heading 2"]
    cases, info = [], []
    for i in range(ctx.n(500, 8000)):
        n = rng.randint(0, 9)
        shape = rng.choice(["free", "free", "clean", "preface", "breaks"])
        paras = []
        for k in range(n):
            st = rng.choice(styles)
            if shape == "clean" and k == 0:
                st = "Heading 1"
            if shape == "preface" and k == 0:
                st = "Normal"
            lvl = heading_level(st)
            text = rng.choice([f"P{k}x", f"  P{k}x \n", "", " ", f"P{k}x"]) if lvl is None else rng.choice(
                [f"H{k}x", f"H{k}x ", "" if shape == "free" else f"H{k}x"])
            pb = (rng.random() < (0.5 if shape == "breaks" else 0.1)) and lvl is None and shape != "clean"
            paras.append(dt.DocxParagraph(text=text, style=st, has_page_break=pb))
        imgs = [dt.DocxImage(anchor_paragraph_indices=[rng.randint(0, max(n, 1)) for _ in range(rng.randint(0, 2))])
                for _ in range(rng.choice([0, 0, 1, 2]))]
        nt = rng.choice([0, 0, 1, 2])
        tables = [[["a"]] for _ in range(nt)]
        anchors = [rng.randint(0, max(n, 1)) for _ in range(nt if rng.random() < 0.8 else nt + 1)]
        ft = "FULL " + rtext(rng, None, 3)
        obj = dt.DocxContent(paragraphs=paras, images=imgs, tables=tables, table_anchor_paragraph_indices=anchors, full_text=ft)
        us = list(obj.iterate_units())
        got = [(u.unit_number, u.text, list(u.heading_path), u.heading_level) for u in us]
        term = ("(mkDocx " + coq_list([f"(mkDPara {coq_str(p.text)} {coq_opt(heading_level(p.style), coq_Z)} {coq_bool(p.has_page_break)})"
                                       for p in paras])
                + " " + coq_list([coq_list([coq_Z(a) for a in im.anchor_paragraph_indices]) for im in imgs])
                + f" {nt} " + coq_list([coq_Z(a) for a in anchors]) + " " + coq_str(ft) + ")")
        cases.append(pair(term, coq_list([pair(coq_Z(a), coq_str(b), cstrs(c), coq_opt(d, coq_Z)) for a, b, c, d in got])))
        info.append([(p.text, p.style, p.has_page_break) for p in paras])
        ctx.case(("docx", term), any(heading_level(p.style) is not None for p in paras), kind=f"docx:{shape}")
        # ---- property oracle on the implementation
        rp = {"paragraphs": info[-1], "image_anchors": [im.anchor_paragraph_indices for im in imgs], "tables": nt,
              "table_anchors": anchors, "units": got}
        nums = [g[0] for g in got]
        if nums != list(range(1, len(nums) + 1)):
            ctx.finding("docx:unit-numbers-not-1..n", f"DocxContent unit numbers {nums}", rp)
        levels = [heading_level(p.style) for p in paras]
        if not any(l is not None for l in levels):
            continue  # single flowing unit carrying full_text
        first_h = next(k for k, l in enumerate(levels) if l is not None)
        covered_lines = [ln for g in got for ln in g[1].split("\n")]
        covered_paths = [t for g in got for t in g[2]]
        stack = []
        for k, p in enumerate(paras):
            t = p.text.strip()
            if levels[k] is not None:
                while stack and stack[-1][0] >= levels[k]:
                    stack.pop()
                stack.append((levels[k], t))
                if t and t not in covered_paths:
                    ctx.finding("docx:heading-text-in-no-heading-path", f"DOCX heading {t!r} is in no unit's heading path", rp)
                continue
            if t and t in covered_lines and not any(t in g[1].split("\n") and g[2] == [x for _, x in stack if x] for g in got):
                ctx.finding("docx:heading-path-not-ancestor-chain", f"DOCX body paragraph {t!r}: no unit holding it has the "
                            f"heading path of its section {[x for _, x in stack if x]}", dict(rp, paragraph=k))
            if not t or t in covered_lines:
                continue
            if k < first_h:
                key, why = "docx:paragraph-before-first-heading-in-no-unit", "paragraphs before the first heading are in no unit"
            elif p.has_page_break:
                key, why = "docx:page-break-paragraph-text-dropped", ("the text of a paragraph carrying a page break is dropped "
                                                                      "when it splits a heading section")
            elif not [x for _, x in stack if x]:
                key, why = ("docx:section-under-empty-heading-text-in-no-unit",
                            "body text under headings whose own text is empty is in no unit")
            else:
                key, why = "docx:body-paragraph-in-no-unit", "a body paragraph is in no unit"
            ctx.finding(key, f"DocxContent.iterate_units: {why} (paragraph {k}: {t!r})", dict(rp, paragraph=k))
    pre = ("From Coq Require Import ZArith List.\nFrom S2T Require Import Lib.PyStr C03.Lib C03.Docx C03.Corr.\n"
           "Import ListNotations.\n")
    ok, failing, log = coq_eval_shards(ctx, "docx", pre, "docx_case", cases, shard=300,
                                       ty="docx * list (Z * str * list str * option Z)")
    ctx.traces += len(cases)
    ctx.obligation("correspondence:DocxContent.iterate_units model==implementation", ok and not failing,
                   (f"{len(failing)} disagreements, first: {info[failing[0]]!r} " if failing else "") + log[:800])


# ----------------------------------------------------------------------------- (b) DOC / ODT heading sections
def _stack_paths(heads):
    """heads: list of (index, level, text) in order -> nothing; helper kept for symmetry."""
    return heads


def run_doc(ctx):
    from sharepoint2text.parsing.extractors import data_types as dt
    rng = ctx.rng
    vocab_head = ["Chapter 1", "chapter two", "CHAPTER", "Subsection A", "subsection", "intro", " Intro ", "Chapter 1",
                  "INTRO", "Subsection B"]
    vocab_body = ["body {k}", "  body {k}  ", "", "  ", "introduction {k}", "a b c", "a  b\tc", "x", "The chapter {k}",
                  "ſubsection {k}", "Intro {k}"]
    seps = ["\n", "\n", "\n", "\r\n", "\x0b", " ", "\x0c"]
    cases, info, split_cases = [], [], []
    for i in range(ctx.n(450, 7000)):
        n = rng.choice([0, 1, 2, 3, 4, 5, 6, 8])
        shape = rng.choice(["free", "free", "headings-only", "clean", "nohead"])
        raw = []
        for k in range(n):
            if shape == "headings-only" or (shape != "nohead" and rng.random() < 0.35) or (shape == "clean" and k == 0):
                raw.append(rng.choice(vocab_head))
            else:
                raw.append(rng.choice(vocab_body if shape != "clean" else vocab_body[:2] + vocab_body[4:]).format(k=k))
            if shape == "clean" and raw[-1] in vocab_head:
                raw.append(f"payload {k}")
        main_text = "".join(l + rng.choice(seps) for l in raw)
        if rng.random() < 0.3:
            main_text = main_text.rstrip()
        tables = rng.choice([[], [], [[["a", "b"], ["c"]]], [[["x"]], [["a", "b", "c"]]], [[["a", None, "c"]]], [[["a b", "c"]]]])
        nimg = rng.choice([0, 0, 1, 2])
        imgs = [dt.DocImage(image_number=j + 1, content_type="image/png", caption=rng.choice(["", "body 1", "zzz"]))
                for j in range(nimg)]
        title = rng.choice(["", "", "Doc title"])
        obj = dt.DocContent(main_text=main_text, tables=tables, images=imgs, metadata=dt.DocMetadata(title=title))
        lines = [l.rstrip() for l in (main_text or "").splitlines()]
        rp = {"main_text": main_text, "tables": tables, "images": nimg, "title": title}
        try:
            us = list(obj.iterate_units())
        except IndexError as e:
            ctx.case(("doc", main_text, nimg), True, kind="doc:raises")
            ctx.finding("doc:headings-without-units-image-indexerror",
                        "DocContent.iterate_units raises IndexError (units[-1] on an empty list) when the text has headings "
                        "but no unit was produced and an image is present", dict(rp, error=repr(e)))
            continue
        got = [(u.unit_number, u.text, list(u.heading_path), u.heading_level) for u in us]
        flat = lambda tb: [c if isinstance(c, str) else " " for row in tb for c in row]
        term = ("(mkDoc " + coq_list([f"(mkDocLine {coq_str(l)} {coq_str(l.strip().lower())})" for l in lines]) + " "
                + coq_str(main_text) + " " + coq_list([cstrs(flat(tb)) for tb in tables]) + f" {nimg} " + coq_str(title) + ")")
        cases.append(pair(term, coq_list([pair(coq_Z(a), coq_str(b), cstrs(c), coq_opt(d, coq_Z)) for a, b, c, d in got])))
        info.append(rp)
        for l in lines[:3]:
            split_cases.append(pair(coq_str(l), cstrs(l.split())))
        # ---- property oracle
        nums = [g[0] for g in got]
        if nums != list(range(1, len(nums) + 1)):
            ctx.finding("doc:unit-numbers-not-1..n", f"DocContent unit numbers {nums}", dict(rp, units=got))
        # which lines are headings / table lines (consume order as in the code)
        ti, kinds = 0, []
        for l in lines:
            toks = l.split()
            if ti < len(tables) and toks and toks == [c for row in tables[ti] for c in row]:
                ti += 1; kinds.append("table"); continue
            low = l.strip().lower()
            kinds.append("head" if l.strip() and (low.startswith("subsection") or low.startswith("chapter") or low == "intro")
                         else "body")
        heading_mode = "head" in kinds
        ctx.case(("doc", term), heading_mode or len(got) >= 2, kind=f"doc:{shape}")
        if not heading_mode:
            continue
        cov_lines = [x for g in got for x in g[1].split("\n")]
        cov_paths = [x for g in got for x in g[2]]
        last_head = None
        hstack = []
        for l, kd in zip(lines, kinds):
            tx = l.strip()
            if not tx or kd == "table":
                continue
            if kd == "head":
                last_head = tx
                lvl_ = 2 if tx.lower().startswith("subsection") else 1
                while hstack and hstack[-1][0] >= lvl_:
                    hstack.pop()
                hstack.append((lvl_, tx))
            elif tx in cov_lines and not any(tx in g[1].split("\n") and g[2] == [x for _, x in hstack] for g in got):
                ctx.finding("doc:heading-path-not-ancestor-chain", f"DOC body line {tx!r}: no unit holding it has the heading "
                            f"path of its section {[x for _, x in hstack]}", dict(rp, units=got, line=tx))
            elif last_head is not None and not any(tx in g[1].split("\n") and g[2] and g[2][-1] == last_head for g in got):
                ctx.finding("doc:body-line-in-wrong-section", f"DOC body line {tx!r} is not in a unit of its own section "
                            f"{last_head!r}", dict(rp, units=got, line=tx))
            if kd == "head" and tx not in cov_paths:
                ctx.finding("doc:heading-without-body-in-no-unit", f"DOC heading {tx!r} without body text is in no unit "
                            "(no unit is emitted for an empty section and nothing below it carries the heading)",
                            dict(rp, units=got, heading=tx))
            if kd == "body" and tx not in cov_lines:
                ctx.finding("doc:body-line-in-no-unit", f"DOC body line {tx!r} is in no unit", dict(rp, units=got, line=tx))
    pre = ("From Coq Require Import ZArith List.\nFrom S2T Require Import Lib.PyStr C03.Lib C03.Docx C03.Sect C03.Corr.\n"
           "Import ListNotations.\n")
    ok, failing, log = coq_eval_shards(ctx, "doc", pre, "doc_case", cases, shard=300, ty="doc * list obs")
    ctx.traces += len(cases)
    ctx.obligation("correspondence:DocContent.iterate_units model==implementation", ok and not failing,
                   (f"{len(failing)} disagreements, first: {info[failing[0]]!r} " if failing else "") + log[:800])
    ok, failing, log = coq_eval_shards(ctx, "split", pre, "split_case", split_cases[:ctx.n(600, 5000)], shard=600, ty="str * list str")
    ctx.obligation("correspondence:str.split() model==CPython", ok and not failing, (f"{len(failing)} disagreements " + log)[:600])


def run_odt(ctx):
    from sharepoint2text.parsing.extractors import data_types as dt
    rng = ctx.rng
    styles = [None, "Standard", "P1", "Table_20_Contents", "Table Heading", "My_Table_x", "Text_20_body", "Tables"]
    cases, info, env_objs = [], [], []
    for i in range(ctx.n(450, 7000)):
        n = rng.choice([0, 1, 2, 3, 4, 5, 6, 8])
        shape = rng.choice(["free", "free", "headings-only", "clean", "nohead"])
        paras, kinds = [], []
        for k in range(n):
            lvl = None
            if shape == "headings-only" or (shape != "nohead" and rng.random() < 0.35) or (shape == "clean" and k == 0):
                lvl = rng.choice([1, 1, 2, 3])
            st = rng.choice(styles[:3] if shape == "clean" else styles)
            if lvl is not None:
                tx = rng.choice([f"H{k}x", f" H{k}x ", "Same", "" if shape != "clean" else f"H{k}x", "Doc title"])
            else:
                tx = rng.choice([f"P{k}x", f"  P{k}x \n", "", " ", f"P{k}x"])
            paras.append(dt.OdtParagraph(text=tx, style_name=st, outline_level=lvl))
            if shape == "clean" and lvl is not None:
                paras.append(dt.OdtParagraph(text=f"payload {k}", style_name="Standard"))
        ntab = rng.choice([0, 0, 1, 2, 3])
        tables = [dt.OdtTable(data=[["h1", "h2"], ["1", "2"]]) for _ in range(ntab)]
        imgs = [dt.OpenDocumentImage(caption=rng.choice(["", "P1x"]), image_index=j + 1) for j in range(rng.choice([0, 0, 1]))]
        title = rng.choice(["", "", "Doc title"])
        ft = "FULL " + rtext(rng, None, 3)
        obj = dt.OdtContent(paragraphs=paras, tables=tables, images=imgs, full_text=ft,
                            metadata=dt.OpenDocumentMetadata(title=title))
        rp = {"paragraphs": [(p.text, p.style_name, p.outline_level) for p in paras], "tables": ntab, "title": title}
        try:
            us = list(obj.iterate_units())
        except Exception as e:  # noqa
            ctx.finding("odt:iterate_units-raises", f"OdtContent.iterate_units raised {type(e).__name__}", dict(rp, error=repr(e)))
            continue
        got = [(u.unit_number, u.text, list(u.heading_path), u.heading_level) for u in us]
        term = ("(mkOdt " + coq_list([f"(mkOdtPara {coq_str(p.text)} {coq_str(p.style_name or '')} {coq_opt(p.outline_level, coq_Z)})"
                                      for p in paras]) + f" {ntab} " + coq_str(ft) + " " + coq_str(title) + ")")
        cases.append(pair(term, coq_list([pair(coq_Z(a), coq_str(b), cstrs(c), coq_opt(d, coq_Z)) for a, b, c, d in got])))
        info.append(rp)
        if len(env_objs) < 80:
            env_objs.append((obj, rp))
        nums = [g[0] for g in got]
        if nums != list(range(1, len(nums) + 1)):
            ctx.finding("odt:unit-numbers-not-1..n", f"OdtContent unit numbers {nums}", dict(rp, units=got))
        heading_mode = any(p.outline_level is not None and p.text.strip() for p in paras)
        ctx.case(("odt", term), heading_mode or len(got) >= 2, kind=f"odt:{shape}")
        if not heading_mode:
            continue
        cov_lines = [x for g in got for x in g[1].split("\n")]
        cov_paths = [x for g in got for x in g[2]]
        last_head = None
        hstack = []          # the specification: open ancestor headings = pop while top.level >= level, then push
        base = [title] if title else []
        for p in paras:
            tx = p.text.strip()
            if not tx:
                continue
            if p.outline_level is not None:
                last_head = tx
                while hstack and hstack[-1][0] >= p.outline_level:
                    hstack.pop()
                hstack.append((p.outline_level, tx))
                if tx not in cov_paths:
                    ctx.finding("odt:heading-without-body-in-no-unit", f"ODT heading {tx!r} without body text is in no unit "
                                "(no unit is emitted for an empty section and nothing below it carries the heading)",
                                dict(rp, units=got, heading=tx))
                continue
            st = p.style_name or ""
            if st.startswith("Table") or "Table_" in st:
                continue  # table cell paragraphs: table content
            want_path = list(base)
            for tok_ in [x for _, x in hstack]:
                if not want_path or want_path[-1] != tok_:
                    want_path.append(tok_)
            if tx in cov_lines and not any(tx in g[1].split("\n") and g[2] == want_path for g in got):
                ctx.finding("odt:heading-path-not-ancestor-chain", f"ODT body paragraph {tx!r}: no unit holding it has the "
                            f"heading path of its section {want_path} (paths of the units holding it: "
                            f"{[g[2] for g in got if tx in g[1].split(chr(10))]})", dict(rp, units=got))
            if last_head is not None and tx in cov_lines and not any(
                    tx in g[1].split("\n") and g[2] and g[2][-1] == last_head for g in got):
                ctx.finding("odt:body-paragraph-in-wrong-section", f"ODT body paragraph {tx!r} is not in a unit of its own "
                            f"section {last_head!r}", dict(rp, units=got))
            if tx not in cov_lines:
                ctx.finding("odt:body-paragraph-in-no-unit", f"ODT body paragraph {tx!r} is in no unit", dict(rp, units=got))
    pre = ("From Coq Require Import ZArith List.\nFrom S2T Require Import Lib.PyStr C03.Lib C03.Docx C03.Sect C03.Corr.\n"
           "Import ListNotations.\n")
    ok, failing, log = coq_eval_shards(ctx, "odt", pre, "odt_case", cases, shard=300, ty="odt * list obs")
    ctx.traces += len(cases)
    ctx.obligation("correspondence:OdtContent.iterate_units model==implementation", ok and not failing,
                   (f"{len(failing)} disagreements, first: {info[failing[0]]!r} " if failing else "") + log[:800])
    import common
    common.env_sweep(ctx, "odt-heading-units", lambda x: [(u.unit_number, u.text, list(u.heading_path), u.heading_level)
                                                          for u in x[0].iterate_units()], env_objs, describe=lambda x: repr(x[1])[:400])


# ----------------------------------------------------------------------------- tiny document writers (harness only)
def make_pdf(pages, catalog_extra=b"", nested=False):
    """pages: list of None (no content stream text) | str (text shown with Tj; may be whitespace).
    catalog_extra: raw entries added to the catalog dictionary (/PageLabels ..., /ViewerPreferences ...);
    nested: put the pages under an intermediate /Pages node."""
    objs = {}
    n = len(pages)
    kids = []
    objs[3] = b"<< /Type /Font /Subtype /Type1 /BaseFont /Helvetica /Encoding /WinAnsiEncoding >>"
    num = 4
    for t in pages:
        pg, cs = num, num + 1
        num += 2
        kids.append(pg)
        if t is None:
            stream = b""
        else:
            esc = t.replace("\\", "\\\\").replace("(", "\\(").replace(")", "\\)")
            stream = ("BT /F1 12 Tf 72 720 Td (%s) Tj ET" % esc).encode("latin-1")
        objs[cs] = b"<< /Length %d >>\nstream\n" % len(stream) + stream + b"\nendstream"
        objs[pg] = (b"<< /Type /Page /Parent 2 0 R /MediaBox [0 0 612 792] /Resources << /Font << /F1 3 0 R >> >> "
                    b"/Contents %d 0 R >>" % cs)
    objs[1] = b"<< /Type /Catalog /Pages 2 0 R " + catalog_extra + b" >>"
    if nested and n >= 2:
        mid = num
        num += 1
        half = n // 2
        objs[mid] = b"<< /Type /Pages /Parent 2 0 R /Count %d /Kids [%s] >>" % (half, b" ".join(b"%d 0 R" % k for k in kids[:half]))
        for k in kids[:half]:
            objs[k] = objs[k].replace(b"/Parent 2 0 R", b"/Parent %d 0 R" % mid)
        objs[2] = b"<< /Type /Pages /Count %d /Kids [%d 0 R %s] >>" % (n, mid, b" ".join(b"%d 0 R" % k for k in kids[half:]))
    else:
        objs[2] = b"<< /Type /Pages /Count %d /Kids [%s] >>" % (n, b" ".join(b"%d 0 R" % k for k in kids))
    out = bytearray(b"%PDF-1.4\n%\xe2\xe3\xcf\xd3\n")
    offs = {}
    for k in sorted(objs):
        offs[k] = len(out)
        out += b"%d 0 obj\n" % k + objs[k] + b"\nendobj\n"
    xref = len(out)
    out += b"xref\n0 %d\n" % (num) + b"0000000000 65535 f \n"
    for k in range(1, num):
        out += b"%010d 00000 n \n" % offs[k]
    out += b"trailer\n<< /Size %d /Root 1 0 R >>\nstartxref\n%d\n%%%%EOF\n" % (num, xref)
    return bytes(out)


NS_P = "http://schemas.openxmlformats.org/presentationml/2006/main"
NS_A = "http://schemas.openxmlformats.org/drawingml/2006/main"
NS_R = "http://schemas.openxmlformats.org/officeDocument/2006/relationships"
REL = "http://schemas.openxmlformats.org/package/2006/relationships"

def make_pptx(slides, rel_order=None):
    """slides (PRESENTATION order): dicts {file: int, sid: int (@id of p:sldId), rid: str, shapes: [(shape id, text)]}.
    rel_order: order of the Relationship elements (list of indices into slides)."""
    buf = io.BytesIO()
    rel_order = list(range(len(slides))) if rel_order is None else rel_order
    with zipfile.ZipFile(buf, "w") as z:
        ct = ('<?xml version="1.0" encoding="UTF-8"?><Types xmlns="http://schemas.openxmlformats.org/package/2006/content-types">'
              '<Default Extension="rels" ContentType="application/vnd.openxmlformats-package.relationships+xml"/>'
              '<Default Extension="xml" ContentType="application/xml"/>'
              '<Override PartName="/ppt/presentation.xml" ContentType="application/vnd.openxmlformats-officedocument.presentationml.presentation.main+xml"/>'
              + "".join(f'<Override PartName="/ppt/slides/slide{sl["file"]}.xml" ContentType="application/vnd.openxmlformats-officedocument.presentationml.slide+xml"/>' for sl in slides)
              + '</Types>')
        z.writestr("[Content_Types].xml", ct)
        z.writestr("_rels/.rels", f'<?xml version="1.0"?><Relationships xmlns="{REL}"><Relationship Id="rId1" '
                   f'Type="{NS_R}/officeDocument" Target="ppt/presentation.xml"/></Relationships>')
        z.writestr("ppt/_rels/presentation.xml.rels", f'<?xml version="1.0"?><Relationships xmlns="{REL}">'
                   + "".join(f'<Relationship Id="{slides[k]["rid"]}" Type="{NS_R}/slide" Target="slides/slide{slides[k]["file"]}.xml"/>'
                             for k in rel_order) + '</Relationships>')
        z.writestr("ppt/presentation.xml", f'<?xml version="1.0"?><p:presentation xmlns:p="{NS_P}" xmlns:r="{NS_R}" xmlns:a="{NS_A}">'
                   '<p:sldIdLst>' + "".join(f'<p:sldId id="{sl["sid"]}" r:id="{sl["rid"]}"/>' for sl in slides)
                   + '</p:sldIdLst></p:presentation>')
        for sl in slides:
            sp = ""
            for shid, text in sl["shapes"]:
                ph = '<p:ph type="title"/>' if shid == 2 else ""
                sp += (f'<p:sp><p:nvSpPr><p:cNvPr id="{shid}" name="Shape {shid}"/><p:cNvSpPr/><p:nvPr>{ph}</p:nvPr></p:nvSpPr><p:spPr/>'
                       f'<p:txBody><a:bodyPr/><a:p><a:r><a:t xml:space="preserve">{text}</a:t></a:r></a:p></p:txBody></p:sp>')
            z.writestr(f'ppt/slides/slide{sl["file"]}.xml', f'<?xml version="1.0"?><p:sld xmlns:p="{NS_P}" xmlns:r="{NS_R}" xmlns:a="{NS_A}">'
                       f'<p:cSld><p:spTree><p:nvGrpSpPr><p:cNvPr id="1" name=""/><p:cNvGrpSpPr/><p:nvPr/></p:nvGrpSpPr><p:grpSpPr/>{sp}</p:spTree></p:cSld></p:sld>')
            z.writestr(f'ppt/slides/_rels/slide{sl["file"]}.xml.rels', f'<?xml version="1.0"?><Relationships xmlns="{REL}"></Relationships>')
    buf.seek(0)
    return buf


def make_epub(opf_dir, docs, spine, nonlinear=(), opf_ns=True):
    """docs: list of dicts {id, path (from archive root, or None = file missing), href (as written in the manifest, or
    None = not in the manifest), body}; manifest items are written in docs order; spine: list of ids."""
    buf = io.BytesIO()
    opf = (opf_dir + "/" if opf_dir else "") + "content.opf"
    with zipfile.ZipFile(buf, "w") as z:
        z.writestr("mimetype", "application/epub+zip")
        z.writestr("META-INF/container.xml", '<?xml version="1.0"?><container version="1.0" '
                   'xmlns="urn:oasis:names:tc:opendocument:xmlns:container"><rootfiles><rootfile '
                   f'full-path="{opf}" media-type="application/oebps-package+xml"/></rootfiles></container>')
        man = "".join(f'<item id="{d["id"]}" href="{d["href"]}" media-type="application/xhtml+xml"/>'
                      for d in docs if d["href"] is not None)
        sp = "".join(f'<itemref idref="{i}"' + (' linear="no"' if k_ in nonlinear else "") + "/>" for k_, i in enumerate(spine))
        z.writestr(opf, '<?xml version="1.0"?><package' + (' xmlns="http://www.idpf.org/2007/opf"' if opf_ns else "") + ' version="3.0">'
                   '<metadata xmlns:dc="http://purl.org/dc/elements/1.1/"><dc:title>T</dc:title></metadata>'
                   f'<manifest>{man}</manifest><spine>{sp}</spine></package>')
        for d in docs:
            if d["path"] is not None:
                z.writestr(d["path"], d.get("raw") or ('<html xmlns="http://www.w3.org/1999/xhtml"><head><title>c</title></head>'
                                                       f'<body>{d["body"]}</body></html>'))
    buf.seek(0)
    return buf


ODF_NS = ('xmlns:office="urn:oasis:names:tc:opendocument:xmlns:office:1.0" '
          'xmlns:text="urn:oasis:names:tc:opendocument:xmlns:text:1.0" '
          'xmlns:table="urn:oasis:names:tc:opendocument:xmlns:table:1.0" '
          'xmlns:draw="urn:oasis:names:tc:opendocument:xmlns:drawing:1.0" '
          'xmlns:svg="urn:oasis:names:tc:opendocument:xmlns:svg-compatible:1.0" '
          'xmlns:presentation="urn:oasis:names:tc:opendocument:xmlns:presentation:1.0"')

def _odf_zip(mime, content):
    buf = io.BytesIO()
    with zipfile.ZipFile(buf, "w") as z:
        z.writestr(zipfile.ZipInfo("mimetype"), mime)
        z.writestr("META-INF/manifest.xml", '<?xml version="1.0" encoding="UTF-8"?><manifest:manifest '
                   'xmlns:manifest="urn:oasis:names:tc:opendocument:xmlns:manifest:1.0"><manifest:file-entry '
                   f'manifest:full-path="/" manifest:media-type="{mime}"/><manifest:file-entry '
                   'manifest:full-path="content.xml" manifest:media-type="text/xml"/></manifest:manifest>')
        z.writestr("content.xml", content)
    buf.seek(0)
    return buf

def _odp_shape(node, pos):
    """node: ("frame", text) | ("group", [nodes])"""
    if node[0] == "frame":
        pos[0] += 1
        y, x, style = (node[2], node[3], node[4]) if len(node) > 2 else (f"{pos[0]}cm", "1cm", "")
        st = f' text:style-name="{style}"' if style else ""
        ya = f' svg:y="{y}"' if y is not None else ""
        return (f'<draw:frame svg:x="{x}"{ya} svg:width="8cm" svg:height="1cm"><draw:text-box>'
                f'<text:p{st}>{node[1]}</text:p></draw:text-box></draw:frame>')
    if node[0] == "notes":
        return ('<presentation:notes><draw:frame svg:x="1cm" svg:y="1cm"><draw:text-box>'
                f'<text:p>{node[1]}</text:p></draw:text-box></draw:frame></presentation:notes>')
    return "<draw:g>" + "".join(_odp_shape(n, pos) for n in node[1]) + "</draw:g>"

def make_odp(slides):
    """slides: list of lists of shape nodes."""
    pages = []
    for i, nodes in enumerate(slides, 1):
        pos = [0]
        pages.append(f'<draw:page draw:name="page{i}">' + "".join(_odp_shape(n, pos) for n in nodes) + '</draw:page>')
    return _odf_zip("application/vnd.oasis.opendocument.presentation",
                    f'<?xml version="1.0" encoding="UTF-8"?><office:document-content {ODF_NS} office:version="1.2"><office:body>'
                    '<office:presentation>' + "".join(pages) + '</office:presentation></office:body></office:document-content>')

def _ods_cell(v, repeat=1):
    rep = f' table:number-columns-repeated="{repeat}"' if repeat > 1 else ""
    if v is None:
        return f"<table:table-cell{rep}/>"
    if isinstance(v, bool):
        b = "true" if v else "false"
        return f'<table:table-cell{rep} office:value-type="boolean" office:boolean-value="{b}"><text:p>{b.upper()}</text:p></table:table-cell>'
    if isinstance(v, (int, float)):
        return f'<table:table-cell{rep} office:value-type="float" office:value="{v}"><text:p>{v}</text:p></table:table-cell>'
    return f'<table:table-cell{rep} office:value-type="string"><text:p>{v}</text:p></table:table-cell>'

def _ods_row(row):
    if isinstance(row, tuple) and row and row[0] == "wrap":
        return f"<table:{row[1]}>" + "".join(_ods_row(r) for r in row[2]) + f"</table:{row[1]}>"
    if isinstance(row, dict):
        rep = f' table:number-rows-repeated="{row["repeat"]}"' if row.get("repeat", 1) != 1 else ""
        return f"<table:table-row{rep}>" + "".join(_ods_cell(v, r) for r, v in row["cells"]) + "</table:table-row>"
    return "<table:table-row>" + "".join(_ods_cell(v) for v in row) + "</table:table-row>"


def ods_expand(rows):
    """Non-empty cell values of a sheet spec after wrapper flattening and repeat expansion, row by row."""
    out = []
    for row in rows:
        if isinstance(row, tuple) and row and row[0] == "wrap":
            out += ods_expand(row[2])
        elif isinstance(row, dict):
            vals = [v for r, v in row["cells"] if v is not None for _ in range(max(r, 0))]   # None cells carry no text
            if vals:
                out += [list(vals) for _ in range(max(row.get("repeat", 1), 0))]
        else:
            out.append(list(row))
    return out


def make_ods(sheets):
    """sheets: list of (name, rows); row = list of cell values (None, bool, int, float, str) | dict with repeats |
    ("wrap", "table-header-rows" | "table-rows" | "table-row-group", [rows])."""
    tables = []
    for name, rows in sheets:
        body = "".join(_ods_row(row) for row in rows)
        tables.append(f'<table:table table:name="{name}">{body}</table:table>')
    return _odf_zip("application/vnd.oasis.opendocument.spreadsheet",
                    f'<?xml version="1.0" encoding="UTF-8"?><office:document-content {ODF_NS} office:version="1.2"><office:body>'
                    '<office:spreadsheet>' + "".join(tables) + '</office:spreadsheet></office:body></office:document-content>')


TOKEN_RE = re.compile(r"T[a-z]\d+x\d+(?:a\d+)?q")


# ----------------------------------------------------------------------------- (b) ODP / ODS unit assembly
def _odf_content_root(data):
    import xml.etree.ElementTree as ET
    with zipfile.ZipFile(io.BytesIO(data)) as z:
        return ET.fromstring(z.read("content.xml"))


def odp_terms(data):
    """content.xml of an .odp -> Coq shape trees (one per draw:page), read off the parsed XML by tag only; positions
    are _parse_odf_length_to_px values replaced by their rank (order-isomorphic), paragraph texts by the real helpers."""
    from sharepoint2text.parsing.extractors.open_office import odp_extractor as ox
    root = _odf_content_root(data)
    body = root.find(".//office:body/office:presentation", ox.NS)
    pages = body.findall("draw:page", ox.NS) if body is not None else []
    frame_tag, g_tag = ox._DRAW_FRAME_TAG, "{%s}g" % ox.NS["draw"]
    vals = set()
    for fr in root.iter(frame_tag):
        vals.add(ox._parse_odf_length_to_px(fr.get(ox._ATTR_SVG_Y)))
        vals.add(ox._parse_odf_length_to_px(fr.get(ox._ATTR_SVG_X)))
    if any(v != v for v in vals):
        return None          # NaN positions: the sort is not a total order, outside the model
    rank = {v: i for i, v in enumerate(sorted(vals))}

    def shape(el):
        if el.tag == frame_tag:
            tb = el.find(ox._DRAW_TEXT_BOX_TAG)
            paras = [] if tb is None else [(ox._get_text_recursive(p_), p_.get(ox._ATTR_TEXT_STYLE_NAME, ""))
                                           for p_ in ox._iter_paragraphs(tb)]
            return ("(ShFrame (mkFrame " + coq_Z(rank[ox._parse_odf_length_to_px(el.get(ox._ATTR_SVG_Y))]) + " "
                    + coq_Z(rank[ox._parse_odf_length_to_px(el.get(ox._ATTR_SVG_X))]) + " "
                    + coq_list([pair(coq_str(a), coq_str(b)) for a, b in paras]) + "))")
        if el.tag == g_tag:
            return "(ShGroup " + coq_list([shape(c) for c in el]) + ")"
        return "ShOther"
    return coq_list([coq_list([shape(c) for c in pg]) for pg in pages])


def ods_terms(data):
    """content.xml of an .ods -> Coq row trees (one per table:table), read off the parsed XML by tag only; cell values
    by the real _extract_cell_value."""
    from sharepoint2text.parsing.extractors.open_office import ods_extractor as sx
    root = _odf_content_root(data)
    body = root.find(".//office:body/office:spreadsheet", sx.NS)
    tables = body.findall("table:table", sx.NS) if body is not None else []

    def node(el):
        if el.tag == sx._TABLE_ROW_TAG:
            cells = []
            for c in el.findall("table:table-cell", sx.NS):
                typed, disp = sx._extract_cell_value(c)
                cells.append(pair(coq_Z(int(c.get(sx._ATTR_TABLE_REPEAT_COLS, "1"))), coq_opt(None if typed is None else disp, coq_str)))
            return "(RRow " + coq_Z(int(el.get(sx._ATTR_TABLE_REPEAT_ROWS, "1"))) + " " + coq_list(cells) + ")"
        if el.tag in sx._TABLE_ROW_WRAPPER_TAGS:
            return "(RWrap " + coq_list([node(c) for c in el]) + ")"
        return "ROther"
    return coq_list([pair(coq_str(tb.get(sx._ATTR_TABLE_NAME, "")), coq_list([node(c) for c in tb])) for tb in tables])


def odf_inventory(ctx):
    """Fail-closed shape inventory (ast) of the repository code behind coq/C03/Odf.v: the two tree iterators must be
    `for child in <param>: if child.tag == A: yield child / elif child.tag ==|in B: yield from <self>(child)`, and
    _extract_slide / _extract_sheet must consume them (one stable .sort keyed on (item[0], item[1]), no reverse)."""
    import ast, inspect, textwrap
    from sharepoint2text.parsing.extractors.open_office import odp_extractor as ox, ods_extractor as sx

    def iterator_shape(fn):
        f = ast.parse(textwrap.dedent(inspect.getsource(fn))).body[0]
        body = [s_ for s_ in f.body if not (isinstance(s_, ast.Expr) and isinstance(s_.value, ast.Constant))]
        if len(body) != 1 or not isinstance(body[0], ast.For) or body[0].orelse:
            return None
        loop = body[0]
        if not (isinstance(loop.iter, ast.Name) and loop.iter.id == f.args.args[0].arg and isinstance(loop.target, ast.Name)):
            return None
        var = loop.target.id
        if len(loop.body) != 1 or not isinstance(loop.body[0], ast.If):
            return None
        out, node = [], loop.body[0]
        while node is not None:
            tst = node.test
            ok = (isinstance(tst, ast.Compare) and len(tst.ops) == 1 and isinstance(tst.ops[0], (ast.Eq, ast.In))
                  and isinstance(tst.left, ast.Attribute) and tst.left.attr == "tag" and isinstance(tst.left.value, ast.Name)
                  and tst.left.value.id == var and isinstance(tst.comparators[0], ast.Name))
            if not ok or len(node.body) != 1 or not isinstance(node.body[0], ast.Expr):
                return None
            act = node.body[0].value
            if isinstance(act, ast.Yield) and isinstance(act.value, ast.Name) and act.value.id == var:
                kind = "yield"
            elif (isinstance(act, ast.YieldFrom) and isinstance(act.value, ast.Call) and isinstance(act.value.func, ast.Name)
                  and act.value.func.id == f.name and len(act.value.args) == 1 and isinstance(act.value.args[0], ast.Name)
                  and act.value.args[0].id == var):
                kind = "recurse"
            else:
                return None
            out.append((kind, tst.comparators[0].id))
            if not node.orelse:
                node = None
            elif len(node.orelse) == 1 and isinstance(node.orelse[0], ast.If):
                node = node.orelse[0]
            else:
                return None
        return out

    a = iterator_shape(ox._iter_slide_frames)
    ctx.obligation("inventory:odp _iter_slide_frames has the modelled shape (frame -> yield, draw:g -> recurse, else nothing)",
                   a == [("yield", "_DRAW_FRAME_TAG"), ("recurse", "_DRAW_G_TAG")], f"shape: {a}")
    b = iterator_shape(sx._iter_sheet_rows)
    ctx.obligation("inventory:ods _iter_sheet_rows has the modelled shape (row -> yield, wrapper -> recurse, else nothing)",
                   b == [("yield", "_TABLE_ROW_TAG"), ("recurse", "_TABLE_ROW_WRAPPER_TAGS")], f"shape: {b}")
    es = ast.parse(textwrap.dedent(inspect.getsource(ox._extract_slide)))
    calls = [n for n in ast.walk(es) if isinstance(n, ast.Call)]
    uses_iter = any(isinstance(c.func, ast.Name) and c.func.id == "_iter_slide_frames" for c in calls)
    sorts = [c for c in calls if isinstance(c.func, ast.Attribute) and c.func.attr == "sort"] + \
            [c for c in calls if isinstance(c.func, ast.Name) and c.func.id == "sorted"]
    good_sort = False
    if len(sorts) == 1 and [k.arg for k in sorts[0].keywords] == ["key"] and isinstance(sorts[0].keywords[0].value, ast.Lambda):
        lam = sorts[0].keywords[0].value
        good_sort = (isinstance(lam.body, ast.Tuple) and len(lam.body.elts) == 2 and
                     all(isinstance(e, ast.Subscript) and isinstance(e.slice, ast.Constant) and e.slice.value == i
                         for i, e in enumerate(lam.body.elts)))
    ctx.obligation("inventory:odp _extract_slide walks _iter_slide_frames and sorts once by (y, x), ascending, stable",
                   uses_iter and good_sort, f"uses_iter={uses_iter} sorts={len(sorts)} good_sort={good_sort}")
    sh = ast.parse(textwrap.dedent(inspect.getsource(sx._extract_sheet)))
    uses_rows = any(isinstance(n, ast.Call) and isinstance(n.func, ast.Name) and n.func.id == "_iter_sheet_rows" for n in ast.walk(sh))
    consts = sorted({n.value for n in ast.walk(sh) if isinstance(n, ast.Constant) and isinstance(n.value, int) and n.value > 1})
    ctx.obligation("inventory:ods _extract_sheet walks _iter_sheet_rows; the only size threshold is 100 (as modelled)",
                   uses_rows and consts == [100], f"uses_rows={uses_rows} int constants>1: {consts}")
    wr = sorted(t_.split("}")[1] for t_ in sx._TABLE_ROW_WRAPPER_TAGS)
    ctx.obligation("inventory:ods row wrapper tags are header-rows / table-rows / row-group",
                   wr == ["table-header-rows", "table-row-group", "table-rows"], str(wr))


def run_odf(ctx):
    from sharepoint2text.parsing.extractors.open_office import odp_extractor as ox, ods_extractor as sx
    rng = ctx.rng
    res = REPO / "sharepoint2text" / "tests" / "resources"
    odp_cases, ods_cases, odp_info, ods_info = [], [], [], []

    def do_odp(data, label, marks=(), n=None):
        try:
            c = next(ox.read_odp(io.BytesIO(data), "x.odp"))
        except Exception:  # noqa — failure surface: C01
            return
        terms = odp_terms(data)
        us, ft = observe(c)
        ctx.case(("odf-odp", label), len(us) >= 2, kind="odf:odp")
        oracle_units(ctx, "odf:odp", "OdpContent", us, ft, True, marks, n, {"document": label})
        if terms is None:
            return
        slides = [(s_.slide_number, s_.title, list(s_.body_text), list(s_.other_text)) for s_ in c.slides]
        odp_cases.append(pair(terms, coq_list([pair(coq_Z(a), coq_str(b), cstrs(c_), cstrs(d)) for a, b, c_, d in slides]),
                              coq_list([pair(coq_Z(a), coq_str(b)) for a, b in us])))
        odp_info.append(label)

    def do_ods(data, label):
        try:
            c = next(sx.read_ods(io.BytesIO(data), "x.ods"))
        except Exception:  # noqa
            return
        us, ft = observe(c)
        ctx.case(("odf-ods", label), len(us) >= 2, kind="odf:ods")
        sheets = [(s_.name, s_.text) for s_ in c.sheets]
        ods_cases.append(pair(ods_terms(data), coq_list([pair(coq_str(a), coq_str(b)) for a, b in sheets]),
                              coq_list([pair(coq_Z(a), coq_str(b)) for a, b in us])))
        ods_info.append(label)

    for p_ in sorted(glob.glob(str(res / "**" / "*.od[ps]"), recursive=True)) + sorted(glob.glob(str(res / "**" / "*.ot[ps]"), recursive=True)):
        if "password" in p_:
            continue
        data = open(p_, "rb").read()
        (do_odp if p_[-1] == "p" else do_ods)(data, "fixture:" + os.path.relpath(p_, res))
    # generated decks: positions (equal keys, missing, units, negative), styles, groups, notes
    lens = ["1cm", "2cm", "2cm", "0.5in", "10mm", "-1cm", "3.5cm", "20pt", None, "", "abc"]
    styles = ["", "Title", "MyTitle1", "TitleText", "BodyText", "Body_20_x", "P1", "Outline"]
    for i in range(ctx.n(60, 600)):
        n = rng.randint(1, 5)
        slides, marks = [], []
        for j in range(1, n + 1):
            nodes = []

            def fr(tag):
                marks.append((f"Mk{j}{tag}{len(marks)}q", j))
                return ("frame", marks[-1][0] + rng.choice(["", " tail", "  "]), rng.choice(lens), rng.choice(lens[:8]) or "1cm",
                        rng.choice(styles))
            for _ in range(rng.randint(0, 3)):
                nodes.append(fr("t") if rng.random() < 0.6 else ("group", [fr("g") for _ in range(rng.randint(1, 2))]
                                                                  + ([("group", [fr("n")])] if rng.random() < 0.3 else [])))
            if rng.random() < 0.3:
                nodes.append(("notes", f"Note{j}"))
            slides.append(nodes)
        do_odp(make_odp(slides).getvalue(), ("generated", i), marks, n)
    # generated workbooks: typed cells, repeats, wrappers, trailing blanks
    vals = ["a", "b c", 0, 1, 2.5, False, True, None, None, "0", ""]
    for i in range(ctx.n(60, 600)):
        sheets = []
        for j in range(1, rng.randint(1, 4) + 1):
            rows = []
            for _ in range(rng.randint(0, 5)):
                if rng.random() < 0.5:
                    rows.append([rng.choice(vals) for _ in range(rng.randint(0, 4))])
                else:
                    rows.append({"repeat": rng.choice([1, 1, 2, 3, 0, 101, 150]),
                                 "cells": [(rng.choice([1, 1, 2, 3, 0, 101, 120]), rng.choice(vals + [None, None])) for _ in range(rng.randint(0, 4))]})
                    if rows[-1]["repeat"] > 3 and any(v is not None for _, v in rows[-1]["cells"]):
                        rows[-1]["cells"] = [(min(r_, 3), v) for r_, v in rows[-1]["cells"]]      # keep sizes small
                        rows[-1]["repeat"] = rng.choice([2, 101]) if len(rows[-1]["cells"]) <= 2 else 2
            if rows and rng.random() < 0.4:
                cut = rng.randint(0, len(rows))
                rows = [("wrap", "table-header-rows", rows[:cut]), ("wrap", "table-row-group", [("wrap", "table-rows", rows[cut:])])]
            sheets.append((rng.choice([f"S{j}", "", " x "]), rows))
        do_ods(make_ods(sheets).getvalue(), ("generated", i))
    pre = ("From Coq Require Import ZArith List.\nFrom S2T Require Import Lib.PyStr C03.Lib C03.Model C03.Odf C03.Corr.\n"
           "Import ListNotations.\n")
    ok, failing, log = coq_eval_shards(ctx, "odp", pre, "odp_case", odp_cases, shard=40, timeout=600,
                                       ty="list (list shape) * list (Z * str * list str * list str) * list (Z * str)")
    ctx.traces += len(odp_cases)
    ctx.obligation("correspondence:ODP _iter_slide_frames/sort/classification/page loop model==implementation", ok and not failing,
                   (f"{len(failing)} disagreements, first: {odp_info[failing[0]]!r} " if failing else "") + log[:800])
    ok, failing, log = coq_eval_shards(ctx, "ods", pre, "ods_case", ods_cases, shard=40, timeout=600,
                                       ty="list (str * list row_node) * list (str * str) * list (Z * str)")
    ctx.traces += len(ods_cases)
    ctx.obligation("correspondence:ODS _iter_sheet_rows/repeats/trimming/text model==implementation", ok and not failing,
                   (f"{len(failing)} disagreements, first: {ods_info[failing[0]]!r} " if failing else "") + log[:800])


def xhtml_doc(rng, d_, j):
    """A chapter / page from a small XHTML grammar: head elements and body constructs, void AND non-void elements in the
    empty-element syntax (<script src=".."/>, <title/>, <style/>, <td/>, <li/>, <span/>, <a id=".."/>, <p/>, <div/> ...).
    -> (document text, tokens that must be returned for it, tokens that may only be returned in a table of the unit)."""
    a = [0]

    def tok():
        a[0] += 1
        return f"Tk{d_}x{j}a{a[0]}q"
    head = []
    hidden = f"Tz{d_}x{j}a0q"        # script/style content: must never be returned
    for piece in rng.sample(['<title>Chapter title</title>', '<title/>', '<script type="text/javascript" src="../js/kobo.js"/>',
                             f'<script>var {hidden} = 1;</script>', '<style/>', f'<style>p.{hidden} {{}}</style>',
                             '<link rel="stylesheet" href="s.css"/>', '<meta charset="utf-8"/>'], rng.randint(0, 4)):
        if piece.startswith("<title") and any(h.startswith("<title") for h in head):
            continue
        head.append(piece)
    want, in_table, body = set(), set(), []
    for _ in range(rng.randint(1, 6)):
        kind = rng.choice(["p", "p", "div-br", "hr", "empty-p", "inline-empty", "img", "list", "table", "iframe", "empty-div",
                           "h2", "empty-h2", "em", "section", "comment", "entity"])
        if kind == "p":
            x = tok(); want.add(x); body.append(f"<p>{x} text</p>")
        elif kind == "div-br":
            x, y = tok(), tok(); want |= {x, y}; body.append(f"<div>{x}<br/>{y}</div>")
        elif kind == "hr":
            body.append("<hr/>")
        elif kind == "empty-p":
            body.append("<p/>")
        elif kind == "inline-empty":
            x, y = tok(), tok(); want |= {x, y}
            body.append(f'<p>{x} <span/><a id="n{a[0]}"/><b/>{y}</p>')
        elif kind == "img":
            body.append('<p><img src="i.png" alt=""/></p>')
        elif kind == "list":
            x = tok(); want.add(x); body.append(f"<ul><li>{x}</li><li/></ul>")
        elif kind == "table":
            x = tok(); want.add(x); in_table.add(x)
            body.append(f"<table><tr><td>{x}</td><td/></tr></table>")
        elif kind == "iframe":
            body.append('<iframe src="x.html"/>')
        elif kind == "empty-div":
            body.append('<div class="pagebreak"/>')
        elif kind == "h2":
            x = tok(); want.add(x); body.append(f"<h2>{x}</h2>")
        elif kind == "empty-h2":
            body.append("<h2/>")
        elif kind == "em":
            x = tok(); want.add(x); body.append(f"<p><em>{x}</em></p>")
        elif kind == "section":
            x = tok(); want.add(x); body.append(f"<section><p>{x}</p></section>")
        elif kind == "comment":
            body.append("<!-- note -->")
        else:
            x = tok(); want.add(x); body.append(f"<p>{x} &amp; co</p>")
    x = tok(); want.add(x); body.append(f"<p>{x} last</p>")      # text after whatever came before
    return ('<html xmlns="http://www.w3.org/1999/xhtml"><head>' + "".join(head) + "</head><body>" + "".join(body)
            + "</body></html>"), want, in_table


# ----------------------------------------------------------------------------- (b) PPTX slide order / EPUB spine
def order_inventory(ctx):
    """Fail-closed shape inventory for coq/C03/Order.v."""
    import ast, inspect, textwrap
    from sharepoint2text.parsing.extractors.ms_modern import pptx_extractor as px_
    from sharepoint2text.parsing.extractors import epub_extractor as ex_
    from sharepoint2text.parsing.extractors.util import zip_utils
    src = ast.parse(textwrap.dedent(inspect.getsource(px_._PptxContext._compute_slide_order)))
    fors = [n for n in ast.walk(src) if isinstance(n, ast.For)]
    sorted_calls = [n for n in ast.walk(src) if isinstance(n, ast.Call) and isinstance(n.func, ast.Name) and n.func.id in ("sorted", "reversed", "set")]
    over_findall = any(isinstance(f.iter, ast.Call) and isinstance(f.iter.func, ast.Attribute) and f.iter.func.attr == "findall" for f in fors)
    strs = sorted({n.value for n in ast.walk(src) if isinstance(n, ast.Constant) and isinstance(n.value, str) and len(n.value) < 12})
    ctx.obligation("inventory:pptx _compute_slide_order walks sldIdLst.findall() in document order (no sort/set), two loops, "
                   "path rules slides/ ../ ppt/", len(fors) == 2 and over_findall and not sorted_calls
                   and all(x in strs for x in ["slide", "slides/", "../", "ppt/", "id", "target", "type"]), f"fors={len(fors)} strs={strs}")
    sp = ast.parse(textwrap.dedent(inspect.getsource(ex_._EpubContext._parse_spine)))
    attrs = sorted({n.value for n in ast.walk(sp) if isinstance(n, ast.Constant) and isinstance(n.value, str)} - {sp.body[0].body[0].value.value})
    ctx.obligation("inventory:epub _parse_spine reads only idref of itemref (linear is not consulted), document order",
                   "idref" in attrs and "linear" not in attrs and not [n for n in ast.walk(sp) if isinstance(n, ast.Call)
                                                                        and isinstance(n.func, ast.Name) and n.func.id in ("sorted", "reversed", "set")],
                   str(attrs))
    rs = ast.parse(textwrap.dedent(inspect.getsource(zip_utils.resolve_part_name)))
    consts = sorted({n.value for n in ast.walk(rs) if isinstance(n, ast.Constant) and isinstance(n.value, str) and len(n.value) <= 2})
    ctx.obligation("inventory:resolve_part_name uses exactly the segment constants '/', '.', '..'", consts == [".", "..", "/"], str(consts))


def run_order(ctx):
    import types
    import xml.etree.ElementTree as ET
    from sharepoint2text.parsing.extractors.ms_modern import pptx_extractor as px_
    from sharepoint2text.parsing.extractors import epub_extractor as ex_
    from sharepoint2text.parsing.extractors.util import zip_utils
    rng = ctx.rng
    order_inventory(ctx)
    pre = ("From Coq Require Import ZArith List.\nFrom S2T Require Import Lib.PyStr C03.Lib C03.Model C03.Order C03.Corr.\n"
           "Import ListNotations.\n")
    # ---- _compute_slide_order through the real method on generated rels / presentation parts
    c1, i1 = [], []
    ids = ["rId1", "rId2", "rId3", "rId4", "rId2", "", "rId10"]
    types_ = [NS_R + "/slide", NS_R + "/slide", NS_R + "/slide", NS_R + "/slideMaster", NS_R + "/notesSlide", NS_R + "/theme",
              "HTTP://X/SLIDE", ""]
    targets = ["slides/slide1.xml", "slides/slide2.xml", "../slides/slide3.xml", "slide4.xml", "/ppt/slides/slide5.xml",
               "../a/../b.xml", "", "slideMasters/slideMaster1.xml", "slides/slide1.xml"]
    for i in range(ctx.n(200, 2500)):
        rels = [(rng.choice(ids), rng.choice(types_), rng.choice(targets)) for _ in range(rng.randint(0, 6))]
        sld = [rng.choice(ids + [None, "rId99"]) for _ in range(rng.randint(0, 6))]
        if rng.random() < 0.5:      # a regular deck: unique ids, all slides
            n = rng.randint(1, 5)
            rr = rng.sample(range(2, 12), n)
            rels = [(f"rId{r_}", NS_R + "/slide", f"slides/slide{rng.randint(1, 9)}.xml") for r_ in rr] + [("rId1", NS_R + "/slideMaster", "slideMasters/slideMaster1.xml")]
            rng.shuffle(rels)
            sld = [f"rId{r_}" for r_ in rng.sample(rr, n)]
        rx_ = ET.fromstring(f'<Relationships xmlns="{REL}">' + "".join(f'<Relationship Id="{a}" Type="{b}" Target="{c_}"/>' for a, b, c_ in rels) + "</Relationships>")
        pr = ET.fromstring(f'<p:presentation xmlns:p="{NS_P}" xmlns:r="{NS_R}"><p:sldMasterIdLst/><p:sldIdLst>'
                           + "".join(f'<p:sldId id="{256 + k_}"' + (f' r:id="{x}"' if x is not None else "") + "/>" for k_, x in enumerate(sld))
                           + "</p:sldIdLst></p:presentation>")
        got = px_._PptxContext._compute_slide_order(types.SimpleNamespace(_presentation_rels_root=rx_, _presentation_root=pr))
        parsed = zip_utils.parse_relationships(rx_)
        c1.append(pair(coq_list([f"(mkRel {coq_str(r_['id'])} {coq_str(r_['type'].lower())} {coq_str(r_['target'])})" for r_ in parsed]),
                       coq_list([coq_opt(x, coq_str) for x in sld]), cstrs(got)))
        i1.append((rels, sld))
        ctx.case(("slide-order", repr(rels), repr(sld)), len(got) >= 2, kind="order:pptx")
        # property oracle: with unique relationship ids, the order is the sldIdLst order of the resolvable entries
        if len({a for a, _, _ in rels}) == len(rels):
            m_ = {a: c_ for a, b, c_ in rels if a and c_ and "slide" in b.lower()}
            want = [m_[x] for x in sld if x and x in m_]
            if [g.split("/")[-1] for g in got] != [w.split("/")[-1] for w in want]:
                ctx.finding("order:pptx:slide-order-not-sldIdLst-order", f"_compute_slide_order: {got} for sldIdLst {sld}",
                            {"rels": rels, "sldIdLst": sld, "got": got})
    ok, failing, log = coq_eval_shards(ctx, "sorder", pre, "slide_order_case", c1, shard=300,
                                       ty="list relationship * list (option str) * list str")
    ctx.traces += len(c1)
    ctx.obligation("correspondence:pptx _compute_slide_order model==implementation", ok and not failing,
                   (f"{len(failing)} disagreements, first: {i1[failing[0]]!r} " if failing else "") + log[:600])
    # ---- resolve_part_name
    c2 = []
    bases = ["", "OEBPS/", "a/b/", "a//b/", "/x/", "OEBPS", "a/b", "./a/", "../a/"]
    segs = ["..", ".", "", "text", "c1.xhtml", "x y", "...", "a.b"]
    for i in range(ctx.n(400, 4000)):
        b = rng.choice(bases)
        tg = ("/" if rng.random() < 0.2 else "") + "/".join(rng.choice(segs) for _ in range(rng.randint(0, 5)))
        c2.append(pair(coq_str(b), coq_str(tg), coq_str(zip_utils.resolve_part_name(b, tg))))
        ctx.case(("resolve", b, tg), ".." in tg, kind="order:resolve")
    ok, failing, log = coq_eval_shards(ctx, "resolve", pre, "resolve_case", c2, shard=400, ty="str * str * str")
    ctx.obligation("correspondence:zip_utils.resolve_part_name model==implementation", ok and not failing,
                   (f"{len(failing)} disagreements, first: {c2[failing[0]][:300] if failing else ''} " + log)[:600])
    # ---- EPUB: manifest / spine / chapter gate / spine loop on generated packages, inputs read off the parsed OPF
    c3, i3 = [], []
    for i in range(ctx.n(80, 1200)):
        opf_dir = rng.choice(["", "OEBPS", "a/b"])
        pre_ = opf_dir + "/" if opf_dir else ""
        k = rng.randint(1, 6)
        docs = []
        for j in range(1, k + 1):
            kind = rng.choice(["ok", "ok", "ok", "missing-file", "not-in-manifest", "css", "dup-id", "no-href"])
            name = f"c{j}.xhtml" if kind != "css" else f"c{j}.css"
            st = rng.choice(["plain", "dot", "sub", "up", "abs"])
            href, path = {"plain": (name, pre_ + name), "dot": ("./" + name, pre_ + name), "sub": ("t/" + name, pre_ + "t/" + name),
                          "up": ("x/../" + name, pre_ + name), "abs": ("/r/" + name, "r/" + name)}[st]
            docs.append({"id": f"c{j}" if kind != "dup-id" or j == 1 else "c1", "href": None if kind == "not-in-manifest" else ("" if kind == "no-href" else href),
                         "path": None if kind == "missing-file" else path, "body": f"<p>Ch{j}x text</p>", "kind": kind,
                         "media": rng.choice(["application/xhtml+xml", "application/xhtml+xml", "text/css", "text/html", ""])})
        spine = [rng.choice(docs)["id"] for _ in range(rng.randint(1, 7))] + ([""] if rng.random() < 0.1 else []) + (["nope"] if rng.random() < 0.2 else [])
        rng.shuffle(spine)
        nonlinear = {x for x in range(len(spine)) if rng.random() < 0.3}
        opf_ns = rng.random() < 0.85
        # make_epub writes media-type application/xhtml+xml for every item: patch the media types afterwards
        data = make_epub(opf_dir, docs, spine, nonlinear, opf_ns).getvalue()
        zin = zipfile.ZipFile(io.BytesIO(data)); out = io.BytesIO()
        opf_name = pre_ + "content.opf"
        with zipfile.ZipFile(out, "w") as zo:
            for nm in zin.namelist():
                b_ = zin.read(nm)
                if nm == opf_name:
                    s_ = b_.decode()
                    for d in docs:
                        if d["href"] is not None:
                            s_ = s_.replace(f'href="{d["href"]}" media-type="application/xhtml+xml"', f'href="{d["href"]}" media-type="{d["media"]}"', 1)
                    b_ = s_.encode()
                zo.writestr(nm, b_)
        data = out.getvalue()
        try:
            cont = next(ex_.read_epub(io.BytesIO(data), "x.epub"))
            ectx = ex_._EpubContext(io.BytesIO(data))
        except Exception:  # noqa
            continue
        root = ectx._opf_root
        man = root.find("opf:manifest", ex_.NS)
        man = man if man is not None else root.find("{*}manifest")
        spn = root.find("opf:spine", ex_.NS)
        spn = spn if spn is not None else root.find("{*}spine")
        it = lambda e: f"(mkItem {coq_str(e.get('id', ''))} {coq_str(e.get('href', ''))} {coq_str(e.get('media-type', ''))})"
        ns_items = [] if man is None else [it(e) for e in man.findall("opf:item", ex_.NS)]
        any_items = [] if man is None else [it(e) for e in man.findall("{*}item")]
        ns_refs = [] if spn is None else [e.get("idref", "") for e in spn.findall("opf:itemref", ex_.NS)]
        any_refs = [] if spn is None else [e.get("idref", "") for e in spn.findall("{*}itemref")]
        members = zipfile.ZipFile(io.BytesIO(data)).namelist()
        texts = {}
        for ch in cont.chapters:
            texts[ch.href] = ch.text
        c3.append(pair(cstrs(members), coq_list([pair(coq_str(a), coq_str(b)) for a, b in texts.items()]), coq_str(ectx.opf_dir),
                       coq_list(ns_items), coq_list(any_items), cstrs(ns_refs), cstrs(any_refs),
                       coq_list([pair(coq_Z(ch.chapter_number), coq_str(ch.text)) for ch in cont.chapters])))
        i3.append((opf_dir, spine, [(d["id"], d["href"], d["path"], d["media"], d["kind"]) for d in docs], sorted(nonlinear), opf_ns))
        ectx.close()
        ctx.case(("epub-order", repr(i3[-1])), len(cont.chapters) >= 2, kind="order:epub")
        # property oracle: chapter numbers are spine positions, non-linear items included, strictly increasing
        nums = [ch.chapter_number for ch in cont.chapters]
        eff = [x for x in spine if x]
        if not all(a < b for a, b in zip(nums, nums[1:])) or any(n_ < 1 or n_ > len(eff) for n_ in nums):
            ctx.finding("order:epub:chapter-numbers-not-spine-positions", f"EPUB chapter numbers {nums} for spine {spine}",
                        {"spine": spine, "docs": i3[-1][2]})
        for ch in cont.chapters:
            j_ = ch.text.split("x")[0].replace("Ch", "") if ch.text.startswith("Ch") else None
            d_ = next((d for d in reversed(docs) if d["id"] == eff[ch.chapter_number - 1] and d["href"] not in (None, "")), None)
            if j_ and d_ is not None and d_["path"] is not None and not d_["path"].rsplit("/", 1)[-1].startswith(f"c{j_}."):
                ctx.finding("order:epub:chapter-text-from-other-spine-item", f"EPUB chapter {ch.chapter_number} (spine item "
                            f"{eff[ch.chapter_number - 1]!r}) carries the text of c{j_}.xhtml", {"spine": spine, "docs": i3[-1][2]})
    ok, failing, log = coq_eval_shards(ctx, "epubo", pre, "epub_case", c3, shard=100,
                                       ty="list str * list (str * str) * str * list manifest_item * list manifest_item * list str * list str * list (Z * str)")
    ctx.traces += len(c3)
    ctx.obligation("correspondence:epub manifest/spine/chapter gate/spine loop model==implementation", ok and not failing,
                   (f"{len(failing)} disagreements, first: {i3[failing[0]]!r} " if failing else "") + log[:600])


# ----------------------------------------------------------------------------- (c) end to end
def run_end_to_end(ctx):
    import sharepoint2text
    rng = ctx.rng
    res = REPO / "sharepoint2text" / "tests" / "resources"
    for p in sorted(glob.glob(str(res / "**" / "*"), recursive=True)):
        if not os.path.isfile(p):
            continue
        rel = os.path.relpath(p, res)
        try:
            outs = list(sharepoint2text.read_file(p))
        except Exception:  # noqa — encrypted / unsupported fixtures: other properties
            continue
        for j, c in enumerate(outs):
            try:
                us, ft = observe(c)
            except Exception as e:  # noqa
                ctx.finding(f"fixture:{rel}:iterate_units-raises", f"iterate_units()/get_full_text() raised {type(e).__name__} "
                            f"on fixture {rel}", {"fixture": rel})
                continue
            ctx.case(("fixture", rel, j), len(us) >= 2, kind="fixture:" + type(c).__name__)
            nums = [n for n, _ in us]
            if type(c).__name__ == "PptContent" and len(set(nums)) != len(nums):
                ctx.finding("ppt:raw-fallback-second-slide-1", f"fixture {rel}: unit numbers {nums} repeat",
                            {"fixture": rel, "units": us})
                continue
            oracle_units(ctx, f"fixture:{rel}", type(c).__name__, us, ft, True, (), None, {"fixture": rel})
    # generated multi-unit documents where a writer is cheap
    from sharepoint2text.parsing.extractors.mail import mbox_email_extractor as mx
    from sharepoint2text.parsing.extractors import plain_extractor, html_extractor
    for i in range(ctx.n(60, 600)):
        txt = rtext(rng, "Mk1q", 10)
        for c in plain_extractor.read_plain_text(io.BytesIO(txt.encode("utf-8", "replace")), "x.txt"):
            us, ft = observe(c)
            ctx.case(("e2e-plain", txt), False, kind="e2e:plain")
            oracle_units(ctx, "e2e:plain", type(c).__name__, us, ft, True, (), 1, {"text": txt})
        hraw, htoks, _ = xhtml_doc(rng, 900000 + i, 1)
        for c in html_extractor.read_html(io.BytesIO(hraw.encode("utf-8")), "x.html"):
            us, ft = observe(c)
            ctx.case(("e2e-html-grammar", hraw), False, kind="e2e:html")
            have = set(TOKEN_RE.findall(us[0][1])) if us else set()
            if have != htoks:
                ctx.finding("e2e:html:unit-text-not-source-text", f"HtmlContent: unit holds tokens {sorted(have)}, the page has "
                            f"{sorted(htoks)}", {"html": hraw, "units": us})
            oracle_units(ctx, "e2e:html", type(c).__name__, us, ft, True, (), 1, {"html": hraw})
        html = "<html><body>" + "".join(f"<p>{rng.choice(WORDS[:4])} {rws(rng)}</p>" for _ in range(rng.randint(0, 4))) + "</body></html>"
        for c in html_extractor.read_html(io.BytesIO(html.encode("utf-8")), "x.html"):
            us, ft = observe(c)
            ctx.case(("e2e-html", html), False, kind="e2e:html")
            oracle_units(ctx, "e2e:html", type(c).__name__, us, ft, True, (), 1, {"html": html})
        k = rng.randint(1, 4)
        bodies = [rng.choice(["", " ", f"Body Mb{j}q\n>From me 2024\nbye"]) for j in range(k)]
        same = rng.random() < 0.35      # byte-identical messages (same headers, same body)
        if same:
            bodies = ["Body Mb0q\n>From me 2024\nbye"] * k
        mbox = b"".join(b"From a@b.c Mon Jan  1 00:00:00 2024\nSubject: s%d\nFrom: a@b.c\nDate: Mon, 01 Jan 2024 00:00:00 +0000\n\n" % (0 if same else j)
                        + b.encode() + b"\n\n" for j, b in enumerate(bodies))
        outs = list(mx.read_mbox_format_mail(io.BytesIO(mbox), "x.mbox"))
        ctx.case(("e2e-mbox", mbox), k >= 2, kind="e2e:mbox")
        if len(outs) != k:
            ctx.finding("e2e:mbox:message-count", f"read_mbox_format_mail yields {len(outs)} objects for {k} messages",
                        {"mbox": mbox})
        for j, c in enumerate(outs):
            us, ft = observe(c)
            oracle_units(ctx, "e2e:mbox", type(c).__name__, us, ft, True,
                         [("Mb0q" if same else f"Mb{j}q", 1)] if len(outs) == k and "Mb" in bodies[j] else (), 1, {"mbox": mbox})
    # PDF / PPTX / EPUB: generated multi-unit documents.  Expectations are position-independent: the text of unit k
    # is exactly source k's text, also when it equals another unit's text (duplicates at distance 1 and > 1).
    from sharepoint2text.parsing.extractors.pdf import pdf_extractor
    from sharepoint2text.parsing.extractors.ms_modern import pptx_extractor
    from sharepoint2text.parsing.extractors import epub_extractor

    def layouts(count):
        out = [["tok"], ["blank"], ["blank", "tok"], ["tok", "blank"], ["tok", "blank", "tok"], ["blank", "blank", "tok"],
               ["tok", "ws", "tok", "blank"], ["ws", "tok", "blank", "blank", "tok", "tok"], ["tok", "tok", "blank", "tok", "ws", "blank"],
               ["tok", "dup1"], ["tok", "tok", "tok", "dupfar"], ["tok", "dup1", "dup1", "blank", "dupfar"]]
        while len(out) < count:
            out.append([rng.choice(["tok", "tok", "blank", "ws", "dup1", "dupfar"]) for _ in range(rng.randint(1, 6))])
        return out[:count]

    docno = [0]
    history = []      # (where, extract thunk, first observation): replayed at the end in another order

    def tokens_for(kinds):
        """-> per position the set of tokens its text must contain (dup1 = same content as the previous text unit,
        dupfar = same content as the FIRST text unit).  Tokens are unique per generated document of the whole run."""
        docno[0] += 1
        exp, texts = [], []
        for j, k in enumerate(kinds, 1):
            if k == "dup1" and texts:
                exp.append(set(texts[-1]))
            elif k == "dupfar" and texts:
                exp.append(set(texts[0]))
            elif k in ("tok", "dup1", "dupfar"):
                exp.append({f"Tk{docno[0]}x{j}q"})
            else:
                exp.append(set())
            if exp[-1]:
                texts.append(sorted(exp[-1]))
        return exp

    def expect_units(where, c, expected, replay, optional=None, optional_key=None, optional_what="", exact_count=False,
                     with_tables=False):
        """expected[k-1]: set of tokens unit k must hold — exactly those, of ALL tokens of this run (so text leaking in from
        another unit or from a document extracted earlier in this process is seen) — or None when source position k
        legitimately yields no unit.  optional[k-1]: tokens whose absence is reported under optional_key."""
        us, ft = observe(c)
        extra = [""] * len(us)
        if with_tables:      # text of table cells is returned through the unit's tables
            extra = [" ".join(str(cell) for tb in u.get_tables() for row in tb.get_table() for cell in row)
                     for u in c.iterate_units()]
        ctx.case((where, repr(expected)), len(expected) >= 2, kind=where)
        want_nums = [k for k, e in enumerate(expected, 1) if e is not None]
        nums = [u[0] for u in us]
        rp = dict(replay, units=us, expected_tokens=[sorted(e) if e is not None else None for e in expected])
        if nums != want_nums:
            ctx.finding(f"{where}:unit-numbers-not-source-positions", f"{type(c).__name__}: unit numbers {nums}, source "
                        f"positions with a unit {want_nums}", rp)
        else:
            for (n_, tx), k, ex_ in zip(us, want_nums, extra):
                found = TOKEN_RE.findall(tx + " " + ex_) if ex_ else TOKEN_RE.findall(tx)
                have = set(found)
                opt = optional[k - 1] if optional else set()
                if have - opt != expected[k - 1] - opt or not have <= expected[k - 1]:
                    ctx.finding(f"{where}:unit-text-not-source-text", f"{type(c).__name__}: unit {k} holds tokens {sorted(have)}, "
                                f"source {k} has {sorted(expected[k - 1])}", rp)
                    break
                if exact_count and len(found) != len(have):
                    ctx.finding(f"{where}:unit-text-repeated", f"{type(c).__name__}: unit {k} returns a source text more than "
                                f"once: {found}", rp)
                    break
                if opt - have:
                    ctx.finding(optional_key, optional_what + f" (unit {k}: missing {sorted(opt - have)})", rp)
        oracle_units(ctx, where, type(c).__name__, us, ft, True, (), None, replay)
        return us, ft

    for kinds in layouts(ctx.n(32, 300)):
        exp = tokens_for(kinds)
        texts = [(" ".join(sorted(e)) + " page text") if e else (None if k == "blank" else rng.choice([" ", "   "]))
                 for e, k in zip(exp, kinds)]
        # optional catalog structures that carry an alternative numbering / ordering of pages
        extra = b""
        if rng.random() < 0.5:
            n_ = len(kinds)
            cut = rng.randint(0, max(n_ - 1, 0))
            ranges = rng.choice([
                [(0, b"/S /r"), (cut, b"/S /D")],                         # roman front matter, body restarts at 1
                [(0, b"/S /D /St %d" % rng.choice([2, 190, 1000]))],      # an excerpt keeping its original numbers
                [(0, b"/S /D /P (A-)")], [(0, b"/S /A")], [(0, b"/S /D"), (cut, b"/S /D /St 1")],
                [(0, b"/P (cover)"), (min(1, n_ - 1), b"/S /D /St %d" % rng.choice([1, 5]))]])
            seen_, nums_ = set(), b""
            for start, spec in ranges:
                if start not in seen_:
                    seen_.add(start); nums_ += b" %d << %s >>" % (start, spec)
            extra += b"/PageLabels << /Nums [" + nums_ + b" ] >> "
        if rng.random() < 0.3:
            extra += b"/ViewerPreferences << /Direction /R2L >> /PageLayout /TwoPageRight "
        data = make_pdf(texts, extra, nested=rng.random() < 0.4)
        try:
            outs = list(pdf_extractor.read_pdf(io.BytesIO(data), "x.pdf"))
        except Exception as e:  # noqa
            ctx.finding("e2e:pdf:generated-document-rejected", f"read_pdf raised {type(e).__name__} on a generated "
                        f"{len(kinds)}-page PDF {kinds}", {"pdf": data, "kinds": kinds})
            continue
        for c in outs:
            ob = expect_units("e2e:pdf", c, exp, {"page_kinds": kinds, "pdf": data})
            history.append(("e2e:pdf", (lambda d=data: pdf_extractor.read_pdf(io.BytesIO(d), "x.pdf")), ob, {"pdf": data}))

    # PPTX: sldIdLst order, @id order, rId order, Relationship element order and file-name order permuted independently;
    # duplicated slides (identical XML incl. shape ids), identical titles, same shape id with different text
    for kinds in layouts(ctx.n(30, 300)):
        n = len(kinds)
        perm = lambda base: rng.sample(base, len(base))
        files = perm(list(range(1, n + 1)))
        if rng.random() < 0.3:
            files = [f + 10 * rng.randint(0, 1) for f in files]
        sids = perm(list(range(256, 256 + n)))
        rids = [f"rId{x}" for x in perm(list(range(2, 2 + n)))]
        rel_order = perm(list(range(n)))
        same_title = rng.random() < 0.4
        docno[0] += 1
        slides, exp, prev = [], [], []
        for j, k in enumerate(kinds, 1):
            if k in ("dup1", "dupfar") and prev:
                shapes = list(prev[-1] if k == "dup1" else prev[0])      # identical XML incl. shape ids and texts
            elif k in ("tok", "dup1", "dupfar"):
                d_ = docno[0]
                shapes = [(2, f"Tt{d_}x0q" if same_title else f"Tk{d_}x{j}q title"), (3, f"Tb{d_}x{j}q body")]
                if rng.random() < 0.3:
                    shapes.append((rng.choice([3, 4]), f"Tc{d_}x{j}q extra"))  # same shape id, different text
            elif k == "ws":
                shapes = [(2, "  ")]
            else:
                shapes = []
            if any(tx.strip() for _, tx in shapes):
                prev.append(shapes)
            exp.append({tx.split()[0] for _, tx in shapes if tx.strip()})
            slides.append({"file": files[j - 1], "sid": sids[j - 1], "rid": rids[j - 1], "shapes": shapes})
        doc = make_pptx(slides, rel_order)
        rp = {"slide_kinds": kinds, "slides_in_presentation_order": slides, "relationship_element_order": rel_order}
        try:
            outs = list(pptx_extractor.read_pptx(doc, "x.pptx"))
        except Exception as e:  # noqa
            ctx.finding("e2e:pptx:generated-document-rejected", f"read_pptx raised {type(e).__name__} on a generated "
                        f"{n}-slide PPTX", rp)
            continue
        for c in outs:
            ob = expect_units("e2e:pptx", c, exp, rp)
            history.append(("e2e:pptx", (lambda d=doc.getvalue(): pptx_extractor.read_pptx(io.BytesIO(d), "x.pptx")), ob, rp))

    # EPUB: OPF in the root / one / two levels down; hrefs plain, './', '../', 'x/../', absolute; spine order differs
    # from manifest order; a document referenced twice; unreadable items (missing file / not in the manifest)
    for i in range(ctx.n(40, 400)):
        opf_dir = rng.choice(["", "OEBPS", "a/b"])
        parent = opf_dir.rsplit("/", 1)[0] if "/" in opf_dir else ""
        pre = opf_dir + "/" if opf_dir else ""
        k = rng.randint(1, 6)
        docs = []
        docno[0] += 1
        d_ = docno[0]
        for j in range(1, k + 1):
            kind = rng.choice(["ok", "ok", "ok", "ok", "blank", "missing-file", "not-in-manifest", "same"])
            styles = ["plain", "dot", "sub", "updown", "abs"] + (["parent"] if opf_dir else [])
            st = rng.choice(styles)
            name = f"c{j}.xhtml"
            if st == "plain":
                href, path = name, pre + name
            elif st == "dot":
                href, path = "./" + name, pre + name
            elif st == "sub":
                href, path = "text/" + name, pre + "text/" + name
            elif st == "updown":
                href, path = "x/../text/" + name, pre + "text/" + name
            elif st == "abs":
                href, path = "/root_docs/" + name, "root_docs/" + name
            else:
                href, path = "../text/" + name, (parent + "/" if parent else "") + "text/" + name
            body = {"ok": f"<p>Tk{d_}x{j}q text</p>", "same": f"<p>Ts{d_}x0q text</p>", "blank": "<p> </p>"}.get(kind, f"<p>Tk{d_}x{j}q text</p>")
            raw, gtoks = None, None
            if kind == "ok" and rng.random() < 0.6:
                raw, gtoks, _ = xhtml_doc(rng, d_, j)
            docs.append({"id": f"c{j}", "href": None if kind == "not-in-manifest" else href,
                         "path": None if kind == "missing-file" else path, "body": body, "raw": raw, "kind": kind, "style": st,
                         "tokens": gtoks if gtoks is not None else {"ok": {f"Tk{d_}x{j}q"}, "same": {f"Ts{d_}x0q"}, "blank": set()}.get(kind)})
        spine = [d["id"] for d in docs]
        rng.shuffle(spine)
        if rng.random() < 0.4:
            spine.insert(rng.randint(0, len(spine)), rng.choice(spine))   # the same document twice
        manifest_docs = rng.sample(docs, len(docs))
        by_id = {d["id"]: d for d in docs}
        exp = [by_id[s_]["tokens"] for s_ in spine]
        rp = {"opf_dir": opf_dir, "spine": spine,
              "manifest": [(d["id"], d["href"], d["path"], d["kind"], d.get("raw")) for d in manifest_docs]}
        edoc = make_epub(opf_dir, manifest_docs, spine).getvalue()
        try:
            outs = list(epub_extractor.read_epub(io.BytesIO(edoc), "x.epub"))
        except Exception:  # noqa — failure surface: C01
            continue
        for c in outs:
            ob = expect_units("e2e:epub", c, exp, rp, with_tables=True)
            history.append(("e2e:epub", (lambda d=edoc: epub_extractor.read_epub(io.BytesIO(d), "x.epub")), ob, rp))
    # ODP: top-level text boxes and shape groups (draw:g, nested), several groups per slide and per deck, blank and
    # duplicated slides.  Grouped text is expected in its slide's unit (known finding on the current code: it is in no
    # unit); it must never show up in another unit, twice, or in a later extraction of the same process.
    from sharepoint2text.parsing.extractors.open_office import odp_extractor, ods_extractor
    for kinds in layouts(ctx.n(30, 300)):
        docno[0] += 1
        d_ = docno[0]
        slides, exp, opt, prev = [], [], [], []
        for j, k in enumerate(kinds, 1):
            if k in ("dup1", "dupfar") and prev:
                nodes, e_, o_ = prev[-1] if k == "dup1" else prev[0]
            elif k in ("tok", "dup1", "dupfar"):
                nodes, e_, o_, a = [], set(), set(), 0
                for _ in range(rng.randint(0, 2)):
                    a += 1; nodes.append(("frame", f"Tk{d_}x{j}a{a}q top")); e_.add(f"Tk{d_}x{j}a{a}q")
                for _ in range(rng.choice([0, 1, 1, 2])):
                    inner = []
                    for _ in range(rng.randint(1, 2)):
                        a += 1; inner.append(("frame", f"Tg{d_}x{j}a{a}q grouped")); o_.add(f"Tg{d_}x{j}a{a}q")
                    if rng.random() < 0.3:
                        a += 1; inner.append(("group", [("frame", f"Tg{d_}x{j}a{a}q nested")])); o_.add(f"Tg{d_}x{j}a{a}q")
                    nodes.insert(rng.randint(0, len(nodes)), ("group", inner))
                if nodes:
                    prev.append((nodes, e_, o_))
            elif k == "ws":
                nodes, e_, o_ = [("frame", "  ")], set(), set()
            else:
                nodes, e_, o_ = [], set(), set()
            slides.append(nodes); exp.append(set(e_) | set(o_)); opt.append(set(o_))
        odoc = make_odp(slides).getvalue()
        rp = {"slide_kinds": kinds, "slides": slides}
        try:
            outs = list(odp_extractor.read_odp(io.BytesIO(odoc), "x.odp"))
        except Exception as e:  # noqa
            ctx.finding("e2e:odp:generated-document-rejected", f"read_odp raised {type(e).__name__} on a generated deck", rp)
            continue
        for c in outs:
            ob = expect_units("e2e:odp", c, exp, rp, optional=opt, optional_key="odp:grouped-shape-text-in-no-unit",
                              optional_what="ODP: text boxes inside a shape group (draw:g) are returned in no unit",
                              exact_count=True)
            history.append(("e2e:odp", (lambda d=odoc: odp_extractor.read_odp(io.BytesIO(d), "x.odp")), ob, rp))

    # spreadsheets: typed cells incl. the falsy boundary values 0 / 0.0 / False / "0" in the interior and on the trailing
    # edge (last rows / columns consisting only of them), a sheet holding a single 0, empty sheets, identical sheets.
    # Oracle: the cell texts of sheet k are returned in unit k EXACTLY (multiset of whitespace-separated tokens).
    from collections import Counter

    def gen_sheet(j, d_, strings_ok=True):
        shape = rng.choice(["free", "free", "zero-tail-row", "zero-tail-col", "single-zero", "empty", "false-tail"])
        if shape == "empty":
            return shape, []
        if shape == "single-zero":
            return shape, [[rng.choice([0, False, 0.0] if strings_ok else [0, False])]]
        nr, nc = rng.randint(1, 4), rng.randint(1, 3)
        falsy = [0, False, 0, 0.0] if strings_ok else [0, False]
        a = [0]

        def val():
            a[0] += 1
            return rng.choice([f"Tk{d_}x{j}a{a[0]}q", 100 * j + a[0], True, None] + falsy + (["0"] if strings_ok else []))
        rows = [[val() for _ in range(nc)] for _ in range(nr)]
        if shape == "zero-tail-row":
            rows += [[rng.choice(falsy) for _ in range(nc)] for _ in range(rng.randint(1, 2))]
        elif shape == "zero-tail-col":
            rows = [r + [rng.choice(falsy)] for r in rows]
        elif shape == "false-tail":
            rows = [r + [False] for r in rows] + [[False] * (nc + 1)]
        return shape, rows

    def sheet_cover(where, us, sheets, disp, rp):
        for (num, tx), (name, rows) in zip(us, sheets):
            lines = tx.split("\n")
            body = "\n".join(lines[1:]) if lines and lines[0].strip() == name else tx
            got = Counter(body.split())
            want = Counter(disp(v) for row in ods_expand(rows) for v in row if v is not None and disp(v) != "")
            if got != want:
                miss, extra = want - got, got - want
                ctx.finding(f"{where}:sheet-text-not-covered-exactly", f"sheet {num} ({name}): cell texts missing from its unit "
                            f"{dict(miss)}, not from this sheet {dict(extra)}", dict(rp, sheet=name, rows=rows, unit_text=tx))
                return

    for i in range(ctx.n(30, 300)):
        docno[0] += 1
        d_ = docno[0]
        k = rng.randint(1, 5)
        sheets, shapes = [], []
        for j in range(1, k + 1):
            if sheets and rng.random() < 0.2:
                shapes.append("same-as-previous"); sheets.append((f"S{j}", list(sheets[-1][1])))
                continue
            sh, rows = gen_sheet(j, d_)
            if rows and rng.random() < 0.5:      # number-rows/columns-repeated and row wrappers
                rich = []
                for r_ in rows:
                    if rng.random() < 0.5:
                        r_ = {"repeat": rng.choice([1, 1, 2, 3, 120]), "cells": [(rng.choice([1, 1, 2, 3, 150]), v) for v in r_]}
                        small = len(r_["cells"]) <= 2
                        if r_["repeat"] > 3 and any(v is not None for _, v in r_["cells"]):
                            r_["repeat"] = 120 if small else 2          # a valued row repeated > 100 times must survive
                        r_["cells"] = [((rp_ if v is None or rp_ <= 3 or (small and r_["repeat"] <= 3) else 2), v)
                                       for rp_, v in r_["cells"]]
                    rich.append(r_)
                if rng.random() < 0.5:
                    cut = rng.randint(0, len(rich))
                    rich = [("wrap", "table-header-rows", rich[:cut])] + [("wrap", "table-row-group", [("wrap", "table-rows", rich[cut:])])]
                if rng.random() < 0.3:
                    rich.append({"repeat": 1048000, "cells": [(1024, None)]})   # the usual trailing filler
                rows, sh = rich, sh + "+repeats"
            shapes.append(sh); sheets.append((f"S{j}", rows))
        sdoc = make_ods(sheets).getvalue()
        rp = {"sheet_shapes": shapes, "sheets": sheets}
        try:
            outs = list(ods_extractor.read_ods(io.BytesIO(sdoc), "x.ods"))
        except Exception as e:  # noqa
            ctx.finding("e2e:ods:generated-document-rejected", f"read_ods raised {type(e).__name__} on a generated workbook", rp)
            continue
        for c in outs:
            us, ft = observe(c)
            ctx.case(("e2e-ods", repr(sheets)), k >= 2, kind="e2e:ods")
            if [n for n, _ in us] != list(range(1, k + 1)):
                ctx.finding("e2e:ods:unit-numbers-not-source-positions", f"OdsContent: unit numbers {[n for n, _ in us]} for {k} "
                            "sheets", dict(rp, units=us))
                continue
            oracle_units(ctx, "e2e:ods", type(c).__name__, us, ft, True, (), k, rp)
            sheet_cover("e2e:ods", us, sheets, lambda v: ("true" if v else "false") if isinstance(v, bool) else str(v), rp)
            history.append(("e2e:ods", (lambda d=sdoc: ods_extractor.read_ods(io.BytesIO(d), "x.ods")), (us, ft), rp))
    # size thresholds: documents larger than 64 KiB / 256 KiB / 1 MiB whose non-ASCII text and last tokens come late
    big_sizes = [70_000, 70_000, 140_000, 300_000] + ([1_100_000] if ctx.tier == "thorough" or rng.random() < 0.5 else [])
    for sz in big_sizes:
        docno[0] += 1
        d_ = docno[0]
        line = "2024-01-01 INFO plain ascii log line number %06d\n"
        head = "".join(line % k_ for k_ in range(sz // len(line % 0) + 1))
        late = [f"Tk{d_}x1q Gr\u00f6\u00dfe \u20ac 12,50 \u2013 Stra\u00dfe", f"Tk{d_}x2q na\u00efve caf\u00e9 \u00e5ngstr\u00f6m",
                f"Tk{d_}x3q end"]
        early_non_ascii = rng.random() < 0.3
        text = (("\u00e4 early\n" if early_non_ascii else "") + f"Tk{d_}x0q first\n" + head + "\n".join(late) + "\n")
        for ext, reader in ((".txt", plain_extractor.read_plain_text), (".csv", plain_extractor.read_plain_text)):
            try:
                outs = list(reader(io.BytesIO(text.encode("utf-8")), "big" + ext))
            except Exception as e:  # noqa
                ctx.finding("e2e:plain:large-document-rejected", f"read_plain_text raised {type(e).__name__} on a {len(text)}-"
                            "character UTF-8 text", {"size": len(text)})
                continue
            for c in outs:
                us, ft = observe(c)
                ctx.case(("e2e-plain-large", sz, ext, early_non_ascii), True, kind="e2e:plain-large")
                body = us[0][1] if us else ""
                missing = [l_ for l_ in late + [f"Tk{d_}x0q first"] if l_ not in body]
                if missing or len(us) != 1:
                    ctx.finding("e2e:plain:late-text-of-large-document-not-returned",
                                f"plain text of {len(text.encode('utf-8'))} bytes (UTF-8, first non-ASCII character "
                                f"{'early' if early_non_ascii else 'after ' + str(len(head)) + ' ASCII bytes'}): lines missing "
                                f"from the unit: {missing[:2]}", {"size": len(text), "late_lines": late,
                                                                  "tail_of_unit": body[-300:], "ascii_prefix_bytes": len(head)})
                oracle_units(ctx, "e2e:plain", type(c).__name__, us, ft, True, (), 1, {"size": len(text)})
        hdoc = "<html><body><pre>" + head[: sz] + "</pre>" + "".join(f"<p>{l_}</p>" for l_ in late) + "</body></html>"
        for c in html_extractor.read_html(io.BytesIO(hdoc.encode("utf-8")), "big.html"):
            us, ft = observe(c)
            ctx.case(("e2e-html-large", sz), True, kind="e2e:html-large")
            missing = [l_ for l_ in late if l_ not in (us[0][1] if us else "")]
            if missing:
                ctx.finding("e2e:html:late-text-of-large-document-not-returned", f"HTML of {len(hdoc)} characters: paragraphs "
                            f"missing from the unit: {missing[:2]}", {"size": len(hdoc), "late_lines": late})
    try:
        import openpyxl
    except Exception:  # noqa
        openpyxl = None
    if openpyxl is not None:
        from sharepoint2text.parsing.extractors.ms_modern import xlsx_extractor
        for i in range(ctx.n(12, 100)):
            wb = openpyxl.Workbook()
            wb.remove(wb.active)
            k = rng.randint(1, 5)
            marks = []
            last_tok = None
            for j in range(1, k + 1):
                ws = wb.create_sheet(f"S{j}")
                style = rng.choice(["text", "text", "empty", "spaces", "same-as-previous", "same-as-previous"])
                if style == "same-as-previous" and last_tok is None:
                    style = "text"
                if style == "text":
                    last_tok = f"Mk{j}q"
                if style in ("text", "same-as-previous"):      # identical cell content on several sheets
                    ws["A1"] = last_tok; ws["B2"] = 7
                    marks.append((last_tok, j))
                elif style == "spaces":
                    ws["A1"] = "  "
            buf = io.BytesIO(); wb.save(buf); buf.seek(0)
            for c in xlsx_extractor.read_xlsx(buf, "x.xlsx"):
                us, ft = observe(c)
                ctx.case(("e2e-xlsx", i, k), k >= 2, kind="e2e:xlsx")
                oracle_units(ctx, "e2e:xlsx", type(c).__name__, us, ft, True, marks, k, {"sheets": k, "marks": marks})
        # typed cells with falsy boundary values (0 / False) in the interior and on the trailing edge
        for i in range(ctx.n(15, 150)):
            docno[0] += 1
            d_ = docno[0]
            k = rng.randint(1, 4)
            sheets, shapes = [], []
            for j in range(1, k + 1):
                sh, rows = gen_sheet(j, d_, strings_ok=False)
                if rows:   # an empty header cell is rendered as 'Unnamed: n' by the XLSX text builder (C02/C13 territory)
                    rows[0] = [f"Th{d_}x{j}a{c_}q" if v is None else v for c_, v in enumerate(rows[0])]
                shapes.append(sh); sheets.append((f"S{j}", rows))
            wb = openpyxl.Workbook()
            wb.remove(wb.active)
            for name, rows in sheets:
                ws = wb.create_sheet(name)
                for r_, row in enumerate(rows, 1):
                    for c_, v in enumerate(row, 1):
                        if v is not None:
                            ws.cell(row=r_, column=c_, value=v)
            buf = io.BytesIO(); wb.save(buf)
            xdoc = buf.getvalue()
            rp = {"sheet_shapes": shapes, "sheets": sheets}
            for c in xlsx_extractor.read_xlsx(io.BytesIO(xdoc), "x.xlsx"):
                us, ft = observe(c)
                ctx.case(("e2e-xlsx-typed", repr(sheets)), k >= 2, kind="e2e:xlsx-typed")
                if [n for n, _ in us] != list(range(1, k + 1)):
                    ctx.finding("e2e:xlsx:unit-numbers-not-source-positions", f"XlsxContent: unit numbers {[n for n, _ in us]} "
                                f"for {k} sheets", dict(rp, units=us))
                    continue
                oracle_units(ctx, "e2e:xlsx", type(c).__name__, us, ft, True, (), k, rp)
                sheet_cover("e2e:xlsx", us, sheets, lambda v: str(v), rp)
                history.append(("e2e:xlsx", (lambda d=xdoc: xlsx_extractor.read_xlsx(io.BytesIO(d), "x.xlsx")), (us, ft), rp))
    # history independence: every generated document extracted again, in another order, later in the same process,
    # must give the same units and full text as the first time (caches, module-level or default-argument state)
    import common
    per_kind, sample = {}, []
    for idx, h in enumerate(history):
        if per_kind.setdefault(h[0], 0) < 8:
            per_kind[h[0]] += 1
            sample.append(idx)
    common.env_sweep(ctx, "generated-documents", lambda i_: [observe(c_) for c_ in history[i_][1]()], sample,
                     describe=lambda i_: f"{history[i_][0]} #{i_}: {str(history[i_][3])[:300]}")
    order = list(range(len(history)))
    rng.shuffle(order)
    for idx in order[: ctx.n(120, 1200)]:
        where, thunk, first, rp = history[idx]
        try:
            again = [observe(c) for c in thunk()]
        except Exception as e:  # noqa
            again = [("raised", type(e).__name__)]
        ctx.case((where, "again", idx), False, kind=where + ":again")
        if not again or again[0] != first:
            ctx.finding(f"{where}:result-depends-on-extraction-history", f"{where}: extracting the same document again later in "
                        f"the process gives different units/full text", dict(rp, first=first, again=again[:1]))


def run(ctx):
    import logging
    logging.disable(logging.CRITICAL)
    ctx.rule = ("random instances of every unit-bearing dataclass (0..6 pages/slides/sheets/chapters, empty and "
                "whitespace-only units, exotic whitespace), generated PPT record streams, RTF documents with \\page, "
                "mailboxes, DOCX paragraph lists, all fixtures; non-trivial = >=2 units or a heading structure.  End-to-end "
                "generated documents (sampled, not exhaustive): PDF/PPTX/EPUB/ODP/ODS/XLSX with 1..6 units, blank / "
                "whitespace-only / duplicated units, run-unique tokens per document (text leaking between units or between "
                "documents extracted in one process is detected), ODP shape groups (nested, several per slide), spreadsheet "
                "cells with falsy boundary values (0, 0.0, False, '0') in the interior and as trailing rows/columns with an "
                "exact multiset cover oracle, and a replay of every generated document later in the same process in another "
                "order (history independence)")
    ctx.trusted += [
        "G-dump: tools/props/c03.py prints str.isspace()/strip() set of the running CPython and ppt_extractor._TITLE_TYPES/"
        "_BODY_TYPES/PPT_TEXT_TYPE_NOTES as Coq literals",
        "hand-written model coq/C03/Order.v of pptx _compute_slide_order, zip_utils.resolve_part_name, epub _parse_manifest/"
        "_parse_spine/_extract_chapter gate + spine loop, tied by an ast inventory and differential runs",
        "hand-written model coq/C03/Odf.v of odp_extractor._iter_slide_frames/_extract_slide (frame collection, position "
        "sort, title/body/other) and ods_extractor._iter_sheet_rows/_extract_sheet (repeats, trimming, text), tied by an "
        "ast shape inventory and by differential runs on fixtures and generated documents translated from the parsed XML",
        "hand-written models (coq/C03/Model.v, Extract.v, Docx.v) of data_types.py iterate_units/get_full_text per format, "
        "ppt_extractor._parse_slide_list_container/_build_slides_from_text_blocks/_parse_ppt_document, rtf flush_page, "
        "mbox _split_mbox_messages, DocxContent/DocContent/OdtContent.iterate_units (Docx.v, Sect.v) — tied by differential runs",
        "oracles (recorded from the real code): ppt _decode_text/_clean_text, _parse_containers()['slides'], "
        "_extract_all_text_raw, rtf _RE_MULTI_SPACE/_RE_MULTI_NEWLINE, the `re` engine for MBOX_FROM_PATTERN and the DOCX "
        "heading regex, pypdf/openpyxl/xlrd page and cell reading",
    ]
    ctx.assumptions += ["CPython 3.12 str.strip()/str.join semantics as modelled in C03/Lib.v (validated differentially)",
                        "extractors store slide/chapter numbers as modelled (pptx enumerate, epub spine counter)"]
    gen_tables(ctx)
    ctx.prove("C03/Props.v", ["C03/ProofsX.vo", "C03/ProofsM.vo", "C03/ProofsS.vo", "C03/ProofsD.vo", "C03/ProofsO.vo", "C03/ProofsR.vo"], expected=[
        "C03_pptx_slide_order_follows_sldIdLst", "C03_pptx_slide_order_rel_order_irrelevant", "C03_resolve_absolute_ignores_base",
        "C03_resolve_segments_clean_partial", "C03_epub_read_numbers", "C03_epub_chapter_of_spine_position",
        "C03_odp_slide_texts_exact", "C03_odp_unit_of_page", "C03_odp_read_numbers", "C03_odp_groups_transparent",
        "C03_ods_sheet_cells_exact", "C03_ods_unit_of_sheet", "C03_ods_read_numbers",
        "C03_docx_sections_cover_partial", "C03_doc_numbers_strict", "C03_odt_numbers_strict", "C03_doc_body_lines_exact",
        "C03_odt_body_lines_exact", "C03_doc_sections_cover_refuted", "C03_odt_sections_cover_refuted",
        "C03_doc_sections_cover_partial", "C03_odt_sections_cover_partial",
        "C03_mbox_one_per_message",
        "C03_full_text_is_join", "C03_numbers_strict", "C03_numbers_never_repeat", "C03_numbers_are_positions",
        "C03_one_unit_per_source", "C03_units_partition_body_pdf", "C03_rtf_units_are_nonblank_pages",
        "C03_ppt_one_unit_per_slide_refuted", "C03_ppt_document_numbers", "C03_ppt_document_numbers_never_repeat",
        "C03_rtf_page_positions_refuted", "C03_docx_sections_cover_refuted", "C03_docx_numbers_strict"])
    ctx.prove("C03/Inst.v", ["Gen/C03Tables.vo", "C03/Corr.vo"], expected=["C03_py_spaces", "C03_ppt_tables_wf"])
    run_datatypes(ctx)
    run_ppt(ctx)
    run_rtf(ctx)
    run_mbox(ctx)
    run_docx(ctx)
    run_doc(ctx)
    run_odt(ctx)
    try:
        odf_inventory(ctx)
    except Exception as e:  # noqa  -- the code no longer has the shape the inventory reads: an obligation, and the search goes on
        import traceback
        ctx.obligation("inventory:ODF extractors have the shape the model was written for", False,
                       "odf_inventory could not read the code: " + traceback.format_exc()[-600:])
    run_odf(ctx)
    run_order(ctx)
    run_end_to_end(ctx)


META = {
    "technique": "Coq proofs over an executable model of the unit/full-text logic of data_types.py and of the extractor-side "
                 "numbering (PPT, RTF, EPUB, PPTX, mbox, DOCX sections) + kernel-decided obligations over tables dumped from "
                 "the live modules + vm_compute differential correspondence against the implementation",
    "design_ref": "DESIGN.md §5 C03",
    "level_text": "Kernel-checked: full text = strip(join(unit texts)) for the 11 documented formats; unit numbers strictly "
                  "increasing, never repeating and equal to source positions; one unit per page/slide/sheet/chapter with unit k "
                  "holding source k's text; RTF units = non-blank pages; PPT document slides numbered 1..n incl. the raw fallback (after fixes/C03-ppt-raw-fallback-duplicate-slide.patch); refutations (with witnesses replayed on the code) for "
                  "PPT empty-slide dropping, RTF blank-page renumbering and DOCX section "
                  "coverage, each with the partial theorem under the narrowest hypothesis.  DOC/ODT heading sections: numbering, exact "
                  "body-line coverage, heading coverage refuted (empty sections) + partial; DOCX positive cover for clean documents.",
    "level_note": "Outside the model (third-party / runtime, stated not skipped): XML parsing (ElementTree), "
                  "_parse_odf_length_to_px float values (enter the ODP sort as order-isomorphic integers; NaN keys excluded), "
                  "_get_text_recursive/_iter_paragraphs and _extract_cell_value (recorded), pypdf/openpyxl/xlrd readers, "
                  "PPTX/EPUB per-slide and per-chapter text walkers and the PDF page loop around pypdf (end-to-end generated "
                  "documents only; slide order, href resolution, manifest/spine and the chapter gate ARE modelled in Order.v), "
                  "rtf _strip_rtf_full_with_pages tokeniser (only its flush_page splitting is modelled). "
                  "Trusted: Coq kernel+VM; the hand-written models (validated differentially on every run); regex engine, "
                  "text decoding/cleaning, pypdf/openpyxl/xlrd as oracles.",
}
