"""C07 — routing: is_supported_file <-> get_extractor; extension decides.

G: tables dumped from the live modules into Gen/C07Tables.v; C07/Inst.v re-decides wf for them.
D: model (vm_compute) vs implementation on a path grammar x three mimetypes configurations.
"""
from __future__ import annotations

import importlib
import itertools
import mimetypes
import os
import re
import tempfile
from pathlib import Path

from common import coq_str, coq_list, coq_opt, coq_bool, coq_eval_shards

# documented extension -> documented extractor function (README "Supported Formats" tables,
# read_file docstring).  Every extension found in the README tables must be in this map.
DOCUMENTED = {
    ".doc": "read_doc", ".dot": "read_doc", ".xls": "read_xls", ".xlt": "read_xls",
    ".ppt": "read_ppt", ".pot": "read_ppt", ".pps": "read_ppt", ".rtf": "read_rtf",
    ".docx": "read_docx", ".docm": "read_docx", ".dotx": "read_docx", ".dotm": "read_docx",
    ".xlsx": "read_xlsx", ".xlsm": "read_xlsx", ".xltx": "read_xlsx", ".xltm": "read_xlsx",
    ".pptx": "read_pptx", ".pptm": "read_pptx", ".potx": "read_pptx", ".potm": "read_pptx",
    ".ppsx": "read_pptx", ".ppsm": "read_pptx",
    ".odt": "read_odt", ".ott": "read_odt", ".odp": "read_odp", ".otp": "read_odp",
    ".ods": "read_ods", ".ots": "read_ods", ".odg": "read_odg", ".odf": "read_odf",
    ".eml": "read_eml_format_mail", ".msg": "read_msg_format_mail", ".mbox": "read_mbox_format_mail",
    ".txt": "read_plain_text", ".md": "read_plain_text", ".csv": "read_plain_text",
    ".tsv": "read_plain_text", ".json": "read_plain_text",
    ".pdf": "read_pdf", ".html": "read_html", ".htm": "read_html", ".mhtml": "read_mhtml",
    ".mht": "read_mhtml", ".epub": "read_epub",
    ".zip": "read_archive", ".7z": "read_archive", ".tar": "read_archive",
    ".tar.gz": "read_archive", ".tgz": "read_archive", ".gz": "read_archive",
    ".tar.bz2": "read_archive", ".tbz2": "read_archive", ".bz2": "read_archive",
    ".tar.xz": "read_archive", ".txz": "read_archive", ".xz": "read_archive",
}


def _compound_keys(router):
    comp = router._COMPOUND_EXTENSIONS
    return list(comp.keys()) if hasattr(comp, "keys") else [x[0] for x in comp]


def readme_extensions():
    import common
    txt = (common.REPO / "README.md").read_text(encoding="utf-8")
    m = re.search(r"## Supported Formats(.*?)\n## ", txt, re.S)
    sect = m.group(1) if m else txt
    exts = []
    for line in sect.splitlines():
        if line.startswith("|") and "`." in line:
            cols = line.split("|")
            if len(cols) >= 3:
                exts += re.findall(r"`(\.[A-Za-z0-9.]+)`", cols[2])
    return exts


def gen_tables(ctx):
    from sharepoint2text.parsing import router
    from sharepoint2text.parsing.mime_types import MIME_TYPE_MAPPING
    reg = router._EXTRACTOR_REGISTRY
    pair = lambda a, b: f"({a}, {b})"
    docs = readme_extensions()
    unknown = [e for e in docs if e not in DOCUMENTED]
    ctx.obligation("readme-extensions-known-to-harness", not unknown and len(docs) >= 40,
                   f"README extensions without a documented extractor in the harness: {unknown} (found {len(docs)})")
    txt = "(* GENERATED on every check run from the live modules of /repo — do not edit. *)\n"
    txt += "From S2T Require Import Lib.PyStr C07.Model.\n\nDefinition T : tables := {|\n"
    txt += "  registry := " + coq_list([pair(coq_str(k), pair(coq_str(v[0]), coq_str(v[1]))) for k, v in reg.items()]) + ";\n"
    txt += "  aliases := " + coq_list([pair(coq_str(k), coq_str(v)) for k, v in router._EXTENSION_ALIASES.items()]) + ";\n"
    comp = router._COMPOUND_EXTENSIONS
    comp_items = list(comp.items()) if hasattr(comp, "items") else [tuple(x) for x in comp]
    ctx.obligation("tables:_COMPOUND_EXTENSIONS is a mapping (both entry points iterate its keys)", hasattr(comp, "items"), type(comp).__name__)
    txt += "  compound := " + coq_list([pair(coq_str(k), coq_str(v)) for k, v in comp_items]) + ";\n"
    txt += "  supported := " + coq_list([coq_str(k) for k in sorted(router._SUPPORTED_EXTENSIONS)]) + ";\n"
    ctx.obligation("tables:MIME_TYPE_MAPPING is a plain dict (in / [] / get agree)", type(MIME_TYPE_MAPPING) is dict, type(MIME_TYPE_MAPPING).__name__)
    txt += "  mime_map := " + coq_list([pair(coq_str(k), coq_str(v)) for k, v in dict.items(MIME_TYPE_MAPPING)]) + "\n|}.\n\n"
    txt += "Definition documented : list (str * str) := " + coq_list(
        [pair(coq_str(e), coq_str(DOCUMENTED[e])) for e in docs if e in DOCUMENTED]) + ".\n"
    ctx.gen_write("Gen/C07Tables.v", txt)
    return docs


def path_corpus(ctx, docs):
    from sharepoint2text.parsing import router
    from sharepoint2text.parsing.mime_types import MIME_TYPE_MAPPING
    rng = ctx.rng
    exts = set(k.lstrip(".") for k in router._SUPPORTED_EXTENSIONS)
    exts |= set(router._EXTRACTOR_REGISTRY) | set(router._EXTENSION_ALIASES)
    exts |= set(e.lstrip(".") for e in docs)
    mt = sorted(set(k.lstrip(".") for k in mimetypes.types_map) | set(k.lstrip(".") for k in mimetypes.common_types))
    mime_hit = [e for e in mt if mimetypes.types_map.get("." + e) in MIME_TYPE_MAPPING]
    exts |= set(mime_hit)
    other = [e for e in mt if e not in exts]
    rng.shuffle(other)
    exts |= set(other[: ctx.n(40, 400)])
    exts |= {"", "unknown", "docx2", "d", "tpl", "htmx", "pdfx", "sp", "xlsmx", "unknown2", "tar", "gz", "tar.gz", "tar.bz2", "tar.xz", "TAR.GZ", "tar.gzz", "exe", "bin"}
    exts = sorted(exts)
    stems = ["a", "report", "my.report", ".hidden", "..", ".", "", "dir/a", "dir.d/a", "dir.docx/a", "a b", " a",
             "/abs/x", "./x", "x.", "x..", "...x", "a.tar", ".tar", "http://h/p/a", "https://h/a.b/c?x=1.y",
             "file:///x", "data:text/plain,hi", "C:\\dir\\f", "\u0130stanbul", "stra\u00dfe", "\u212a", "x\n",
             "a/", "a//", "x.docx/", "\ud800", "\U0001f600", "d/.docx", "..docx", "a.b.c", "tar.gz", "x.tar.gz/y"]
    paths = []
    for e in exts:
        for st in stems:
            paths.append(st + ("." + e if e != "" else ""))
    # case variants
    cv = []
    known = [e for e in exts if e and len(e) <= 5]
    for e in known:
        variants = set()
        if len(e) <= ctx.n(3, 5):
            for bits in itertools.product([0, 1], repeat=len(e)):
                variants.add("".join(c.upper() if b else c for c, b in zip(e, bits)))
        else:
            variants |= {e.upper(), e.capitalize(), e[:-1] + e[-1].upper()}
        for v in variants:
            cv.append("File." + v)
    paths += cv
    # random stems over a hostile alphabet
    alpha = list("ab.Z /\\-_~: \t{}[]%?#@\n") + ["\u0130", "\u00e9", ".tar", ".gz", "..", "/.", "./", "//", "\u2100", "\r\n"]
    for _ in range(ctx.n(1500, 60000)):
        k = rng.randint(0, 6)
        st = "".join(rng.choice(alpha) for _ in range(k))
        e = rng.choice(exts)
        sep = rng.choice([".", ".", ".", "", "..", "/."])
        tail = rng.choice(["", "", "", "/", ".", " ", ".bak", "\n", "\r\n", "?x=1", "}"])
        paths.append(st + sep + e + tail)
    # hostile spellings (round 3): trailing white space / line ends after the extension, format-template and
    # URL/UNC-like names, characters that NFKC-normalise to URL delimiters.  Placed first so that the quick
    # tier never samples them away.
    router_exts = sorted(set(k.lstrip(".") for k in router._SUPPORTED_EXTENSIONS) | set(router._EXTRACTOR_REGISTRY)
                         | set(router._EXTENSION_ALIASES) | {c.lstrip(".") for c in _compound_keys(router)}
                         | {"unknown", "bak", ""})
    tails = ["\n", "\r\n", "\r", "\n\n", "\t", "\x0b", "\x0c", "\x1c", "\x85", "\u2028", "\u00a0", "\x00", " \n",
             "?web=1", "#frag", "%20", ";v=1", "\\", ":", "::$DATA", "~"]
    hstems = ["{3F2504E0-4F89-11D3-9A0C-0305E82C3301}", "report {final}", "x{}", "notes{0}", "budget}", "~$draft{",
              "{extensions}", "{0!r:>{1}}", "%s", "%(name)s", "$HOME", "${x}", "//[backup]/q3", "//[x", "//srv\u2100/q3",
              "http://[::1]/a", "https://h/a%2Fb", "scheme://[x]/a", "//h:99999/a", "http://u:p@h/a", "\\\\srv\\share\\a",
              "a\nb", "a\x00b", "\uff0e", "a\uff0fb", "\u202e", "a" * 300, "[1]", "(copy)", "a;b", "a&b", "*", "?", "<x>", "|"]
    hostile = []
    for e in router_exts:
        for tl in tails:
            hostile.append("doc." + e + tl if e else "doc" + tl)
    for st in hstems:
        for e in (rng.sample(router_exts, 6) + ["docx", "pdf", "tar.gz", "unknown", ""]):
            hostile.append(st + ("." + e if e else ""))
            hostile.append(st + ("." + e if e else "") + rng.choice(tails))
    # names that merely END in the letters of an extension / file-type id, without the dot
    for e in router_exts:
        if e:
            for pre in ("README_", "nightly-dump-", "scan.p", "x", "logs.old", ""):
                hostile.append(pre + e.replace(".", ""))
                hostile.append(pre + e)
    paths = hostile + paths
    ctx.extra["hostile_paths"] = len(hostile)
    # dedupe, keep order
    seen, out = set(), []
    for p in paths:
        if p not in seen:
            seen.add(p)
            out.append(p)
    if ctx.tier == "quick" and len(out) > 11000:
        head = out[:8000]
        rest = out[8000:]
        rng.shuffle(rest)
        out = head + rest[:3000]
    return out


class MimeConfig:
    """Switch the process-wide mimetypes database (restored afterwards)."""
    def __init__(self, kind):
        self.kind = kind

    def __enter__(self):
        if self.kind == "default":
            mimetypes._db = None
            mimetypes.inited = False
            mimetypes.init()
        elif self.kind == "empty":
            db = mimetypes.MimeTypes(filenames=())
            for m in (db.types_map, db.types_map_inv, db.encodings_map, db.suffix_map):
                for d in (m if isinstance(m, tuple) else (m,)):
                    d.clear()
            mimetypes._db = db
            mimetypes.inited = True
        elif self.kind == "hostile":
            mimetypes._db = None
            mimetypes.inited = False
            mimetypes.init()
            # claim supported extensions for other types and unsupported extensions for supported types
            for ext, typ in [(".docx", "application/pdf"), (".pdf", "text/html"), (".htm", "application/zip"),
                             (".exe", "application/pdf"), (".bin", "text/plain"), (".unknown", "application/msword"),
                             (".gz", "text/plain"), (".tgz", "application/pdf"), (".d", "message/rfc822"),
                             (".docx2", "application/x-tar"), (".tar", "application/vnd.ms-excel"),
                             # known types in non-canonical spellings (case, parameters, blanks), as host databases have them
                             (".tpl", "Text/Plain"), (".htmx", "text/html; charset=utf-8"), (".pdfx", "APPLICATION/PDF"),
                             (".sp", " application/pdf"), (".xlsmx", "application/vnd.ms-excel.sheet.macroenabled.12"),
                             (".unknown2", "Application/Zip")]:
                mimetypes.add_type(typ, ext, strict=True)
        return self

    def __exit__(self, *a):
        mimetypes._db = None
        mimetypes.inited = False
        mimetypes.init()


def impl_case(router, p):
    from sharepoint2text.parsing.exceptions import ExtractionFileFormatNotSupportedError
    try:
        sup = router.is_supported_file(p)
        sup_exc = None
    except Exception as e:  # noqa
        sup, sup_exc = None, type(e).__name__
    try:
        f = router.get_extractor(p)
        got = (f.__module__, f.__name__)
        exc = None
    except ExtractionFileFormatNotSupportedError:
        got, exc = None, "NotSupported"
    except Exception as e:  # noqa
        got, exc = None, type(e).__name__
    return sup, sup_exc, got, exc


def run(ctx):
    import logging
    logging.disable(logging.CRITICAL)
    from sharepoint2text.parsing import router
    ctx.rule = ("paths = (every extension of router/README/mimetypes db) x stem grammar + case variants + random "
                "hostile stems, each under 3 mimetypes configurations; non-trivial = path has a recognised "
                "extension or a MIME hit (implementation or model says supported) or a dot/slash edge in the stem")
    ctx.trusted += [
        "G-dump: tools/props/c07.py prints router._EXTRACTOR_REGISTRY/_EXTENSION_ALIASES/_COMPOUND_EXTENSIONS/"
        "_SUPPORTED_EXTENSIONS and MIME_TYPE_MAPPING of the imported modules as Coq literals",
        "oracles (universally quantified in the theorems, recorded in the correspondence): str.lower, mimetypes.guess_type",
        "modelled by hand, tied by differential runs: router.is_supported_file/get_extractor/_file_type_from_extension, "
        "os.path.splitext (POSIX)",
        "importlib resolution of registry entries: tested (every entry imported), not modelled",
        "read_file dispatch: tested on generated files (str(Path(p)) normalisation is outside the theorem)",
    ]
    ctx.assumptions += ["POSIX os.path (sep '/'), CPython 3.12 str.lower and mimetypes.guess_type as oracles"]
    docs = gen_tables(ctx)

    # ---- proofs
    ok1, log1 = ctx.prove("C07/Props.v", ["C07/Proofs.vo", "C07/Tail.vo"], expected=[
        "C07_supported_iff_extractor", "C07_else_not_supported", "C07_extension_decides",
        "C07_case_insensitive", "C07_alias_as_base", "C07_appended_chars_extend_extension", "C07_trailing_char_unsupported"])
    ok2, log2 = ctx.prove("C07/Inst.v", ["Gen/C07Tables.vo", "C07/Corr.vo", "C07/Tail.vo"], expected=[
        "C07_tables_wf", "C07_aliases_final", "C07_documented", "C07_alias_compound_consistent", "C07_trailing_chars_ok"])
    if not ok2:
        # ask the model which table entry is bad (hint for the search below)
        okh, out = ctx.coq_eval("firstbad", "From S2T Require Import Lib.PyStr C07.Model Gen.C07Tables.\n"
                                "Eval vm_compute in (first_bad T).\n")
        ctx.extra["first_bad"] = out[-600:]

    # ---- registry entries resolve
    bad_imports = []
    for k, (mod, fn) in router._EXTRACTOR_REGISTRY.items():
        try:
            getattr(importlib.import_module(mod), fn)
        except Exception as e:  # noqa
            bad_imports.append((k, repr(e)))
    for k, err in bad_imports:
        ctx.finding(f"registry-import:{k}", f"registry entry {k} does not resolve: {err}", {"entry": k, "error": err})

    # ---- differential + property oracle on the implementation
    paths = path_corpus(ctx, docs)
    cases = []
    case_info = []
    for cfg in ("default", "empty", "hostile"):
        with MimeConfig(cfg):
            for p in paths:
                sup, sup_exc, got, exc = impl_case(router, p)
                pl = p.lower()
                try:
                    m = mimetypes.guess_type(pl)[0]
                except Exception:  # noqa
                    m = None
                ext = os.path.splitext(pl)[1]
                nontriv = bool(sup or got or ("." in p.strip(".")))
                ctx.case((cfg, p), nontriv, kind=f"{cfg}:{'supported' if sup else 'unsupported'}")
                # property oracle, directly on the implementation
                if sup_exc or exc not in (None, "NotSupported"):
                    ctx.finding(f"raises:{sup_exc or exc}", f"routing raised {sup_exc or exc} for path {p!r} [{cfg}]",
                                {"path": p, "config": cfg, "is_supported_exc": sup_exc, "get_extractor_exc": exc})
                elif bool(sup) != (got is not None):
                    ctx.finding(f"mismatch:{ext}:{cfg}", f"is_supported_file={sup} but get_extractor "
                                f"{'succeeds' if got else 'raises'} for {p!r} [{cfg}]",
                                {"path": p, "config": cfg, "is_supported_file": sup, "get_extractor": got})
                cases.append(f"({coq_str(pl)}, {coq_opt(m, coq_str)}, {coq_bool(bool(sup))}, "
                             f"{coq_opt(got, lambda g: '(' + coq_str(g[0]) + ', ' + coq_str(g[1]) + ')')})")
                case_info.append((cfg, p, pl, m, sup, got))
    # extension decides / independence of the MIME database: same answer in all three configurations
    by_path = {}
    for cfg, p, pl, m, sup, got in case_info:
        by_path.setdefault(p, []).append((cfg, sup, got))
    for p, rs in by_path.items():
        ext = os.path.splitext(p.lower())[1]
        known = ext in router._SUPPORTED_EXTENSIONS or any(p.lower().endswith(c) for c in _compound_keys(router))
        if known and len({(s_, g) for _, s_, g in rs}) != 1:
            ctx.finding(f"mime-dependent:{ext}", f"extension-routed path {p!r} changes with the MIME database: {rs}",
                        {"path": p, "results": rs})
        if known and not rs[0][2]:
            ctx.finding(f"known-ext-unrouted:{ext}", f"path {p!r} with supported extension has no extractor", {"path": p})
    # documented extensions reach the documented extractor; alias == base (on the implementation)
    with MimeConfig("empty"):
        for e in docs:
            for stem in ("x", "dir.d/y", "A B"):
                for variant in (e, e.upper()):
                    _, _, got, _ = impl_case(router, stem + variant)
                    ctx.case(("doc", stem + variant), True, kind="documented")
                    if not got or got[1] != DOCUMENTED.get(e):
                        ctx.finding(f"documented:{e}", f"documented extension {e} routes to {got}, documentation says "
                                    f"{DOCUMENTED.get(e)}", {"path": stem + variant, "got": got, "want": DOCUMENTED.get(e)})
        for a, b in router._EXTENSION_ALIASES.items():
            for stem in ("x", ".x", "a.tar", "..", "d/", "p.q"):
                ra = impl_case(router, f"{stem}.{a}")
                rb = impl_case(router, f"{stem}.{b}")
                ctx.case(("alias", stem, a, b), True, kind="alias")
                if ra[2] != rb[2] or ra[0] != rb[0]:
                    ctx.finding(f"alias:{a}", f"alias .{a} differs from base .{b} for stem {stem!r}: {ra} vs {rb}",
                                {"stem": stem, "alias": a, "base": b, "alias_result": ra, "base_result": rb})

    # environment dimension: routing must not depend on logging level, thread, time zone or cwd
    import common
    sample = paths[:200] + [p for p in paths if p.lower().endswith((".docx", ".pdf", ".tar.gz", ".unknown"))][:100] + paths[-200:]
    common.env_sweep(ctx, "routing", lambda p: impl_case(router, p), sample)

    pre = "From S2T Require Import Lib.PyStr C07.Model C07.Corr Gen.C07Tables.\n"
    okc, failing, log = coq_eval_shards(ctx, "corr", pre, "(corr_case T)", cases, shard=500,
                                        ty="str * option str * bool * option (str * str)")
    ctx.traces += len(cases)
    ctx.obligation("correspondence:model==implementation on (path_lower, mime) cases", okc and not failing,
                   (f"{len(failing)} disagreements, first: {case_info[failing[0]] if failing else ''} " + log)[:1500])
    ctx.disagreements += len(failing)
    ctx.extra["corr_cases"] = len(cases)
    if failing:
        ctx.extra["corr_disagreements"] = [list(map(str, case_info[i])) for i in failing[:10]]
    # splitext correspondence alone (glue)
    sp = sorted(set(pl for _, _, pl, _, _, _ in case_info))
    sp_cases = [f"({coq_str(p)}, {coq_str(os.path.splitext(p)[1])})" for p in sp]
    oks, f2, log = coq_eval_shards(ctx, "splitext", pre, "splitext_case", sp_cases, shard=800, ty="str * str")
    ctx.obligation("correspondence:splitext_ext==os.path.splitext", oks and not f2,
                   (f"{len(f2)} disagreements, first: {sp[f2[0]] if f2 else ''!r} " + log)[:800])

    # ---- read_file dispatches to the same extractor
    import sharepoint2text
    names = ["a.docx", "b.PDF", "c.tar.gz", "d.htm", "e.unknownext", "f.TXT", "g.dotm", "h.gz", "noext", ".docx", "i.Json",
             "sub.d/j.md", "sub.d/k.tar.bz2", "sub.docx/l.txt", "sp ace/m n.csv", "sub.d/.hidden", "sub.d/n.", "o.b.c.xlsx"]
    spellings = [lambda d, n: os.path.join(d, n),
                 lambda d, n: d + "//" + n,
                 lambda d, n: d + "/./" + n,
                 lambda d, n: d + "/" + n.replace("/", "//"),
                 lambda d, n: d + "/" + n.replace("/", "/./"),
                 lambda d, n: d + "/sub.d/../" + n]
    names += ["legacy.doc", "legacy.xls", "legacy.pps", "legacy.dot", "book.xla", "r.rtf", "m.eml", "p.7z", "q.zip", "t.ods"]
    # the CONTENT of the file must not take part in the routing decision ("the extension decides"): the same names are
    # tried with payloads carrying the magic numbers of other formats
    contents = {"text": b"hello", "zip": b"PK\x03\x04" + bytes(26), "pdf": b"%PDF-1.4\n", "ole": bytes.fromhex("d0cf11e0a1b11ae1") + bytes(504),
                "rtf": b"{\\rtf1 x}", "7z": b"7z\xbc\xaf\x27\x1c" + bytes(26), "html": b"<html><body>x</body></html>", "empty": b""}
    # record which extractor FUNCTION is entered: every registry function is replaced (in its module) by a recorder
    invoked = []
    saved = []
    for k, (mod, fn) in router._EXTRACTOR_REGISTRY.items():
        m_ = importlib.import_module(mod)
        orig_f = getattr(m_, fn)
        if getattr(orig_f, "_c07_recorder", False):
            continue

        def rec(file_like, path=None, _n=(mod, fn), **kw):
            invoked.append(_n)
            return iter(())
        rec.__module__, rec.__name__, rec._c07_recorder = mod, fn, True
        saved.append((m_, fn, orig_f))
        setattr(m_, fn, rec)
    try:
        with tempfile.TemporaryDirectory(dir="/var/tmp") as td:
            os.makedirs(os.path.join(td, "sub.d"), exist_ok=True)
            links = [("link-notes.txt", "noext"), ("link-index.html", "f.TXT"), ("link-payload.bin", "a.docx"),
                     ("link-sheet.xlsx", "sub.d/j.md"), ("sub.d/link-up.pdf", "../d.htm")]
            for ci, (cname, payload) in enumerate(contents.items()):
                for nme in names:
                    os.makedirs(os.path.dirname(os.path.join(td, nme)), exist_ok=True)
                    open(os.path.join(td, nme), "wb").write(payload)
                # symbolic links: dispatch must follow the path string handed in, not the link target's name
                if ci == 0:
                    for ln, target in links:
                        try:
                            os.symlink(target, os.path.join(td, ln))
                        except OSError:
                            pass
                cases_rf = [(n, sp) for n in names for sp in (spellings if ci == 0 else spellings[:1])] + [
                    (ln, spellings[0]) for ln, _ in links if os.path.lexists(os.path.join(td, ln))]
                for nme, spell in cases_rf:
                    fp = spell(td, nme)
                    del invoked[:]
                    _, _, want, _ = impl_case(router, fp)
                    err = None
                    try:
                        for _ in sharepoint2text.read_file(fp):
                            break
                    except Exception as e:  # noqa
                        err = type(e).__name__
                    got = invoked[0] if invoked else None
                    ctx.case(("read_file", nme, cname), True, kind="read_file:" + cname)
                    if got != want or len(invoked) > 1:
                        ctx.finding(f"read_file-dispatch:{nme}:{cname}", f"read_file entered {invoked or err} for {nme} holding "
                                    f"{cname} content, get_extractor says {want}",
                                    {"name": nme, "content": cname, "payload": payload, "read_file_entered": list(invoked),
                                     "read_file_error": err, "get_extractor": want})
            # ---- histories: the decision for a path may depend neither on the files read earlier in the process nor
            # on the MIME database an earlier call saw.  The same names are read under a sequence of host MIME
            # configurations, and URL-like relative names ("data:text/html,x.zzq") before plain names with the same
            # suffix; after every call read_file must have entered what get_extractor says NOW.
            hist_names = ["u.exe", "u.bin", "u.unknown", "u.tpl", "u.htmx", "u.sp", "u.docx2", "v.unknown2", "w.unknownext",
                          "x.docx", "y.pdf", "z.gz", "t.tar", "s.tgz", "data:text/html,page.zzq", "plain.zzq",
                          "data:application/pdf,q.docx", "r.docx", "data:text/plain,n.unknown", "o.unknown"]
            cwd0 = os.getcwd()
            os.chdir(td)
            try:
                for nme in hist_names:
                    if os.path.dirname(nme):
                        os.makedirs(os.path.dirname(nme), exist_ok=True)
                    open(nme, "wb").write(b"hello")
                for order in (("hostile", "default", "empty", "hostile"), ("empty", "hostile", "default", "empty")):
                    for step, kind in enumerate(order):
                        with MimeConfig(kind):
                            for nme in (hist_names if step % 2 == 0 else hist_names[::-1]):
                                del invoked[:]
                                _, _, want, _ = impl_case(router, nme)
                                err = None
                                try:
                                    for _ in sharepoint2text.read_file(nme):
                                        break
                                except Exception as e:  # noqa
                                    err = type(e).__name__
                                got = invoked[0] if invoked else None
                                ctx.case(("read_file-history", nme, order, step), True, kind="read_file-history:" + kind)
                                if got != want or len(invoked) > 1:
                                    ctx.finding(f"read_file-history:{nme}:{kind}",
                                                f"read_file entered {invoked or err} for {nme!r} under the {kind} MIME database "
                                                f"(step {step} of {order}), get_extractor says {want}",
                                                {"name": nme, "mime_sequence": list(order), "step": step,
                                                 "read_file_entered": list(invoked), "read_file_error": err,
                                                 "get_extractor": want})
            finally:
                os.chdir(cwd0)
    finally:
        for m_, fn, orig_f in saved:
            setattr(m_, fn, orig_f)


META = {
    "technique": "Coq proof (parametric in routing tables, str.lower, MIME db) + kernel-decided wf of tables "
                 "generated from the live modules + vm_compute differential correspondence",
    "design_ref": "DESIGN.md §5 C07",
    "level_text": "Kernel-checked theorems over an executable model of router.py: is_supported_file <-> get_extractor "
                  "returns an extractor (else NotSupported), extension decides independently of the MIME database, "
                  "case-insensitivity, alias == base, splitext law; all parametric in the tables, whose well-formedness, "
                  "README-documented routes and alias/compound consistency are re-decided by vm_compute on tables "
                  "dumped from /repo on every run. The model is tied to the code by running both on ~20k "
                  "(path, mimetypes-configuration) cases.",
    "level_note": "Trusted: Coq kernel+VM; the G-dump printer; the hand-written model of router.py (validated "
                  "differentially); str.lower and mimetypes.guess_type are universally quantified oracles; "
                  "importlib resolution and read_file's str(Path(p)) are tested, not proved.",
}
