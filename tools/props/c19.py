"""C19 — OMML -> LaTeX conversion is total, order-preserving and balanced.

G: GREEK_TO_LATEX, _SKIP_TAGS, M_NS (live module) and the converter's local dict/tuple literals
   (op_map, func_map, accent_map, bracket_map, the open-bracket tuple; taken from the module's ast)
   plus the str.isspace() code points are dumped into Gen/C19Tables.v; C19/Inst.v re-decides `wf T`.
D: trees (exhaustive small ones over the converter's vocabulary + random deeper/malformed ones) are
   serialised as XML, parsed with ET.fromstring, converted by the implementation, and the PARSED tree
   is handed to the Coq model (variant `fixed` = the code with fixes/C19-*.patch applied); exact output
   string / exception class must agree.  The property oracle (no exception, balance, ordered texts,
   own operator, function-name form, documented form of EVERY element from its separately converted operands
   (compositional twin of the C19_form_* theorems, calm schema-shaped trees), no rendered None, determinism, input tree not mutated) runs on the
   implementation's output itself; the HISTORY oracle converts sequences of trees in freshly forked processes
   (tools/props/c19_iso.py) and compares every result with the conversion of the same tree alone.
   The object-history oracle converts an element, edits the tree in place and converts the same object again
   (must equal the conversion of a fresh parse of the edited tree).
   common.env_sweep repeats a sample of the conversions (and generated DOCX/PPTX documents) under DEBUG logging,
   in a worker thread, under other time zones and another cwd.
   If the literal extraction fails, the G obligation stays broken and the search continues with the committed
   baseline tables.
"""
from __future__ import annotations

import ast
import inspect
import itertools
import json
import re
import subprocess
import sys
from xml.etree import ElementTree as ET

import common
from common import coq_str, coq_list, coq_opt, coq_eval_shards

MATH = "http://schemas.openxmlformats.org/officeDocument/2006/math"
WORD = "http://schemas.openxmlformats.org/wordprocessingml/2006/main"
NSDECL = f'xmlns:m="{MATH}" xmlns:w="{WORD}"'

THEOREMS = [
    "C19_total", "C19_deterministic", "C19_balanced",
    "C19_form_frac", "C19_form_sSup", "C19_form_sSub", "C19_form_sSubSup", "C19_form_rad",
    "C19_form_nary", "C19_form_delim", "C19_form_matrix", "C19_form_func", "C19_form_bar", "C19_form_acc",
    "C19_own_operator", "C19_texts_in_order_partial",
    "C19_depth_bounded", "C19_depth_equals_height_default",
    "C19_formulas_each_once", "C19_formulas_result",
]
INST = ["C19_tables_wf", "C19_structural_not_skipped", "C19_nobrace_witnesses",
        "C19_orig_total_refuted", "C19_orig_balanced_refuted", "C19_orig_balanced_refuted_deg_order",
        "C19_orig_own_operator_refuted", "C19_orig_none_rendered", "C19_known_witnesses_repaired",
        "C19_tables_wf_txt", "C19_texts_ok_nonvacuous", "C19_depth_examples", "C19_formulas_example"]


# ----------------------------------------------------------------------------- G: tables
ROLE_KEYS = {"op_map": "∑", "func_map": "sin", "accent_map": "̂", "bracket_map": "("}


def local_literals(mod):
    """The converter's str->str dict literals and the open-bracket collection, read from the module's ast.
    Tolerant of where they live (module level or local to any function) and of how they are named: a dict is
    recognised by its role key (the sum sign, "sin", the hat accent, "(").  Fail closed: every role must be found
    exactly once, GREEK_TO_LATEX excluded."""
    tree = ast.parse(inspect.getsource(mod))
    if not any(isinstance(n, ast.FunctionDef) and n.name == "omml_to_latex" for n in ast.walk(tree)):
        raise RuntimeError("omml_to_latex not found")
    dicts = {}   # variable name -> dict
    for n in ast.walk(tree):
        tgt = val = None
        if isinstance(n, ast.Assign) and len(n.targets) == 1:
            tgt, val = n.targets[0], n.value
        elif isinstance(n, ast.AnnAssign) and n.value is not None:
            tgt, val = n.target, n.value
        if isinstance(tgt, ast.Name) and isinstance(val, ast.Dict) and tgt.id != "GREEK_TO_LATEX":
            try:
                d = ast.literal_eval(val)
            except Exception:  # noqa
                continue
            if d and all(isinstance(k, str) and isinstance(v, str) for k, v in d.items()):
                if tgt.id in dicts and dicts[tgt.id] != d:
                    raise RuntimeError("dict literal assigned twice with different values: " + tgt.id)
                dicts[tgt.id] = d
    out, names = {}, {}
    for role, key in ROLE_KEYS.items():
        hits = [nm for nm, d in dicts.items() if key in d]
        if len(hits) != 1:
            raise RuntimeError(f"converter literal for {role} (a str->str dict with key {key!r}) found {len(hits)} times: {hits}")
        out[role], names[role] = dicts[hits[0]], hits[0]
    opens = []
    for n in ast.walk(tree):
        if isinstance(n, ast.Compare) and len(n.ops) == 1 and isinstance(n.ops[0], ast.In) \
                and "content_text" in ast.unparse(n.left):
            c = n.comparators[0]
            if isinstance(c, (ast.Tuple, ast.List, ast.Set)):
                opens.append(list(ast.literal_eval(c)))
            elif isinstance(c, ast.Name) and c.id == names["bracket_map"]:
                opens.append(list(out["bracket_map"]))
            else:
                raise RuntimeError("malformed-radical test against an unknown collection: " + ast.unparse(c))
    if len(opens) != 1:
        raise RuntimeError(f"malformed-radical membership test found {len(opens)} times")
    out["open_brackets"] = opens[0]
    return out


def parse_coq_str(t):
    t = t.strip()
    if t.startswith('(s "'):
        return t[4:-2].replace('""', '"')
    m = re.fullmatch(r"\[([0-9; ]*)\]%N", t)
    if not m:
        raise ValueError("unparsable Coq string literal: " + t[:40])
    return "".join(chr(int(x)) for x in m.group(1).split(";") if x.strip())


def baseline_literals():
    """literals of the committed baseline Gen/C19Tables.v (HEAD of the verif checkout, else the file on disk)"""
    rc, txt = common.sh(["git", "-C", str(common.VERIF), "show", "HEAD:coq/Gen/C19Tables.v"])
    if rc != 0 or "Definition T : tables" not in txt:
        txt = (common.COQ / "Gen/C19Tables.v").read_text()
    lit = r'(?:\(s "(?:[^"]|"")*"\)|\[[0-9;]*\]%N)'
    out = {}
    for role in ROLE_KEYS:
        body = re.search(r"\b" + role + r" := \[(.*?)\];\n", txt, re.S).group(1)
        out[role] = {parse_coq_str(k): parse_coq_str(v) for k, v in re.findall(rf"\(({lit}), ({lit})\)", body)}
    body = re.search(r"\bopen_brackets := \[(.*?)\];\n", txt, re.S).group(1)
    out["open_brackets"] = [parse_coq_str(x) for x in re.findall(lit, body)]
    return out, txt


def gen_tables(ctx, mod):
    pair = lambda a, b: f"({a}, {b})"
    dmap = lambda d: coq_list([pair(coq_str(k), coq_str(v)) for k, v in d.items()])
    try:
        loc = local_literals(mod)
        ctx.obligation("G:converter-literals-extracted", True)
    except Exception as e:  # noqa
        # keep the obligation broken, but go on searching for a failing input with the committed baseline tables
        try:
            loc, txt = baseline_literals()
        except Exception as e2:  # noqa
            ctx.obligation("G:converter-literals-extracted", False, repr(e) + " / no baseline: " + repr(e2))
            return None
        ctx.obligation("G:converter-literals-extracted", False,
                       repr(e) + " — continuing with the committed baseline Gen/C19Tables.v")
        ctx.gen_write("Gen/C19Tables.v", txt)
        ctx.extra["tables"] = "baseline (literal extraction failed)"
        loc["greek"] = dict(getattr(mod, "GREEK_TO_LATEX", {}))
        loc["skip"] = set(getattr(mod, "_SKIP_TAGS", ()))
        loc["m_ns"] = getattr(mod, "M_NS", "{" + MATH + "}")
        return loc
    spaces = [c for c in range(0x110000) if chr(c).isspace()]
    txt = "(* GENERATED on every check run from the live omml_to_latex module — do not edit. *)\n"
    txt += "From S2T Require Import Lib.PyStr C19.Model.\n\nDefinition T : tables := {|\n"
    txt += "  m_ns := " + coq_str(mod.M_NS) + ";\n"
    txt += "  greek := " + dmap(mod.GREEK_TO_LATEX) + ";\n"
    txt += "  skip_tags := " + coq_list([coq_str(k) for k in sorted(mod._SKIP_TAGS)]) + ";\n"
    for k in ("op_map", "func_map", "accent_map", "bracket_map"):
        txt += f"  {k} := " + dmap(loc[k]) + ";\n"
    txt += "  open_brackets := " + coq_list([coq_str(k) for k in loc["open_brackets"]]) + ";\n"
    txt += "  spaces := [" + ";".join(map(str, spaces)) + "]%N\n|}.\n"
    ctx.gen_write("Gen/C19Tables.v", txt)
    loc["greek"] = dict(mod.GREEK_TO_LATEX)
    loc["skip"] = set(mod._SKIP_TAGS)
    loc["m_ns"] = mod.M_NS
    return loc


# ----------------------------------------------------------------------------- trees
# harness tree: (qname, attrs: tuple of (qname, value), text or None, children tuple); qname "m:f", "w:t", "t"
def N(tag, *children, text=None, **attrs):
    return (tag, tuple(sorted(("m:" + k if ":" not in k else k, v) for k, v in attrs.items())), text, tuple(children))


def esc(s, attr=False):
    s = s.replace("&", "&amp;").replace("<", "&lt;").replace(">", "&gt;")
    if attr:
        s = s.replace('"', "&quot;")
    return "".join(c if 32 <= ord(c) < 127 else f"&#{ord(c)};" for c in s)


def to_xml(t, root=False):
    tag, attrs, text, ch = t
    a = "".join(f' {k}="{esc(v, True)}"' for k, v in attrs)
    ns = " " + NSDECL if root else ""
    inner = (esc(text) if text else "") + "".join(to_xml(c) for c in ch)
    return f"<{tag}{ns}{a}>{inner}</{tag}>" if inner else f"<{tag}{ns}{a}/>"


def wrap(items):
    return N("m:oMath", *items)


def coq_name(x):
    """tag / attribute name; the two namespace prefixes are abbreviated (definitions in the scratch preamble)"""
    for pre, ab in (("{" + MATH + "}", "nsM"), ("{" + WORD + "}", "nsW")):
        if x.startswith(pre):
            return f"({ab} ++ {coq_str(x[len(pre):])})"
    return coq_str(x)


PREAMBLE = ("From S2T Require Import Lib.PyStr C19.Model C19.Corr Gen.C19Tables.\n"
            f"Definition nsM : str := {coq_str('{' + MATH + '}')}.\nDefinition nsW : str := {coq_str('{' + WORD + '}')}.\n")


def el_to_coq(e):
    attrs = coq_list([f"({coq_name(k)}, {coq_str(v)})" for k, v in e.attrib.items()])
    return (f"(Node {coq_name(e.tag)} {attrs} {coq_opt(e.text, coq_str)} "
            + coq_list([el_to_coq(c) for c in e]) + ")")


def mrun(text, rpr=False):
    return N("m:r", *([N("m:rPr", N("m:sty", val="p"))] if rpr else []), N("m:t", text=text))


KINDS = {
    "f": ("fPr", ["num", "den"], []),
    "sSup": ("sSupPr", ["e", "sup"], []),
    "sSub": ("sSubPr", ["e", "sub"], []),
    "sSubSup": ("sSubSupPr", ["e", "sub", "sup"], []),
    "rad": ("radPr", ["deg", "e"], []),
    "nary": ("naryPr", ["sub", "sup", "e"], ["chr"]),
    "d": ("dPr", ["e"], ["begChr", "endChr"]),
    "func": ("funcPr", ["fName", "e"], []),
    "bar": ("barPr", ["e"], []),
    "acc": ("accPr", ["e"], ["chr"]),
    "box": ("boxPr", ["e"], []),
    "limLow": ("limLowPr", ["e", "lim"], []),
    "groupChr": ("groupChrPr", ["e"], ["chr"]),
}
CHR_VALUES = {
    "nary": ["∑", "∏", "∫", "", "α", "{"],
    "d": ["[", "]", "", "|", "{", "}"],
    "acc": ["̃", "̂", "⃗", "x"],
    "groupChr": ["⏟"],
}
STRUCTURAL = {"f", "sSup", "sSub", "sSubSup", "rad", "nary", "d", "m", "func", "bar", "acc"}


def pr_variants(kind, full):
    """property child variants: absent, empty, and each operator child absent / without m:val / with a value"""
    pr, _, chrs = KINDS[kind]
    out = [None, N("m:" + pr)]
    if chrs:
        vals = CHR_VALUES[kind] if full else CHR_VALUES[kind][:2]
        per = []
        for c in chrs:
            per.append([None, N("m:" + c)] + [N("m:" + c, val=v) for v in vals])
        for combo in itertools.product(*per):
            kids = [x for x in combo if x is not None]
            if kids:
                out.append(N("m:" + pr, *kids, N("m:ctrlPr")))
    return out


def exhaustive(ctx, tabs=None):
    """every kind x property variant x slot present/absent x small operands; nestings; top-level sequences"""
    ops = [None, [], [mrun("x")], [mrun("(")], [mrun("a)")], [mrun("α ")]]
    cases = []
    for kind, (pr, slots, chrs) in KINDS.items():
        for pv in pr_variants(kind, True):
            slot_sets = [ops] * len(slots) if kind != "d" else [ops, [None, [mrun("y")], [mrun("]")]]]
            names = slots if kind != "d" else ["e", "e"]
            if chrs and pv is not None and len(pv[3]) > 1 and len(slots) > 1:
                slot_sets = [[None, [mrun("x")]]] * len(names)  # operator variants: fewer operand variants
            for combo in itertools.product(*slot_sets):
                kids = [] if pv is None else [pv]
                for nm, c in zip(names, combo):
                    if c is not None:
                        kids.append(N("m:" + nm, *c))
                cases.append(("exh1:" + kind, wrap([N("m:" + kind, *kids)])))
    # matrix
    cells = [[], [mrun("a")], [mrun("(")]]
    for r in range(0, 3):
        for c in range(0, 3):
            for cell in cells:
                rows = [N("m:mr", *[N("m:e", *cell) for _ in range(c)]) for _ in range(r)]
                for pv in (None, N("m:mPr", N("m:mcs"))):
                    cases.append(("exh1:m", wrap([N("m:m", *([pv] if pv else []), *rows)])))
    # sparse matrices and delimiters: every operand empty (<m:e/>), holding only an empty run / a property element,
    # or filled, in every position
    fill = [[], [N("m:r", N("m:rPr"), N("m:t"))], [mrun("a")], [mrun("b")]]
    for cs in itertools.product(range(4), repeat=4):
        if cs.count(2) + cs.count(3) in (1, 2, 3) or cs == (2, 3, 3, 2):
            cases.append(("sparse:m", wrap([N("m:m", N("m:mPr"), N("m:mr", N("m:e", *fill[cs[0]]), N("m:e", *fill[cs[1]])),
                                            N("m:mr", N("m:e", *fill[cs[2]]), N("m:e", *fill[cs[3]])))])))
    for k in (2, 3):
        for cs in itertools.product(range(3), repeat=k):
            cases.append(("sparse:d", wrap([N("m:d", N("m:dPr", N("m:begChr", val="|"), N("m:endChr", val="|")),
                                            *[N("m:e", *fill[c]) for c in cs])])))
    for cs in itertools.product(range(3), repeat=3):
        cases.append(("sparse:m", wrap([N("m:m", N("m:mr", *[N("m:e", *fill[c]) for c in cs]))])))
    # depth 2: a representative element in each slot of each kind
    reps = representative()
    for kind, (pr, slots, chrs) in KINDS.items():
        names = slots if kind != "d" else ["e", "e"]
        for i, nm in enumerate(names):
            for rname, rep in reps:
                for prv in ((None, N("m:" + pr)) if chrs else (None,)):
                    kids = [] if prv is None else [prv]
                    for j, nm2 in enumerate(names):
                        kids.append(N("m:" + nm2, *( [rep] if i == j else [mrun("u")])))
                    cases.append((f"exh2:{kind}/{rname}", wrap([N("m:" + kind, *kids)])))
    for rname, rep in reps:
        cases.append((f"exh2:m/{rname}", wrap([N("m:m", N("m:mr", N("m:e", rep), N("m:e", mrun("v"))))])))
    # same-kind nesting: every structural element inside each operand slot of an element of the same kind
    def simple(kind, tag, inner=None):
        """element of `kind` whose operands are distinct runs; `inner` (a node) replaces the run of slot `tag`"""
        if kind == "m":
            cells = [[mrun(tag + "p"), mrun(tag + "q")], [mrun(tag + "r"), mrun(tag + "s")]]
            if inner is not None:
                cells[0][0] = inner
            return N("m:m", N("m:mPr"), *[N("m:mr", *[N("m:e", c) for c in row]) for row in cells])
        pr, slots, chrs = KINDS[kind]
        names = slots if kind != "d" else ["e", "e"]
        kids = [N("m:" + pr, *[N("m:" + c, val=CHR_VALUES[kind][0]) for c in chrs])]
        for i, nm in enumerate(names):
            kids.append(N("m:" + nm, inner if (inner is not None and i == int(tag[-1])) else mrun(f"{tag}{nm}{i}")))
        return N("m:" + kind, *kids)
    for kind in list(KINDS) + ["m"]:
        n_slots = 1 if kind == "m" else (2 if kind == "d" else len(KINDS[kind][1]))
        for i in range(n_slots):
            inner = simple(kind, f"i{i}")
            cases.append((f"nest:{kind}", wrap([simple(kind, f"o{i}", inner)])))
            inner2 = simple(kind, f"j{i}", simple(kind, f"k{i}"))
            cases.append((f"nest:{kind}", wrap([simple(kind, f"o{i}", inner2), mrun("z")])))
    # matrix below another element inside a matrix cell, and every kind inside a matrix cell of a nested matrix
    for kind in KINDS:
        inner = simple(kind, "i0", simple("m", "n0"))
        cases.append((f"nest:m/{kind}", wrap([simple("m", "o0", inner)])))
    # function names: every key of func_map, its proper substrings and superstrings, single letters, case variants,
    # non-alphabetic names, surrounding whitespace
    keys = list(tabs["func_map"]) if tabs else ["sin", "cos", "tan", "log", "ln", "lim", "exp", "max", "min"]
    names = set(keys)
    for k in keys:
        names |= {k[i:j] for i in range(len(k)) for j in range(i + 1, len(k) + 1)}
        names |= {k + "h", "a" + k, k + k, k + " ", " " + k, k + " x", k.upper(), k.capitalize(), k[:-1] + k[-1].upper(),
                  k + "2", k + "_", k + "'"}
    names |= set("abcdefghijklmnopqrstuvwxyzGX") | {"", " ", "1", "+", "f g", "sin cos", "α", "sinα", "\\sin", "s in", "n l"}
    for nm in sorted(names):
        fname = [mrun(nm)] if nm else []
        cases.append(("func-name", wrap([N("m:func", N("m:funcPr"), N("m:fName", *fname), N("m:e", mrun("t")))])))
    for k in keys[:3]:
        cases.append(("func-name", wrap([N("m:func", N("m:fName", mrun(k[:1]), mrun(k[1:])), N("m:e", mrun("t")))])))
        cases.append(("func-name", wrap([N("m:func", N("m:fName", N("m:limLow", N("m:e", mrun(k)), N("m:lim", mrun("x")))), N("m:e", mrun("t")))])))
    # top-level sequences (pending-radical interplay)
    pool = [mrun("("), mrun("a)"), mrun("b]"), mrun(")c)"), mrun("x"),
            N("m:rad", N("m:deg"), N("m:e", mrun("("))), N("m:rad", N("m:deg", mrun("3")), N("m:e", mrun("["))),
            N("m:rad", N("m:e", mrun(" ( "))), N("m:rad", N("m:deg", mrun("k)")), N("m:e", mrun("y"))),
            N("m:f", N("m:num", N("m:rad", N("m:e", mrun("(")))), N("m:den", mrun("d)"))),
            N("m:d", N("m:e", mrun("q)")))]
    for n in (1, 2, 3):
        for combo in itertools.product(pool, repeat=n):
            cases.append((f"seq{n}", wrap(list(combo))))
    return cases


def representative():
    return [
        ("run", mrun("z")),
        ("rad-lone", N("m:rad", N("m:deg"), N("m:e", mrun("(")))),
        ("close", mrun("c)")),
        ("nary-prod", N("m:nary", N("m:naryPr", N("m:chr", val="∏")), N("m:sub", mrun("i")), N("m:sup"), N("m:e", mrun("p")))),
        ("nary-noval", N("m:nary", N("m:naryPr", N("m:chr")), N("m:e", mrun("p")))),
        ("d-sq", N("m:d", N("m:dPr", N("m:begChr", val="["), N("m:endChr", val="]")), N("m:e", mrun("b")))),
        ("d-noval", N("m:d", N("m:dPr", N("m:begChr"), N("m:endChr")), N("m:e", mrun("b")))),
        ("acc-tilde", N("m:acc", N("m:accPr", N("m:chr", val="̃")), N("m:e", mrun("t")))),
        ("frac", N("m:f", N("m:num", mrun("1")), N("m:den", mrun("2")))),
        ("func", N("m:func", N("m:fName", mrun(" sin ")), N("m:e", mrun("x")))),
        ("matrix", N("m:m", N("m:mr", N("m:e", mrun("a")), N("m:e", mrun("b"))))),
        ("ssubsup", N("m:sSubSup", N("m:e", mrun("x")), N("m:sub", mrun("i")), N("m:sup", mrun("2")))),
    ]


def random_tree(rng, tabs, malformed):
    greek = list(tabs["greek"])
    alpha = list("abxy12+= ") + ["(", ")", "[", "]", " ", "\t", " ", "\n", ", ", "sin", "lim", "max"] \
        + rng.sample(greek, 6) + (["{", "}", "\\", "^", "_", "None", "&", "<", " "] if malformed else [])
    skip = sorted(tabs["skip"])

    def text():
        return "".join(rng.choice(alpha) for _ in range(rng.randint(0, 4))) or None

    def tagname(local):
        if malformed and rng.random() < 0.06:
            return rng.choice(["w:", ""]) + local
        return "m:" + local

    def noise():
        k = rng.random()
        if k < 0.5:
            return N(tagname(rng.choice(skip)), *([N("m:t", text=text())] if malformed and rng.random() < 0.2 else []))
        if k < 0.8:
            return N("m:ctrlPr", N("w:rPr", N("w:rFonts")))
        return N(tagname(rng.choice(["sty", "limLoc", "subHide", "mcs", "unknown"])), val="1")

    def content(depth, parent=None):
        items = []
        for _ in range(rng.choice([0, 1, 1, 1, 2, 3])):
            items.append(node(depth, parent))
        return items

    def chr_el(name, kind):
        r = rng.random()
        vals = CHR_VALUES.get(kind, ["x"]) + list(tabs["op_map"]) + list(tabs["accent_map"]) + ["(", ")", "β"]
        if r < 0.25:
            return N(tagname(name))
        e = N(tagname(name), val=rng.choice(vals))
        if malformed and rng.random() < 0.2:
            e = (e[0], (("val", "plain"),) + e[1], e[2], e[3])
        return e

    def node(depth, parent=None):
        r = rng.random()
        if depth <= 0 or r < 0.3:
            t = N(tagname("t"), text=text())
            if malformed and rng.random() < 0.1:
                return t
            return N(tagname("r"), *([noise()] if rng.random() < 0.3 else []), t)
        kind = rng.choice(list(KINDS) + ["m", "rad", "rad", "d", "nary"])
        if parent is not None and rng.random() < 0.35:
            kind = parent  # same-kind nesting (matrix in matrix cell, n-ary in n-ary operand, ...)
        if kind == "m":
            rows = []
            for _ in range(rng.randint(0 if malformed else 1, 3)):
                rows.append(N(tagname("mr"), *[N(tagname("e"), *content(depth - 1, "m")) for _ in range(rng.randint(0, 3))]))
            return N(tagname("m"), *([N("m:mPr")] if rng.random() < 0.5 else []), *rows)
        pr, slots, chrs = KINDS[kind]
        kids = []
        if rng.random() < 0.6:
            pk = [chr_el(c, kind) for c in chrs if rng.random() < 0.7]
            if rng.random() < 0.4:
                pk.append(noise())
            kids.append(N(tagname(pr), *pk))
        names = list(slots) if kind != "d" else ["e"] * rng.randint(0, 3)
        for nm in names:
            if rng.random() < 0.85:
                c = content(depth - 1, kind)
                if kind == "rad" and nm == "e" and rng.random() < 0.35:
                    c = [mrun(rng.choice(["(", "[", " (", "( ", "{" if malformed else "("]))]
                kids.append(N(tagname(nm), *c))
            if rng.random() < 0.15:
                kids.append(noise())
        if malformed:
            if rng.random() < 0.25:
                rng.shuffle(kids)
            if rng.random() < 0.15 and names:
                kids.append(N(tagname(rng.choice(names)), *content(depth - 1)))
            if rng.random() < 0.1 and chrs:
                kids.append(chr_el(rng.choice(chrs), kind))
        e = N(tagname(kind), *kids)
        if malformed and rng.random() < 0.1:
            e = (e[0], e[1], text(), e[3])
        return e

    items = [node(rng.randint(1, 4)) for _ in range(rng.randint(1, 4))]
    root = wrap(items)
    if malformed and rng.random() < 0.1:
        root = (rng.choice(["m:oMathPara", "w:p", "m:f", "m:t"]),) + root[1:]
    return root


# ----------------------------------------------------------------------------- implementation + oracle
def local(tag):
    return tag.split("}")[-1]


def impl(mod, xml):
    e = ET.fromstring(xml)
    try:
        return e, mod.omml_to_latex(e), ""
    except Exception as ex:  # noqa
        return e, None, type(ex).__name__


def balanced(s):
    d = 0
    for c in s:
        if c == "{":
            d += 1
        elif c == "}":
            d -= 1
            if d < 0:
                return False
    return d == 0


def has_braces(e):
    for x in e.iter():
        if any(c in (x.text or "") for c in "{}") or any(c in v for v in x.attrib.values() for c in "{}"):
            return True
    return False


def has_t(e):
    return any(local(x.tag) == "t" for x in e.iter())


SLOTS = {"f": ["num", "den"], "sSup": ["e", "sup"], "sSub": ["e", "sub"], "sSubSup": ["e", "sub", "sup"],
         "rad": ["deg", "e"], "nary": ["sub", "sup", "e"], "func": ["fName", "e"], "bar": ["e"], "acc": ["e"]}


def schema_ok(e, tabs, root=False):
    """Python twin of C19.Model/Proofs `schema_ok` (premise of C19_texts_in_order)."""
    ns = tabs["m_ns"]
    lt = local(e.tag)
    kids = list(e)
    if not root:
        if lt in tabs["skip"] or lt == "t":
            return not any(has_t(c) for c in kids)
        if lt in SLOTS:
            sig = [c for c in kids if c.tag in [ns + x for x in SLOTS[lt]] or has_t(c)]
            idx = []
            for c in sig:
                if c.tag not in [ns + x for x in SLOTS[lt]]:
                    return False
                idx.append(SLOTS[lt].index(c.tag[len(ns):]))
            return all(a < b for a, b in zip(idx, idx[1:])) and all(schema_ok(c, tabs) for c in sig)
        if lt == "d":
            sig = [c for c in kids if c.tag == ns + "e" or has_t(c)]
            return all(c.tag == ns + "e" and schema_ok(c, tabs) for c in sig)
        if lt == "m" and any(c.tag == ns + "mr" for c in kids):
            for c in kids:
                if c.tag == ns + "mr":
                    for g in c:
                        if g.tag == ns + "e":
                            if not schema_ok(g, tabs):
                                return False
                        elif has_t(g):
                            return False
                elif has_t(c):
                    return False
            return True
    return all(schema_ok(c, tabs) for c in kids)


def run_texts(e):
    return [x.text or "" for c in e for x in c.iter() if local(x.tag) == "t"]


def lost_chars(tabs):
    b = set("".join(tabs["open_brackets"])) | set("".join(tabs["bracket_map"].values())) | {")"}
    return b


def erase(s, tabs, lost):
    return "".join(c for c in s if not c.isspace() and c not in lost)


def is_subseq(a, b):
    it = iter(b)
    return all(c in it for c in a)


def expected_operator(e, tabs):
    """documented operator of a top-level nary/d/acc from its OWN property child (None: no expectation)"""
    ns = tabs["m_ns"]
    lt = local(e.tag)
    if e.tag == ns + "func":
        # documented form: func_map.get(name.strip(), name) + "{" — only when the name is made of plain runs
        fn = [c for c in e if c.tag == ns + "fName"]
        if not fn or any(local(x.tag) not in ("fName", "r", "t") for x in fn[0].iter()):
            return None
        name = "".join(tabs["greek"].get(ch, ch) for x in fn[0].iter() if local(x.tag) == "t" for ch in (x.text or ""))
        if any(ch in name for ch in ")]}"):
            return None
        return tabs["func_map"].get(name.strip(), name) + "{"
    if e.tag != ns + lt or lt not in ("nary", "d", "acc"):
        return None
    own = None
    for c in e:
        if c.tag == ns + lt + "Pr":
            for g in c:
                if g.tag == ns + ("begChr" if lt == "d" else "chr"):
                    own = g
                    break
            if own is not None:
                break
    val = own.get(ns + "val") if own is not None else None
    g = lambda ch: tabs["greek"].get(ch, ch)
    if lt == "nary":
        op = val if val is not None else "∑"
        return tabs["op_map"].get(op, "".join(g(c) for c in op))
    if lt == "d":
        return val if val is not None else "("
    return tabs["accent_map"].get(val if own is not None else "^", "\\hat") + "{"


def own_chr(e, ns, pr, name):
    for c in e:
        if c.tag == ns + pr:
            for g in c:
                if g.tag == ns + name:
                    return g
    return None


def calm(e, lost):
    """no bracket character in any text/attribute value and no empty delimiter character: then no radical can take the
    lone-bracket form, the pending state stays empty and every element renders independently of its context"""
    for x in e.iter():
        if any(c in lost for c in (x.text or "")) or any(c in lost for v in x.attrib.values() for c in v):
            return False
        if local(x.tag) in ("begChr", "endChr") and "".join(x.attrib.values()).strip() == "":
            return False
    return True


def form_broken(mod, tabs, lost, root):
    """Python twin of the C19_form_* theorems, evaluated on the IMPLEMENTATION: for a schema-shaped calm tree the
    rendering of every element must be its documented template applied to the renderings of its operands (each
    operand converted on its own), every operand in place — empty ones too.  Returns a description or None."""
    ns = tabs["m_ns"]
    if not schema_ok(root, tabs, root=True) or not calm(root, lost):
        return None

    def conv(el):          # children of el, as omml_to_latex sees a root
        return mod.omml_to_latex(el)

    def alone(el):         # el itself, as the only child of a root
        r = ET.Element(ns + "oMath")
        r.append(el)
        return mod.omml_to_latex(r)

    def slot(el, name):
        c = el.find(ns + name)
        return "" if c is None else alone(c)
    g = lambda ch: tabs["greek"].get(ch, ch)
    nodes = [root] + [x for x in root.iter() if x is not root][:10]
    for n in nodes:
        lt = local(n.tag)
        if n is root:
            want, got = "".join(alone(c) for c in n), conv(n)
        elif lt in tabs["skip"]:
            want = ""
        elif lt == "t":
            want = "".join(g(ch) for ch in (n.text or ""))
        elif lt == "f":
            want = "\\frac{" + slot(n, "num") + "}{" + slot(n, "den") + "}"
        elif lt == "sSup":
            want = slot(n, "e") + "^{" + slot(n, "sup") + "}"
        elif lt == "sSub":
            want = slot(n, "e") + "_{" + slot(n, "sub") + "}"
        elif lt == "sSubSup":
            want = slot(n, "e") + "_{" + slot(n, "sub") + "}^{" + slot(n, "sup") + "}"
        elif lt == "rad":
            d = slot(n, "deg").strip()
            want = ("\\sqrt[" + d + "]{" if d else "\\sqrt{") + slot(n, "e") + "}"
        elif lt == "nary":
            c = own_chr(n, ns, "naryPr", "chr")
            op = c.get(ns + "val", "∑") if c is not None else "∑"
            sub, sup = slot(n, "sub"), slot(n, "sup")
            want = (tabs["op_map"].get(op, "".join(g(ch) for ch in op)) + ("_{" + sub + "}" if sub.strip() else "")
                    + ("^{" + sup + "}" if sup.strip() else "") + " " + slot(n, "e"))
        elif lt == "d":
            b, en = own_chr(n, ns, "dPr", "begChr"), own_chr(n, ns, "dPr", "endChr")
            want = ((b.get(ns + "val", "(") if b is not None else "(")
                    + ", ".join(alone(c) for c in n.findall(ns + "e"))
                    + (en.get(ns + "val", ")") if en is not None else ")"))
        elif lt == "m" and n.find(ns + "mr") is not None:
            want = ("\\begin{matrix}" + " \\\\ ".join(" & ".join(alone(c) for c in r.findall(ns + "e"))
                                                      for r in n.findall(ns + "mr")) + "\\end{matrix}")
        elif lt == "func":
            nm = slot(n, "fName")
            want = tabs["func_map"].get(nm.strip(), nm) + "{" + slot(n, "e") + "}"
        elif lt == "bar":
            want = "\\overline{" + slot(n, "e") + "}"
        elif lt == "acc":
            c = own_chr(n, ns, "accPr", "chr")
            a = c.get(ns + "val") if c is not None else "^"
            want = tabs["accent_map"].get(a, "\\hat") + "{" + slot(n, "e") + "}"
        else:
            want = "".join(alone(c) for c in n)
        if n is not root:
            got = alone(n)
        if got != want:
            return f"<{'root' if n is root else lt}> renders as {got!r}, documented form with its operands in place is {want!r}"
    return None


def twin_convert(root, tabs):
    """The documented templates with the pending-radical stack threaded through the operands in source order — the
    Python twin of C19.Model.process (variant fixed).  Used as the reference form OUTSIDE the calm fragment."""
    ns, skip, gmap = tabs["m_ns"], tabs["skip"], tabs["greek"]
    pend = []

    def own(el, pr, name):
        return own_chr(el, ns, pr, name)

    def P(el):
        if el is None:
            return ""
        lt = local(el.tag)
        if lt in skip:
            return ""
        if lt == "t":
            conv, out = "".join(gmap.get(c, c) for c in (el.text or "")), []
            while pend and pend[-1] in conv:
                i = conv.index(pend.pop())
                out.append(conv[:i] + "}")
                conv = conv[i + 1:]
            return "".join(out) + conv
        f = lambda n: P(el.find(ns + n))
        if lt == "f":
            a = f("num"); b = f("den")
            return "\\frac{" + a + "}{" + b + "}"
        if lt == "sSup":
            a = f("e"); b = f("sup")
            return a + "^{" + b + "}"
        if lt == "sSub":
            a = f("e"); b = f("sub")
            return a + "_{" + b + "}"
        if lt == "sSubSup":
            a = f("e"); b = f("sub"); c = f("sup")
            return a + "_{" + b + "}^{" + c + "}"
        if lt == "rad":
            d = f("deg").strip(); c = f("e")
            head = "\\sqrt[" + d + "]{" if d else "\\sqrt{"
            if c.strip() in tabs["open_brackets"]:
                pend.append(tabs["bracket_map"].get(c.strip(), ")"))
                return head
            return head + c + "}"
        if lt == "nary":
            ch = own(el, "naryPr", "chr")
            op = ch.get(ns + "val", "∑") if ch is not None else "∑"
            a = f("sub"); b = f("sup"); c = f("e")
            return (tabs["op_map"].get(op, "".join(gmap.get(x, x) for x in op)) + ("_{" + a + "}" if a.strip() else "")
                    + ("^{" + b + "}" if b.strip() else "") + " " + c)
        if lt == "d":
            bc, ec = own(el, "dPr", "begChr"), own(el, "dPr", "endChr")
            parts = [P(c) for c in el.findall(ns + "e")]
            return ((bc.get(ns + "val", "(") if bc is not None else "(") + ", ".join(parts)
                    + (ec.get(ns + "val", ")") if ec is not None else ")"))
        if lt == "m" and el.find(ns + "mr") is not None:
            rows = [" & ".join([P(c) for c in r.findall(ns + "e")]) for r in el.findall(ns + "mr")]
            return "\\begin{matrix}" + " \\\\ ".join(rows) + "\\end{matrix}"
        if lt == "func":
            nm = f("fName"); c = f("e")
            return tabs["func_map"].get(nm.strip(), nm) + "{" + c + "}"
        if lt == "bar":
            return "\\overline{" + f("e") + "}"
        if lt == "acc":
            ch = own(el, "accPr", "chr")
            a = ch.get(ns + "val") if ch is not None else "^"
            return tabs["accent_map"].get(a, "\\hat") + "{" + f("e") + "}"
        return "".join([P(c) for c in el])
    out = "".join([P(c) for c in root])
    return out + "}" * len(pend)


def twin_broken(mod, tabs, root):
    """schema-shaped tree whose rendering differs from the templates-with-pending-state reference"""
    if not schema_ok(root, tabs, root=True):
        return None
    got, want = mod.omml_to_latex(root), twin_convert(root, tabs)
    return None if got == want else f"renders as {got!r}; documented templates with the pending-radical state threaded give {want!r}"


def measured_depth(mod, e):
    """maximal number of simultaneously active frames of the recursive worker during omml_to_latex(e)"""
    fn = getattr(mod, "__file__", None)
    cur = mx = 0

    def prof(frame, event, arg):
        nonlocal cur, mx
        co = frame.f_code
        if co.co_filename == fn and co.co_name.endswith("process_element"):
            if event == "call":
                cur += 1
                mx = max(mx, cur)
            elif event == "return":
                cur -= 1
    sys.setprofile(prof)
    try:
        out = mod.omml_to_latex(e)
    finally:
        sys.setprofile(None)
    return out, mx


def relabel(tree, lost):
    """replace every run-text character that is neither whitespace nor a bracket by a unique private-use code point
    (document order); whitespace and brackets stay, so the converter's control flow is unchanged"""
    markers = []

    def go(t):
        tag, attrs, text, ch = t
        if tag.split(":")[-1] == "t" and text:
            new = []
            for c in text:
                if c.isspace() or c in lost:
                    new.append(c)
                else:
                    m = chr(0xE000 + len(markers))
                    markers.append(m)
                    new.append(m)
            text = "".join(new)
        return (tag, attrs, text, tuple(go(c) for c in ch))
    t2 = go(tree)
    return t2, "".join(markers)


def multiplicity_broken(mod, tabs, lost, tree):
    """schema-shaped tree whose uniquely marked run-text characters do not come out exactly once, in source order"""
    t2, markers = relabel(tree, lost)
    if not markers or len(markers) > 6000:
        return None
    ev, ov, xv = impl(mod, to_xml(t2, root=True))
    if ov is None or not schema_ok(ev, tabs, root=True):
        return None
    got = "".join(c for c in ov if 0xE000 <= ord(c) < 0xF900)
    return None if got == markers else (to_xml(t2), ov, markers, got)


def shrink(mod, tree, pred):
    """greedy structural minimisation of a harness tree keeping pred(tree) true"""
    def variants(t):
        tag, attrs, text, ch = t
        for i in range(len(ch)):
            yield (tag, attrs, text, ch[:i] + ch[i + 1:])
        for i in range(len(ch)):
            for g in ch[i][3]:
                yield (tag, attrs, text, ch[:i] + (g,) + ch[i + 1:])
        for i in range(len(attrs)):
            yield (tag, attrs[:i] + attrs[i + 1:], text, ch)
        if text and len(text) > 1:
            for i in range(len(text)):
                yield (tag, attrs, text[:i] + text[i + 1:], ch)
        for i in range(len(ch)):
            for v in variants(ch[i]):
                yield (tag, attrs, text, ch[:i] + (v,) + ch[i + 1:])
    changed, rounds = True, 0
    while changed and rounds < 60:
        changed = False
        rounds += 1
        for v in variants(tree):
            try:
                if pred(v):
                    tree, changed = v, True
                    break
            except Exception:  # noqa
                continue
    return tree


REPORTED: dict = {}
DEPTHS = [0]


def check_tree(ctx, mod, tabs, tree, lost, kind):
    """run the implementation on one harness tree, apply the property oracle; returns (coq case, info)"""
    xml = to_xml(tree, root=True)
    e, out, exc = impl(mod, xml)
    depth = 0

    def report(key_prefix, what, pred, extra=None):
        cat = key_prefix.split(":")[0]
        REPORTED[cat] = REPORTED.get(cat, 0) + 1
        if REPORTED[cat] > (1 if cat == "nondeterministic" else 2):  # two minimised inputs per kind of failure are enough; the rest is counted
            ctx.count("further-failures:" + cat)
            return
        # a result that depends on process state cannot be minimised reliably in-process (see the history oracle)
        small = tree if cat == "nondeterministic" else shrink(mod, tree, pred)
        sx = to_xml(small)
        _, o2, x2 = impl(mod, to_xml(small, root=True))
        if extra is not None:
            try:
                what = f"{what} ({extra(small)})"
            except Exception:  # noqa
                pass
        ctx.finding(f"{key_prefix}:{sx}"[:300], f"{what}: omml_to_latex on {sx} -> {o2!r} {x2}",
                    {"xml": to_xml(small, root=True), "output": o2, "exception": x2, "original_xml": xml,
                     "replay": "ET.fromstring(xml) -> omml_to_latex"})

    if exc:
        report(f"raises:{exc}", f"conversion raised {exc}",
               lambda v: impl(mod, to_xml(v, root=True))[2] == exc)
    else:
        e2, out2, exc2 = impl(mod, xml)
        before = ET.tostring(e)
        again, depth = measured_depth(mod, e)
        if depth:
            DEPTHS[0] += 1
        if ET.tostring(e) != before or ET.tostring(e) != ET.tostring(e2):
            def pm(v):
                ev = ET.fromstring(to_xml(v, root=True))
                b0 = ET.tostring(ev)
                try:
                    mod.omml_to_latex(ev)
                except Exception:  # noqa
                    return False
                return ET.tostring(ev) != b0
            report("tree-mutated", "the conversion modifies its input tree", pm)
        if out2 != out or again != out:
            report("nondeterministic", "two conversions of the same tree differ",
                   lambda v: impl(mod, to_xml(v, root=True))[1] != impl(mod, to_xml(v, root=True))[1])
        if not has_braces(e) and not balanced(out):
            def p(v):
                ev, ov, xv = impl(mod, to_xml(v, root=True))
                return ov is not None and not has_braces(ev) and not balanced(ov)
            report("unbalanced", "unbalanced braces for a tree without literal braces", p)
        if schema_ok(e, tabs, root=True):
            def p(v):
                ev, ov, xv = impl(mod, to_xml(v, root=True))
                if ov is None or not schema_ok(ev, tabs, root=True):
                    return False
                want = erase("".join(tabs["greek"].get(c, c) for t in run_texts(ev) for c in t), tabs, lost)
                return not is_subseq(want, erase(ov, tabs, lost))
            if p(tree):
                report("text-lost-or-reordered", "run texts are not an ordered subsequence of the output", p)
            if multiplicity_broken(mod, tabs, lost, tree):
                report("text-multiplicity", "a run's text is not emitted exactly once in source order "
                       "(text characters replaced by unique markers)",
                       lambda v: multiplicity_broken(mod, tabs, lost, v) is not None)
            if calm(e, lost):
                ctx.count("form-oracle-applied")
            else:
                ctx.count("form-twin-applied")
                try:
                    tb = twin_broken(mod, tabs, e)
                except Exception:  # noqa
                    tb = None
                if tb:
                    def pt(v):
                        try:
                            return twin_broken(mod, tabs, ET.fromstring(to_xml(v, root=True))) is not None
                        except Exception:  # noqa
                            return False
                    report("form", "an element is not rendered in its documented form with every operand in place "
                           "(tree with bracket characters: pending-radical state threaded)", pt,
                           extra=lambda v: twin_broken(mod, tabs, ET.fromstring(to_xml(v, root=True))))
            try:
                fb = form_broken(mod, tabs, lost, e)
            except Exception:  # noqa  (exceptions are reported by the totality oracle)
                fb = None
            if fb:
                def pf(v):
                    try:
                        return form_broken(mod, tabs, lost, ET.fromstring(to_xml(v, root=True))) is not None
                    except Exception:  # noqa
                        return False
                report("form", "an element is not rendered in its documented form with every operand in place", pf,
                       extra=lambda v: form_broken(mod, tabs, lost, ET.fromstring(to_xml(v, root=True))))
        if len(e) and expected_operator(e[0], tabs) is not None:
            def p(v):
                ev, ov, xv = impl(mod, to_xml(v, root=True))
                if ov is None or not len(ev):
                    return False
                w = expected_operator(ev[0], tabs)
                return w is not None and not ov.startswith(w)
            if p(tree):
                report("operator-not-own", "n-ary/delimiter/accent does not use the character of its own property child, "
                       "or a function name is not rendered as func_map.get(name.strip(), name)", p)
        if "None" in out and "None" not in xml:
            def p(v):
                x = to_xml(v, root=True)
                ov = impl(mod, x)[1]
                return ov is not None and "None" in ov and "None" not in x
            report("none-rendered", "Python None rendered into the LaTeX text", p)
    tags = {local(x.tag) for x in e.iter()}
    nontriv = bool(tags & STRUCTURAL) and any(local(x.tag) == "t" and x.text for x in e.iter())
    ctx.case(xml, nontriv, kind=kind.split("/")[0])
    coq = f"({el_to_coq(e)}, {coq_opt(out, coq_str)}, {coq_str(exc)}, {depth if not exc else 0}%nat)"
    return coq, (xml, out, exc)


class Iso:
    """tools/props/c19_iso.py as a server: every job (a sequence of XML strings) is converted in its own forked process"""
    def __init__(self):
        self.p = subprocess.Popen([sys.executable, str(common.VERIF / "tools/props/c19_iso.py")],
                                  stdin=subprocess.PIPE, stdout=subprocess.PIPE, text=True)

    def run(self, job):
        self.p.stdin.write(json.dumps(job) + "\n")
        self.p.stdin.flush()
        line = self.p.stdout.readline()
        if not line:
            raise RuntimeError("c19_iso helper died")
        r = json.loads(line)
        return [tuple(x) for x in r] if r is not None else [(None, "ChildDied")] * len(job)

    def close(self):
        try:
            self.p.stdin.close()
            self.p.wait(timeout=10)
        except Exception:  # noqa
            self.p.kill()


def history_pools(ctx, tabs):
    lone = lambda b, deg=None: N("m:rad", N("m:deg", *([mrun(deg)] if deg else [])), N("m:e", mrun(b)))
    unclosed = [
        wrap([lone("("), mrun("x+y")]),
        wrap([N("m:d", N("m:dPr", N("m:begChr", val="["), N("m:endChr", val="]")), N("m:e", lone("("), mrun("x+y")))]),
        wrap([N("m:d", N("m:e", lone("["), mrun("u")), N("m:e", mrun("v"))), mrun("w")]),
        wrap([N("m:f", N("m:num", lone("(", "3"), mrun("p")), N("m:den", mrun("q")))]),
        wrap([N("m:m", N("m:mr", N("m:e", lone("(")), N("m:e", mrun("b"))), N("m:mr", N("m:e", mrun("c"))))]),
        wrap([N("m:nary", N("m:sub", lone("[")), N("m:sup"), N("m:e", mrun("k")))]),
        wrap([N("m:func", N("m:fName", mrun("sin")), N("m:e", lone("("), mrun("t")))]),
        wrap([N("m:sSup", N("m:e", lone("(")), N("m:sup", mrun("2")))]),
        wrap([N("m:d", N("m:e", N("m:d", N("m:e", lone("("), lone("[")))))]),
        wrap([N("m:acc", N("m:e", lone("{")))]),
    ]
    detectors = [
        wrap([mrun("f(a)b")]),
        wrap([N("m:d", N("m:e", mrun("f(a)b")), N("m:e", mrun("c")))]),
        wrap([N("m:f", N("m:num", mrun("g[1]")), N("m:den", mrun("h(2)")))]),
        wrap([N("m:m", N("m:mr", N("m:e", mrun("a)")), N("m:e", mrun("b]"))))]),
        wrap([N("m:d", N("m:dPr", N("m:begChr", val="{"), N("m:endChr", val="}")), N("m:e", mrun("s}t")))]),
        wrap([lone("("), mrun("z)")]),
        wrap([N("m:d", N("m:e", lone("("), mrun("z)")))]),
        wrap([N("m:nary", N("m:sub", mrun("i)")), N("m:sup", mrun("n]")), N("m:e", mrun("(x)")))]),
        wrap([N("m:func", N("m:fName", mrun("lim")), N("m:e", mrun("(y)")))]),
        wrap([mrun("plain")]),
    ]
    rnd = [random_tree(ctx.rng, tabs, i % 3 == 0) for i in range(ctx.n(40, 300))]
    return unclosed, detectors, rnd


def history_oracle(ctx, mod, tabs):
    """the result of a conversion must not depend on the conversions done before it in the same process"""
    iso = Iso()
    try:
        unclosed, detectors, rnd = history_pools(ctx, tabs)
        X = lambda t: to_xml(t, root=True)
        ref = {}

        def alone(t):
            x = X(t)
            if x not in ref:
                ref[x] = iso.run([x])[0]
            return ref[x]
        jobs = [[a, b] for a in unclosed for b in detectors + unclosed] + [[b, a] for a in unclosed[:4] for b in detectors[:4]]
        pool = unclosed + detectors + rnd
        for _ in range(ctx.n(150, 2000)):
            jobs.append([ctx.rng.choice(pool) for _ in range(ctx.rng.randint(2, 6))])
        reported = 0
        for job in jobs:
            res = iso.run([X(t) for t in job])
            ctx.case(("history", tuple(X(t) for t in job)), True, kind="history")
            bad = next((k for k, (t, r) in enumerate(zip(job, res)) if r != alone(t)), None)
            if bad is None:
                continue
            reported += 1
            if reported > 2:
                ctx.count("further-failures:history")
                continue
            # minimal 2-element sequence, then minimise both trees
            victim = job[bad]
            first = next((t for t in job[:bad] if iso.run([X(t), X(victim)])[1] != alone(victim)), None)
            if first is None:
                ctx.finding("history:" + " ; ".join(to_xml(t) for t in job[:bad + 1])[:280],
                            f"conversion #{bad + 1} of a sequence differs from the conversion of the same tree alone: "
                            f"{res[bad]} vs {alone(victim)}",
                            {"sequence_xml": [X(t) for t in job[:bad + 1]], "in_sequence": res[:bad + 1],
                             "alone": alone(victim), "replay": "convert the sequence in one fresh process (tools/props/c19_iso.py)"})
                continue
            first = shrink(mod, first, lambda v: iso.run([X(v), X(victim)])[1] != alone(victim))
            victim = shrink(mod, victim, lambda v: iso.run([X(first), X(v)])[1] != alone(v))
            got = iso.run([X(first), X(victim)])[1]
            ctx.finding(("history:" + to_xml(first) + " ; " + to_xml(victim))[:300],
                        f"the result depends on an earlier conversion in the same process: after converting {to_xml(first)} "
                        f"the tree {to_xml(victim)} converts to {got[0]!r} {got[1]}, alone to {alone(victim)[0]!r} {alone(victim)[1]}",
                        {"sequence_xml": [X(first), X(victim)], "second_after_first": got, "second_alone": alone(victim),
                         "replay": "convert both in this order in one fresh process (tools/props/c19_iso.py)"})
        ctx.extra["history_jobs"] = len(jobs)
    finally:
        iso.close()


VARIANTS = {"fixed": "fixed", "orig": "orig"}
for _a in (0, 1):
    for _b in (0, 1):
        for _c in (0, 1):
            VARIANTS[f"own={_a},default={_b},stack={_c}"] = (
                "{| own_prop := %s; val_default := %s; pend_stack := %s |}"
                % tuple("true" if x else "false" for x in (_a, _b, _c)))


def run(ctx):
    import logging
    logging.disable(logging.CRITICAL)
    from sharepoint2text.parsing.extractors.util import omml_to_latex as mod
    ctx.rule = ("trees = exhaustive (every element kind x property-child variant x slot present/absent x small operands, "
                "one level of nesting, top-level sequences up to 3) + random deeper schema-shaped trees + random malformed "
                "trees (shuffled/duplicated children, foreign namespaces, braces); non-trivial = tree contains >=1 "
                "structural element and >=1 non-empty run text")
    ctx.trusted += [
        "G-dump: tools/props/c19.py prints GREEK_TO_LATEX/_SKIP_TAGS/M_NS of the imported module, the converter's local "
        "dict/tuple literals read from its ast (literal_eval) and the str.isspace code points as Coq literals",
        "oracle: xml.etree.ElementTree (fromstring, find for the three path forms, findall, iteration, attrib.get) — the "
        "parsed tree is handed to the model; str.strip/isspace via the generated code-point set",
        "modelled by hand, tied by differential runs: omml_to_latex.process_element (repaired variant `fixed`)",
        "call sites docx_extractor/pptx_extractor: tested on generated documents, not modelled",
    ]
    ctx.assumptions += ["elements come from ET.fromstring (string tags, no comments/PIs)", "CPython 3.12 str.isspace"]
    tabs = gen_tables(ctx, mod)
    if tabs is None:
        return
    lost = lost_chars(tabs)

    ctx.prove("C19/Props.v", ["C19/Proofs.vo", "C19/Texts.vo", "C19/Depth.vo", "C19/Formulas.vo"], expected=THEOREMS)
    ctx.prove("C19/Inst.v", ["Gen/C19Tables.vo", "C19/Corr.vo", "C19/Proofs.vo", "C19/TextSpec.vo", "C19/Depth.vo", "C19/Formulas.vo"], expected=INST)

    # ---- history oracle (forked processes; independent of what this process has converted so far)
    history_oracle(ctx, mod, tabs)

    # ---- cases
    cases = exhaustive(ctx, tabs)
    if ctx.tier == "quick":
        head = [c for c in cases if not c[0].startswith("seq3")]
        tail = [c for c in cases if c[0].startswith("seq3")]
        ctx.rng.shuffle(tail)
        cases = head + tail[:400]
    for _ in range(ctx.n(2000, 15000)):
        cases.append(("random", random_tree(ctx.rng, tabs, False)))
    for _ in range(ctx.n(1200, 10000)):
        cases.append(("malformed", random_tree(ctx.rng, tabs, True)))
    seen, coq_cases, infos = set(), [], []
    for kind, tree in cases:
        if tree in seen:
            continue
        seen.add(tree)
        c, info = check_tree(ctx, mod, tabs, tree, lost, kind)
        # quick tier: the kernel-evaluated model sees every second tree of the four largest families (every tree still goes
        # through all oracles, incl. the Python twin of the model); thorough tier: all of them
        if ctx.tier == "quick" and kind in ("exh1:d", "random", "malformed", "seq3") and len(seen) % 2 == 0:
            ctx.count("not-sent-to-coq(quick)")
            continue
        coq_cases.append(c)
        infos.append(info)
    # omml_to_latex(None)
    try:
        none_out = mod.omml_to_latex(None)
    except Exception as ex:  # noqa
        none_out = repr(ex)
    if none_out != "":
        ctx.finding("none-input", f"omml_to_latex(None) -> {none_out!r}", {"input": None, "output": none_out})

    pre = PREAMBLE
    ok, failing, log = coq_eval_shards(ctx, "corr", pre, "(corr_case_d T fixed)", coq_cases, shard=400,
                                       ty="omml * option str * str * nat")
    ctx.traces += len(coq_cases)
    ctx.disagreements += len(failing)
    detail = ""
    if failing:
        sub = [coq_cases[i] for i in failing[:150]]
        match = []
        for name, term in VARIANTS.items():
            if name == "fixed":
                continue
            ok2, f2, _ = coq_eval_shards(ctx, "diag", pre, f"(corr_case_d T {term})", sub, shard=400,
                                         ty="omml * option str * str * nat")
            if ok2 and not f2:
                match.append(name)
        ctx.extra["corr_disagreements"] = [list(map(str, infos[i])) for i in failing[:8]]
        ctx.extra["variants_explaining_disagreements"] = match
        detail = (f"{len(failing)} disagreements with the repaired model, first: {infos[failing[0]]}; "
                  f"model variants that explain them: {match or 'none'} ")
    ctx.obligation("correspondence:model(fixed)==omml_to_latex on parsed trees", ok and not failing, (detail + log)[:1500])
    ctx.extra["corr_cases"] = len(coq_cases)
    # fail closed when the frame probe no longer recognises the recursive worker (depth part of the correspondence)
    ctx.obligation("inventory:recursive-worker-frames-observed(depth correspondence active)",
                   DEPTHS[0] > len(coq_cases) // 2, f"worker frames seen in {DEPTHS[0]} of {len(coq_cases)} conversions")
    ctx.extra["depth_measured_cases"] = DEPTHS[0]

    entry_points(ctx, mod)
    deep_and_pptx(ctx, mod, tabs)
    environment_sweep(ctx, mod, cases)
    formula_collectors(ctx, mod, tabs)
    object_history_oracle(ctx, mod, cases)


def entry_points(ctx, mod):
    """the converter as reached from read_docx / read_pptx: a formula that converts must appear in the text, and the
    extraction must not fail because of a formula"""
    import io
    import zipfile
    from sharepoint2text.parsing.extractors.ms_modern import docx_extractor, pptx_extractor
    formulas = [
        ("frac", f'<m:oMath xmlns:m="{MATH}"><m:f><m:num><m:r><m:t>a</m:t></m:r></m:num><m:den><m:r><m:t>b</m:t></m:r></m:den></m:f></m:oMath>'),
        ("nary-chr-noval", f'<m:oMath xmlns:m="{MATH}"><m:nary><m:naryPr><m:chr/></m:naryPr><m:sub/><m:sup/><m:e><m:r><m:t>x</m:t></m:r></m:e></m:nary></m:oMath>'),
        ("two-lone-radicals", f'<m:oMath xmlns:m="{MATH}"><m:rad><m:deg/><m:e><m:r><m:t>(</m:t></m:r></m:e></m:rad><m:rad><m:deg/><m:e><m:r><m:t>(</m:t></m:r></m:e></m:rad><m:r><m:t>a)</m:t></m:r></m:oMath>'),
    ]
    ct = ('<?xml version="1.0"?><Types xmlns="http://schemas.openxmlformats.org/package/2006/content-types">'
          '<Default Extension="rels" ContentType="application/vnd.openxmlformats-package.relationships+xml"/>'
          '<Default Extension="xml" ContentType="application/xml"/></Types>')
    rels = ('<?xml version="1.0"?><Relationships xmlns="http://schemas.openxmlformats.org/package/2006/relationships">'
            '<Relationship Id="rId1" Type="http://schemas.openxmlformats.org/officeDocument/2006/relationships/officeDocument" '
            'Target="word/document.xml"/></Relationships>')
    for name, fx in formulas:
        want = None
        try:
            want = mod.omml_to_latex(ET.fromstring(fx))
        except Exception:  # noqa  (reported by the tree oracle)
            pass
        doc = (f'<?xml version="1.0"?><w:document xmlns:w="{WORD}"><w:body><w:p><w:r><w:t>before </w:t></w:r>{fx}'
               f'<w:r><w:t> after</w:t></w:r></w:p></w:body></w:document>')
        buf = io.BytesIO()
        with zipfile.ZipFile(buf, "w") as z:
            z.writestr("[Content_Types].xml", ct)
            z.writestr("_rels/.rels", rels)
            z.writestr("word/document.xml", doc)
        buf.seek(0)
        ctx.case(("docx", name), True, kind="entry:docx")
        try:
            res = list(docx_extractor.read_docx(buf, path="f.docx"))
            text = res[0].get_full_text()
            fl = [f.latex for f in res[0].formulas]
            if want is not None and (f"${want}$" not in text or want not in fl):
                ctx.finding(f"docx-formula-missing:{name}", f"read_docx does not carry the converted formula {want!r}: text={text!r} formulas={fl}",
                            {"document_xml": doc, "want": want, "text": text, "formulas": fl})
        except Exception as ex:  # noqa
            ctx.finding(f"docx-extraction-fails:{name}", f"read_docx fails on a document whose only special content is the formula {name}: {type(ex).__name__}: {ex}",
                        {"document_xml": doc, "exception": repr(ex)})


def environment_sweep(ctx, mod, cases):
    """the conversion (and the extractors around it) must not depend on logging level, thread, time zone or cwd:
    common.env_sweep over a sample of the generated trees — every structural nesting, every plain/unsupported
    container kind (box, limLow, groupChr, ...), function names, sparse operands, sequences with pending radicals,
    random schema-shaped and malformed trees — and over generated DOCX/PPTX documents"""
    from sharepoint2text.parsing.extractors.ms_modern import docx_extractor, pptx_extractor
    by_kind = {}
    for kind, tree in cases:
        by_kind.setdefault(kind.split("/")[0].split(":")[0], []).append(tree)
    rng = ctx.rng
    sample = []
    quota = {"nest": 60, "exh2": 60, "exh1": 60, "func-name": 30, "sparse": 30, "seq1": 10, "seq2": 30, "seq3": 20,
             "random": 100, "malformed": 50}
    for k, n in quota.items():
        pool = by_kind.get(k, [])
        sample += pool if len(pool) <= n else rng.sample(pool, n)
    # text below every element kind that has no rendering of its own, also as the name/limit of a function
    for tag in ("box", "limLow", "limUpp", "groupChr", "borderBox", "eqArr", "sPre", "phant", "m", "unknownThing"):
        sample.append(wrap([N("m:" + tag, N("m:e", mrun("p" + tag)), N("m:lim", mrun("q"))), mrun("r")]))
        sample.append(wrap([N("m:func", N("m:fName", N("m:" + tag, N("m:e", mrun("lim")), N("m:lim", mrun("n→∞")))),
                            N("m:e", mrun("a")))]))
    xmls = list(dict.fromkeys(to_xml(t, root=True) for t in sample))
    short = lambda x: re.sub(r' xmlns:\w+="[^"]*"', "", x if isinstance(x, str) else f"{x[0]}: {x[1]}")
    common.env_sweep(ctx, "omml_to_latex", lambda x: mod.omml_to_latex(ET.fromstring(x)), xmls, describe=short)

    A14 = "http://schemas.microsoft.com/office/drawing/2010/main"
    docs = []
    for x in xmls[-6:] + xmls[:4]:
        docs.append(("docx", x))
        docs.append(("pptx", x))

    def extract(case):
        kind, fx = case
        if kind == "docx":
            r = list(docx_extractor.read_docx(docx_bytes(f"<w:p><w:r><w:t>before </w:t></w:r>{fx}</w:p>"), path="f.docx"))[0]
            return (r.get_full_text(), [(f.latex, f.is_display) for f in r.formulas])
        r = list(pptx_extractor.read_pptx(pptx_bytes(f'<a14:m xmlns:a14="{A14}">{fx}</a14:m>'), path="f.pptx"))[0]
        return (r.get_full_text(), [(f.latex, f.is_display) for sl in r.slides for f in sl.formulas])
    common.env_sweep(ctx, "formula-documents", extract, docs, describe=short)


COLLECTOR_SHAPE = {"iter(M_OMATHPARA)": 1, "find(M_OMATH)": 1, "iter(M_OMATH)": 1, "omml_to_latex": 2, "id": 2, "strip": 2,
                   "for": 2, "add": 1, "append": 2}


def collector_shape(fn):
    """coarse, fail-closed signature of a formula collector read from its ast: which look-ups, how many conversions,
    identity tests, blank tests, loops"""
    import textwrap
    tree = ast.parse(textwrap.dedent(inspect.getsource(fn)))
    sig = {}

    def bump(k):
        sig[k] = sig.get(k, 0) + 1
    for n in ast.walk(tree):
        if isinstance(n, (ast.For, ast.While, ast.ListComp, ast.GeneratorExp, ast.SetComp)):
            bump("for")
        if isinstance(n, ast.Call):
            f = n.func
            if isinstance(f, ast.Attribute) and f.attr in ("iter", "find", "findall", "iterfind"):
                bump(f"{f.attr}({ast.unparse(n.args[0]) if n.args else ''})")
            elif isinstance(f, ast.Attribute) and f.attr in ("strip", "add", "append", "extend", "discard", "remove"):
                bump(f.attr)
            elif isinstance(f, ast.Name) and f.id in ("omml_to_latex", "id"):
                bump(f.id)
    return sig


def formula_collectors(ctx, mod, tabs):
    """docx_extractor._extract_formulas_from_context and pptx_extractor._extract_formulas_from_element against the
    Coq model C19.Formulas.collect, on generated scopes; plus the located-exactly-once oracle on their output"""
    from types import SimpleNamespace
    from sharepoint2text.parsing.extractors.ms_modern import docx_extractor, pptx_extractor
    fns = {"docx": docx_extractor._extract_formulas_from_context, "pptx": pptx_extractor._extract_formulas_from_element}
    for nm, fn in fns.items():
        try:
            sig = collector_shape(fn)
        except Exception as ex:  # noqa
            sig = {"error": repr(ex)}
        ctx.obligation(f"inventory:{nm} formula collector has the modelled shape", sig == COLLECTOR_SHAPE,
                       f"ast signature {sig}, modelled {COLLECTOR_SHAPE}")
    rng = ctx.rng
    body_texts = ["a", "b+c", " ", "", "α", "(", "x)", "\t"]

    def formula(depth=0):
        r = rng.random()
        items = []
        for _ in range(rng.choice([0, 1, 1, 2])):
            k = rng.random()
            if k < 0.5:
                items.append(mrun(rng.choice(body_texts)))
            elif k < 0.7:
                items.append(N("m:f", N("m:num", mrun(rng.choice(body_texts))), N("m:den", mrun("2"))))
            elif k < 0.8:
                items.append(N("m:rad", N("m:deg"), N("m:e", mrun(rng.choice(["(", "y"])))))
            elif k < 0.9 and depth < 2:
                items.append(formula(depth + 1))          # m:oMath nested in m:oMath (iter finds both)
            else:
                items.append(N("m:box", N("m:e", mrun("q"))))
        return N("m:oMath", *items)

    def para():
        kids = []
        if rng.random() < 0.5:
            kids.append(N("m:oMathParaPr", N("m:jc", val="center")))
        for _ in range(rng.choice([0, 1, 1, 2, 3])):
            kids.append(formula())
        if rng.random() < 0.15:
            kids.insert(rng.randint(0, len(kids)), N("w:r", N("w:t", text="t")))
        if rng.random() < 0.1:
            kids.append(para())
        return N("m:oMathPara", *kids)

    def block(depth):
        kids = []
        for _ in range(rng.randint(0, 4)):
            k = rng.random()
            if k < 0.3:
                kids.append(formula())
            elif k < 0.55:
                kids.append(para())
            elif k < 0.7:
                kids.append(N("w:r", N("w:t", text=rng.choice(body_texts))))
            elif depth < 3:
                kids.append(block(depth + 1))
        return N(rng.choice(["w:p", "w:tbl", "w:tc", "a14:m", "mc:Choice", "w:sdt"]), *kids)

    decl = (NSDECL + ' xmlns:a14="http://schemas.microsoft.com/office/drawing/2010/main" '
            'xmlns:mc="http://schemas.openxmlformats.org/markup-compatibility/2006"')
    scopes = [N("w:body", *[block(0) for _ in range(rng.randint(1, 4))]) for _ in range(ctx.n(250, 2500))]
    scopes += [formula(), para(), N("w:body"), N("w:body", para(), para(), formula())]
    ns = "{" + MATH + "}"
    coq, reported = [], 0
    for sc in scopes:
        xml = to_xml(sc, root=True).replace(NSDECL, decl, 1)
        root = ET.fromstring(xml)
        res = {}
        for nm, fn in fns.items():
            try:
                r = fn(SimpleNamespace(document_body=root)) if nm == "docx" else fn(root)
                res[nm] = [(f.latex, f.is_display) if hasattr(f, "latex") else tuple(f) for f in r]
            except Exception as ex:  # noqa
                res[nm] = ("EXC", type(ex).__name__)
        ctx.case(("collect", xml), any(True for _ in root.iter(ns + "oMath")), kind="formula-collectors")
        # property oracle on the implementation: every m:oMath of the scope exactly once (blank ones dropped), display
        # exactly for the first m:oMath child of an m:oMathPara
        firsts = set()
        for pa in root.iter(ns + "oMathPara"):
            om = pa.find(ns + "oMath")
            if om is not None:
                firsts.add(id(om))
        want = sorted((mod.omml_to_latex(om), id(om) in firsts) for om in root.iter(ns + "oMath")
                      if mod.omml_to_latex(om).strip())
        for nm in fns:
            if isinstance(res[nm], tuple) or sorted(res[nm]) != want or (nm == "pptx" and res["docx"] != res["pptx"]):
                reported += 1
                if reported <= 2:
                    ctx.finding(f"formula-collector:{nm}:{to_xml(sc)}"[:300],
                                f"{nm} collector returns {res[nm]} for {to_xml(sc)[:300]}; every m:oMath exactly once with its "
                                f"display flag would be (sorted) {want}; pptx collector: {res['pptx']}",
                                {"scope_xml": xml, "got": res, "want_sorted": want})
                break
        if not isinstance(res["pptx"], tuple):
            exp = coq_list([f"({coq_str(l)}, {'true' if d else 'false'})" for l, d in res["pptx"]])
            coq.append(f"({el_to_coq(root)}, {exp})")
    pre = PREAMBLE.replace("C19.Corr", "C19.Corr C19.Formulas")
    ok, failing, log = coq_eval_shards(ctx, "collect", pre, "(formulas_case T)", coq, shard=400,
                                       ty="omml * list (str * bool)")
    ctx.obligation("correspondence:model collect == docx/pptx formula collectors on generated scopes", ok and not failing,
                   (f"{len(failing)} disagreements, first: {coq[failing[0]][:600] if failing else ''} " + log)[:1500])
    ctx.extra["collector_cases"] = len(coq)


def object_history_oracle(ctx, mod, cases):
    """The result is a function of the tree VALUE at call time, not of the element object or of what was converted
    from it before: convert an element, edit the tree in place (text, attribute, removed / added / replaced
    children), convert the SAME object again and compare with the conversion of a freshly parsed copy of the edited
    tree; also two distinct objects with equal content, and the first tree again after the edit was undone."""
    import copy
    rng = ctx.rng
    trees = sorted({to_xml(t, root=True) for _, t in cases}, key=lambda x: (len(x), x))
    sample = trees[5:125] + rng.sample(trees[125:], min(100, max(0, len(trees) - 125)))
    ns = "{" + MATH + "}"
    conv = lambda el: _safe_conv(mod, el)
    reported = 0
    for x in sample:
        root = ET.fromstring(x)
        first = conv(root)
        if conv(ET.fromstring(x)) != first:
            continue            # not even stable for equal content: reported by the determinism oracle
        els = [e for e in root.iter() if e is not root]
        edits = []
        ts = [e for e in els if local(e.tag) == "t"]
        if ts:
            edits.append(("text", rng.choice(ts)))
        if els:
            edits.append(("remove", rng.choice(els)))
            edits.append(("append", rng.choice(els)))
        vals = [e for e in els if ns + "val" in e.attrib]
        if vals:
            edits.append(("attr", rng.choice(vals)))
        edits.append(("replace-children", root))
        for kind, target in edits:
            work = ET.fromstring(x)
            before = conv(work)
            # locate the same node in the working copy by its position in iteration order
            idx = [e for e in root.iter()].index(target)
            node = [e for e in work.iter()][idx]
            parent = next((p for p in work.iter() if node in list(p)), None)
            if kind == "text":
                node.text = (node.text or "") + "Z9"
            elif kind == "remove" and parent is not None:
                parent.remove(node)
            elif kind == "append":
                node.append(ET.fromstring(f'<m:r xmlns:m="{MATH}"><m:t>Q7</m:t></m:r>'))
            elif kind == "attr":
                node.set(ns + "val", "#")
            elif kind == "replace-children":
                for c in list(work):
                    work.remove(c)
                work.append(ET.fromstring(f'<m:r xmlns:m="{MATH}"><m:t>W5</m:t></m:r>'))
            else:
                continue
            after_xml = ET.tostring(work, encoding="unicode")
            got = conv(work)
            want = conv(ET.fromstring(after_xml))
            ctx.case(("object-history", kind, x), True, kind="object-history")
            twin_obj = conv(copy.deepcopy(work))
            if got != want or twin_obj != want:
                reported += 1
                if reported <= 2:
                    short = lambda z: re.sub(r' xmlns:\w+="[^"]*"', "", z)
                    ctx.finding(f"stale-after-in-place-edit:{kind}:{short(x)}"[:300],
                                f"converting {short(x)} -> {before!r}, editing the SAME element object in place ({kind}) to "
                                f"{short(after_xml)} and converting it again -> {got!r}; a freshly parsed copy of the edited tree "
                                f"converts to {want!r} (deep copy: {twin_obj!r})",
                                {"xml_before": x, "edit": kind, "xml_after": after_xml, "first": before,
                                 "second_same_object": got, "fresh_parse_of_edited_tree": want,
                                 "replay": "e=ET.fromstring(xml_before); omml_to_latex(e); apply the edit in place; omml_to_latex(e)"})
                break
        if reported > 2:
            ctx.count("further-failures:stale-after-in-place-edit")


def _safe_conv(mod, el):
    try:
        return mod.omml_to_latex(el)
    except Exception as ex:  # noqa
        return ("EXC", type(ex).__name__)


def chain_formula(n, kind):
    """n nested fractions / plain containers around one run"""
    o, c = (("<m:f><m:num>", "</m:num><m:den><m:r><m:t>1</m:t></m:r></m:den></m:f>") if kind == "f"
            else ("<m:box><m:e>", "</m:e></m:box>"))
    return f'<m:oMath xmlns:m="{MATH}">' + o * n + "<m:r><m:t>x</m:t></m:r>" + c * n + "</m:oMath>"


def docx_bytes(body_inner):
    import io
    import zipfile
    ct = ('<?xml version="1.0"?><Types xmlns="http://schemas.openxmlformats.org/package/2006/content-types">'
          '<Default Extension="rels" ContentType="application/vnd.openxmlformats-package.relationships+xml"/>'
          '<Default Extension="xml" ContentType="application/xml"/></Types>')
    rels = ('<?xml version="1.0"?><Relationships xmlns="http://schemas.openxmlformats.org/package/2006/relationships">'
            '<Relationship Id="rId1" Type="http://schemas.openxmlformats.org/officeDocument/2006/relationships/officeDocument" '
            'Target="word/document.xml"/></Relationships>')
    doc = f'<?xml version="1.0"?><w:document xmlns:w="{WORD}"><w:body>{body_inner}</w:body></w:document>'
    buf = io.BytesIO()
    with zipfile.ZipFile(buf, "w") as z:
        z.writestr("[Content_Types].xml", ct)
        z.writestr("_rels/.rels", rels)
        z.writestr("word/document.xml", doc)
    buf.seek(0)
    return buf


def pptx_bytes(math_xml):
    """the repository's formula fixture with the content of its a14:m element replaced (None if the fixture changed)"""
    import io
    import zipfile
    src = common.REPO / "sharepoint2text/tests/resources/modern_ms/pptx_formula_image.pptx"
    buf = io.BytesIO()
    done = False
    with zipfile.ZipFile(src) as zi, zipfile.ZipFile(buf, "w") as zo:
        for it in zi.infolist():
            data = zi.read(it.filename)
            if it.filename == "ppt/slides/slide1.xml":
                t = data.decode("utf-8")
                m = re.search(r"<a14:m>.*?</a14:m>", t, re.S)
                if m:
                    t = t[:m.start()] + math_xml + t[m.end():]
                    done = True
                data = t.encode("utf-8")
            zo.writestr(it, data)
    buf.seek(0)
    return buf if done else None


def expected_formulas(mod, scope):
    """what the extractors document: every m:oMathPara contributes its first m:oMath as a display formula, every other
    m:oMath is inline; blank conversions are dropped"""
    ns = "{" + MATH + "}"
    disp, seen = [], set()
    for para in scope.iter(ns + "oMathPara"):
        om = para.find(ns + "oMath")
        if om is not None:
            seen.add(id(om))
            disp.append((mod.omml_to_latex(om), True))
    inl = [(mod.omml_to_latex(om), False) for om in scope.iter(ns + "oMath") if id(om) not in seen]
    return [x for x in disp + inl if x[0].strip()]


def deep_and_pptx(ctx, mod, tabs):
    """(a) formulas reach read_pptx through a14:m / mc:AlternateContent; (b) very deep formulas: the converter's only
    depth consumer is the recursion bounded by C19_depth_bounded — beyond the interpreter's limit it raises
    RecursionError (known finding), which must never escape read_docx / read_pptx as such"""
    from sharepoint2text.parsing.exceptions import ExtractionError
    from sharepoint2text.parsing.extractors.ms_modern import docx_extractor, pptx_extractor
    MC = "http://schemas.openxmlformats.org/markup-compatibility/2006"
    A14 = "http://schemas.microsoft.com/office/drawing/2010/main"
    inner = lambda f: f[f.index(">") + 1:f.rindex("</m:oMath>")]   # children of an <m:oMath ...> string
    f1 = f'<m:oMath xmlns:m="{MATH}"><m:f><m:num><m:r><m:t>a</m:t></m:r></m:num><m:den><m:r><m:t>b</m:t></m:r></m:den></m:f></m:oMath>'
    f2 = f'<m:oMath xmlns:m="{MATH}"><m:d><m:e><m:r><m:t>x</m:t></m:r></m:e><m:e/></m:d></m:oMath>'
    f3 = f'<m:oMath xmlns:m="{MATH}"><m:rad><m:deg/><m:e><m:r><m:t>(</m:t></m:r></m:e></m:rad><m:r><m:t>y)</m:t></m:r></m:oMath>'
    variants = {
        "inline": f'<a14:m xmlns:a14="{A14}">{f1}</a14:m>',
        "display-para-two": f'<a14:m xmlns:a14="{A14}"><m:oMathPara xmlns:m="{MATH}">{f1}{f2}</m:oMathPara></a14:m>',
        "alternate-content": (f'<mc:AlternateContent xmlns:mc="{MC}"><mc:Choice xmlns:a14="{A14}" Requires="a14"><a14:m>'
                              f'<m:oMathPara xmlns:m="{MATH}">{f3}</m:oMathPara></a14:m></mc:Choice>'
                              f'<mc:Fallback><a:r xmlns:a="http://schemas.openxmlformats.org/drawingml/2006/main"><a:t>[formula]</a:t></a:r></mc:Fallback></mc:AlternateContent>'),
        "blank-formula": f'<a14:m xmlns:a14="{A14}"><m:oMath xmlns:m="{MATH}"><m:r><m:t> </m:t></m:r></m:oMath>{f2}</a14:m>',
    }
    for name, mx in variants.items():
        buf = pptx_bytes(mx)
        ctx.case(("pptx", name), True, kind="entry:pptx")
        if buf is None:
            ctx.obligation("inventory:pptx formula fixture has an a14:m element to substitute", False, "fixture changed")
            break
        want = expected_formulas(mod, ET.fromstring(mx))
        try:
            res = list(pptx_extractor.read_pptx(buf, path="f.pptx"))
            got = [(f.latex, f.is_display) for sl in res[0].slides for f in sl.formulas]
            text = res[0].get_full_text()
            missing = [w for w in want if (("$$" + w[0] + "$$") if w[1] else ("$" + w[0] + "$")) not in text]
            if got != want or missing:
                ctx.finding(f"pptx-formulas:{name}", f"read_pptx formulas {got} differ from the documented {want} "
                            f"(or not in the slide text: {missing})", {"a14m_xml": mx, "got": got, "want": want})
        except Exception as ex:  # noqa
            ctx.finding(f"pptx-extraction-fails:{name}", f"read_pptx fails on a slide whose formula is {name}: "
                        f"{type(ex).__name__}: {ex}", {"a14m_xml": mx, "exception": repr(ex)})
    else:
        ctx.obligation("inventory:pptx formula fixture has an a14:m element to substitute", True)

    # ---- depth
    limit = sys.getrecursionlimit()
    for kind in ("box", "f"):
        for n in (100, 400, 2000):
            fx = chain_formula(n, kind)
            ctx.case(("deep", kind, n), True, kind="deep")
            try:
                out = mod.omml_to_latex(ET.fromstring(fx))
                if "x" not in out or not balanced(out):
                    ctx.finding(f"deep-wrong-output:{kind}:{n}", f"{n} nested <m:{kind}> convert to a wrong string ({out[:60]!r}...)",
                                {"nesting": n, "kind": kind})
            except RecursionError:
                # genuine, recorded: the recursion needs one frame per tree level (C19_depth_equals_height_default)
                ctx.finding("deep-nesting-recursionerror",
                            f"omml_to_latex raises RecursionError on {n} nested <m:{kind}> (tree height {2 * n + 2}, "
                            f"interpreter limit {limit})", {"nesting": n, "kind": kind, "make": "chain_formula(n, kind)"})
            except Exception as ex:  # noqa
                ctx.finding(f"deep-raises:{type(ex).__name__}", f"omml_to_latex raises {type(ex).__name__} on {n} nested <m:{kind}>",
                            {"nesting": n, "kind": kind})
        # through the extractors: a result or an ExtractionError-family failure, never a bare RecursionError
        fx = chain_formula(2000, kind)
        for label, call in (("read_docx", lambda: list(docx_extractor.read_docx(
                                docx_bytes(f"<w:p><w:r><w:t>before </w:t></w:r>{fx}</w:p>"), path="f.docx"))),
                            ("read_pptx", lambda: list(pptx_extractor.read_pptx(
                                pptx_bytes(f'<a14:m xmlns:a14="{A14}">{fx}</a14:m>'), path="f.pptx")))):
            ctx.case(("deep-entry", label, kind), True, kind="deep")
            try:
                call()
            except ExtractionError:
                pass
            except BaseException as ex:  # noqa
                ctx.finding(f"deep-escapes:{label}:{type(ex).__name__}",
                            f"{label} lets {type(ex).__name__} escape for a document with 2000 nested <m:{kind}> "
                            "(must be a result or an ExtractionError)", {"nesting": 2000, "kind": kind, "entry": label})


META = {
    "technique": "Coq proof over an executable model of omml_to_latex (tables regenerated from the live module, wf re-decided "
                 "by vm_compute) + differential correspondence on ET-parsed trees + property oracle on the implementation",
    "design_ref": "DESIGN.md §5 C19",
    "level_text": "Kernel-checked theorems for ALL trees (no size bound) over the model of the repaired converter: totality (no "
                  "exception), determinism, brace balance (proper nesting) for trees without literal braces, the documented LaTeX form "
                  "of every structural element with operands in place, operators taken from the element's own property "
                  "child; every run's mapped text exactly once in source order (C19_texts_in_order_partial) for schema-shaped trees "
                  "whose run texts hold no whitespace/opening bracket and whose radicals have a radicand with text; refutation "
                  "theorems for the unrepaired variant.  Outside that fragment 'once, in order' is tested by the marker oracle "
                  "(run-text characters replaced by unique private-use code points must come out exactly once, in order) "
                  "for every schema-shaped generated tree.  The model is tied to the code by G-dumped tables "
                  "and by running model and implementation on ~7.6k (quick) / ~30k (thorough) parsed trees.",
    "level_note": "Trusted: Coq kernel+VM; the G-dump printer and the ast extraction of the converter's dict literals "
                  "(baseline fallback keeps the obligation broken); the hand-written model (validated differentially: exact "
                  "strings AND the measured number of nested worker frames == conv_depth); ElementTree parsing/find semantics and "
                  "str.isspace are oracles.  Totality is a theorem about unbounded recursion; CPython bounds it: beyond the "
                  "interpreter's recursion limit the real converter raises RecursionError (open known finding "
                  "deep-nesting-recursionerror; C19_depth_bounded/_equals_height_default say exactly how deep it recurses). "
                  "The DOCX/PPTX call sites (incl. a14:m, mc:AlternateContent, oMathPara with several oMath, blank formulas, "
                  "2000-deep formulas must end in a result or an ExtractionError) are tested on generated documents, not "
                  "modelled: they are ~10 lines of ET iteration around zip/XML parsing done by third-party code.  Outside the "
                  "calm fragment the form oracle is a Python twin of the model with the pending-radical state threaded.",
}
