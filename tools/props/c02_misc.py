"""C02 — XLSX sheets, mbox plain-text bodies, plain-text files, and the environment sweep.

XLSX  Coq (C02/Xlsx.v, PropsXlsx.v): the trimming of a sheet in _read_sheet_data over RAGGED rows
      (last_row / last_col / trim) with theorems "every non-empty cell survives at its coordinates" and
      "nothing else appears", tied by a correspondence on random ragged grids against the real
      _find_last_data_row / _find_last_data_column (emptiness recorded from the real _is_cell_non_empty).
      End to end: hand-written .xlsx packages (inline strings, sparse cells, empty leading rows/columns,
      <dimension> present or ABSENT = ragged rows from openpyxl's read-only reader, 1-2 sheets): every
      cell token once, row-major, in get_full_text() and in iterate_tables().
mbox  text/plain bodies: 1-3 messages per mailbox, single part or multipart/mixed with a binary
      attachment, 7bit / quoted-printable / base64, utf-8 / iso-8859-1, format=flowed with DelSp absent or
      "no" (soft breaks, space-stuffing, signature separator) or fixed: the words of get_full_text() of the
      k-th message are the words of its body (a soft or hard line break is a boundary).  format=flowed;
      delsp=yes is not generated (there a soft break is NOT a boundary; the code does not re-flow).
plain .txt/.csv/.md/.json bytes in encodings whose detection is not statistical: ASCII, UTF-8 (BOM or not),
      UTF-16/32 with BOM, BOM-less UTF-16LE/BE and UTF-32LE/BE of Latin text (NUL pattern), ISO-2022-JP
      (escape sequences; charset_normalizer takes ~1% of these for UTF-8: open known finding with a proposed patch);
      words of get_full_text() == words of the source, no character that is not in it.
      8-bit legacy code pages depend on charset_normalizer's statistics (third party): not asserted.
env   common.env_sweep over a sample of all of these + the repository fixtures through read_file.
"""
from __future__ import annotations

import base64
import io
import quopri
import zipfile

import common
from common import coq_list, coq_eval_shards

PROPS_EXPECTED = ["C02_xlsx_trim_keeps_cells", "C02_xlsx_trim_only_cells", "C02_xlsx_first_row_width_refuted"]
WORDS = ["alpha", "Bravo", "charlie", "Delta", "echo", "foxtrot", "golf", "Hotel", "india", "juliet", "kilo", "Lima", "mike",
         "november", "oscar", "papa", "Quebec", "romeo", "sierra", "tango", "uniform", "victor", "whiskey", "xray", "yankee", "zulu"]


# ----------------------------------------------------------------------------- XLSX
def col_name(i: int) -> str:
    s, i = "", i + 1
    while i:
        i, r = divmod(i - 1, 26)
        s = chr(65 + r) + s
    return s


def xlsx_package(sheets, with_dimension: bool) -> bytes:
    """sheets: list of (name, {(row, col): text}) with 0-based coordinates."""
    b = io.BytesIO()
    with zipfile.ZipFile(b, "w", zipfile.ZIP_DEFLATED) as z:
        z.writestr("[Content_Types].xml",
                   '<?xml version="1.0"?><Types xmlns="http://schemas.openxmlformats.org/package/2006/content-types">'
                   '<Default Extension="rels" ContentType="application/vnd.openxmlformats-package.relationships+xml"/>'
                   '<Default Extension="xml" ContentType="application/xml"/>'
                   '<Override PartName="/xl/workbook.xml" ContentType="application/vnd.openxmlformats-officedocument.spreadsheetml.sheet.main+xml"/>'
                   + "".join(f'<Override PartName="/xl/worksheets/sheet{i + 1}.xml" ContentType="application/vnd.openxmlformats-officedocument.spreadsheetml.worksheet+xml"/>'
                             for i in range(len(sheets))) + "</Types>")
        z.writestr("_rels/.rels", '<?xml version="1.0"?><Relationships xmlns="http://schemas.openxmlformats.org/package/2006/relationships">'
                   '<Relationship Id="rId1" Type="http://schemas.openxmlformats.org/officeDocument/2006/relationships/officeDocument" Target="xl/workbook.xml"/></Relationships>')
        z.writestr("xl/workbook.xml", '<?xml version="1.0"?><workbook xmlns="http://schemas.openxmlformats.org/spreadsheetml/2006/main" '
                   'xmlns:r="http://schemas.openxmlformats.org/officeDocument/2006/relationships"><sheets>' +
                   "".join(f'<sheet name="{n}" sheetId="{i + 1}" r:id="rId{i + 1}"/>' for i, (n, _) in enumerate(sheets)) + "</sheets></workbook>")
        z.writestr("xl/_rels/workbook.xml.rels", '<?xml version="1.0"?><Relationships xmlns="http://schemas.openxmlformats.org/package/2006/relationships">' +
                   "".join(f'<Relationship Id="rId{i + 1}" Type="http://schemas.openxmlformats.org/officeDocument/2006/relationships/worksheet" Target="worksheets/sheet{i + 1}.xml"/>'
                           for i in range(len(sheets))) + "</Relationships>")
        for i, (_, cells) in enumerate(sheets):
            rows = sorted({r for r, _ in cells})
            sd = ""
            for r in rows:
                sd += f'<row r="{r + 1}">' + "".join(
                    f'<c r="{col_name(c)}{r + 1}" t="inlineStr"><is><t>{cells[(r, c)]}</t></is></c>'
                    for c in sorted(cc for rr, cc in cells if rr == r)) + "</row>"
            dim = ""
            if with_dimension and cells:
                dim = f'<dimension ref="A1:{col_name(max(c for _, c in cells))}{max(r for r, _ in cells) + 1}"/>'
            z.writestr(f"xl/worksheets/sheet{i + 1}.xml",
                       '<?xml version="1.0"?><worksheet xmlns="http://schemas.openxmlformats.org/spreadsheetml/2006/main">'
                       f"{dim}<sheetData>{sd}</sheetData></worksheet>")
    return b.getvalue()


def gen_sheet(rng, ids, name):
    shape = rng.choice(["dense", "ragged", "ragged", "empty-first-row", "empty-first-col", "sparse"])
    nrows, cells = rng.randint(1, 5), {}
    r0 = rng.randint(1, 2) if shape == "empty-first-row" else 0
    c0 = rng.randint(1, 2) if shape == "empty-first-col" else 0
    width0 = rng.randint(1, 3)
    for r in range(nrows):
        w = width0 if shape == "dense" else rng.randint(1, 5) if r else width0
        for c in range(w):
            if shape == "sparse" and rng.random() < 0.4:
                continue
            ids[0] += 1
            cells[(r0 + r, c0 + c)] = f"T{ids[0]}x"
    if not cells:
        ids[0] += 1
        cells[(r0, c0)] = f"T{ids[0]}x"
    return (name, cells), shape


def xlsx_text(data: bytes):
    from sharepoint2text.parsing.extractors.ms_modern.xlsx_extractor import read_xlsx
    c = next(read_xlsx(io.BytesIO(data)))
    tabs = [t.get_table() for t in c.iterate_tables()]
    return c.get_full_text(), tabs


def is_tok(w: str) -> bool:
    return len(w) > 2 and w[0] == "T" and w[-1] == "x" and w[1:-1].isdigit()


def table_tokens_ok(sheets, want, got_t) -> bool:
    """iterate_tables(): the cells in row-major order, each once; the only cells that may be absent are those of a
    row holding a single cell (the extractor's documented 'table name row' heuristic, C13's subject)."""
    single = {cells[k] for _, cells in sheets for k in cells if sum(1 for (r, _) in cells if r == k[0]) == 1}
    it = iter(want)
    if len(set(got_t)) != len(got_t) or not all(any(t == w for w in it) for t in got_t):     # subsequence, no duplicates
        return False
    return all(t in single for t in set(want) - set(got_t))


def xlsx_part(ctx):
    from sharepoint2text.parsing.extractors.ms_modern import xlsx_extractor as XX
    rng = ctx.rng
    ctx.prove("C02/PropsXlsx.v", ["C02/Xlsx.vo"], expected=PROPS_EXPECTED)
    # ---- correspondence of the trimming on ragged grids
    vals = [None, None, "", " ", "x", "0", 0, 0.0, False, "Unnamed: 1"]
    cases, info = [], []
    for _ in range(ctx.n(400, 4000)):
        rows = [tuple(rng.choice(vals) for _ in range(rng.randint(0, 5))) for _ in range(rng.randint(0, 5))]
        lr = XX._find_last_data_row(rows)
        lc = XX._find_last_data_column(rows[:lr])
        grid = coq_list([coq_list(["true" if XX._is_cell_non_empty(v) else "false" for v in row]) for row in rows])
        cases.append(f"({grid}, ({lr}%nat, {lc}%nat))")
        info.append(rows)
        ctx.case(("xlsx-trim", rows), any(XX._is_cell_non_empty(v) for row in rows for v in row), "xlsx:ragged-grid-trim")
    ok, failing, log = coq_eval_shards(ctx, "xlsx_trim", "From S2T Require Import C02.Xlsx.\nFrom Coq Require Import List Bool.\nImport ListNotations.\n",
                                       "corr_trim", cases, shard=400, ty="list (list bool) * (nat * nat)")
    ctx.traces += len(cases)
    ctx.disagreements += len(failing)
    ctx.obligation("correspondence:xlsx last_row/last_col model == _find_last_data_row/_find_last_data_column on ragged grids",
                   ok and not failing, (f"{len(failing)} disagreements; first rows={info[failing[0]]} " if failing else "") + log[:600])
    # ---- end to end
    ids = [0]
    samples = []
    for _ in range(ctx.n(80, 1200)):
        sheets, shapes = [], []
        for k in range(rng.choice([1, 1, 2])):
            sh, shape = gen_sheet(rng, ids, f"Sheet{'AB'[k]}")
            sheets.append(sh)
            shapes.append(shape)
        dim = rng.random() < 0.5
        data = xlsx_package(sheets, dim)
        samples.append(data)
        want = [cells[k] for _, cells in sheets for k in sorted(cells)]
        ctx.case(("xlsx", tuple(sorted(c.items()) for _, c in sheets) if False else (tuple(shapes), dim, tuple(want))), len(want) >= 3,
                 "xlsx:" + "+".join(shapes) + (":dimension" if dim else ":no-dimension"))
        try:
            full, tabs = xlsx_text(data)
        except Exception as e:  # noqa
            ctx.finding("xlsx:raises", f"read_xlsx raised {type(e).__name__}: {e}", {"format": "xlsx", "sheets": [sorted(c.items()) for _, c in sheets], "dimension": dim})
            continue
        got = [w for w in full.split() if is_tok(w)]
        got_t = [v for t in tabs for row in t for v in row if isinstance(v, str) and is_tok(v)]
        rep = {"format": "xlsx", "sheets": [[list(k) + [v] for k, v in sorted(c.items())] for _, c in sheets], "dimension_element": dim,
               "expected_tokens": want, "full_text": full, "tables": tabs}
        if got != want:
            ctx.finding("xlsx:cell-text-lost-or-reordered" + ("" if dim else ":no-dimension-element"),
                        f"XLSX get_full_text(): cell tokens lost, duplicated or reordered (expected {len(want)}, got {len(got)}; "
                        f"worksheet {'with' if dim else 'WITHOUT'} <dimension>, shapes {shapes})", rep)
        elif not table_tokens_ok(sheets, want, got_t):
            ctx.finding("xlsx:table-cells-lost-or-reordered" + ("" if dim else ":no-dimension-element"),
                        f"XLSX iterate_tables(): cell tokens lost, duplicated or reordered (expected {len(want)}, got {len(got_t)})", rep)
    # ---- long sheets: row counts beyond the thresholds a renderer might sample (1024 / 2048 / 4096 ...), with the
    # widest value of a column occurring late, early, or in the middle
    sizes = [1030, 2100, 2600] if ctx.tier != "thorough" else [1030, 2100, 2600, 4200, 8300, 17000]
    plan = [(R, w) for R in sizes for w in ("late", "any")] if ctx.tier == "thorough" else [(1030, "any"), (2100, "late"), (2600, "late")]
    for R, where in plan:
        ncols = rng.randint(2, 3)
        # "late": the wider values start only in the last rows (after every plausible sampling window)
        wide_from = R - rng.randint(5, 40) if where == "late" else rng.choice([R // 2, 3, R - rng.randint(41, 400)])
        cells = {}
        for r in range(R):
            for c in range(ncols):
                ids[0] += 1
                cells[(r, c)] = ("T" + str(ids[0]).zfill(rng.choice([14, 22]) if r >= wide_from and rng.random() < 0.5 else 0) + "x")
        sheets = [("Long", cells)]
        dim = rng.random() < 0.5
        want = [cells[k] for k in sorted(cells)]
        ctx.case(("xlsx-long", R, ncols, wide_from, dim), True, "xlsx:long-sheet")
        try:
            full, tabs = xlsx_text(xlsx_package(sheets, dim))
        except Exception as e:  # noqa
            ctx.finding("xlsx:raises", f"read_xlsx raised {type(e).__name__}: {e} on a sheet of {R} rows", {"format": "xlsx", "rows": R})
            continue
        got = [w for w in full.split() if is_tok(w)]
        if got != want:
            bad = next((i for i, (a, b) in enumerate(zip(got, want)) if a != b), min(len(got), len(want)))
            ctx.finding("xlsx:long-sheet-cells-merged-or-lost", f"XLSX get_full_text() of a sheet with {R} rows x {ncols} columns whose wider values start "
                        f"at row {wide_from + 1}: cell tokens merged, lost or reordered (expected {len(want)} words, got {len(got)}; first "
                        f"difference at word {bad}: {full.split()[bad + 1] if bad + 1 < len(full.split()) else None!r})",
                        {"format": "xlsx", "generator": {"rows": R, "cols": ncols, "wide_from_row": wide_from + 1, "dimension_element": dim},
                         "expected_first_difference": want[bad] if bad < len(want) else None})
    return samples


# ----------------------------------------------------------------------------- mbox
def gen_body(rng, ids, flowed: bool):
    """Lines of a text/plain body and its expected words."""
    lines, words = [], []
    for _ in range(rng.randint(1, 5)):
        ws_ = []
        for _ in range(rng.randint(1, 4)):
            ids[0] += 1
            ws_.append(rng.choice(WORDS) + rng.choice(["", "é", "ü"]) + str(ids[0]))
        line = " ".join(ws_)
        words += ws_
        if flowed:
            r = rng.random()
            if r < 0.45:
                line += " "                      # soft line break
            elif r < 0.55:
                line = " " + line                # space-stuffed
        lines.append(line)
    if flowed and rng.random() < 0.3:
        lines += ["-- ", "sig" + str(ids[0])]
        words += ["--", "sig" + str(ids[0])]
    if lines[-1].endswith(" "):
        lines[-1] = lines[-1].rstrip()
    return lines, words


def gen_message(rng, ids, k):
    flowed = rng.random() < 0.6
    delsp = rng.choice([None, None, "no"]) if flowed else None
    charset = rng.choice(["utf-8", "utf-8", "iso-8859-1"])
    cte = rng.choice(["8bit", "quoted-printable", "base64"])
    lines, words = gen_body(rng, ids, flowed)
    raw = ("\r\n".join(lines) + "\r\n").encode(charset)
    if cte == "quoted-printable":
        payload = quopri.encodestring(raw)
    elif cte == "base64":
        payload = base64.encodebytes(raw)
    else:
        payload = raw
    ctype = f'text/plain; charset="{charset}"' + ("; format=flowed" if flowed else "") + (f"; delsp={delsp}" if delsp else "")
    part = b"Content-Type: " + ctype.encode() + b"\r\nContent-Transfer-Encoding: " + cte.encode() + b"\r\n\r\n" + payload
    head = (f"From: sender{k}@example.org\r\nTo: rcpt@example.org\r\nSubject: subject {k}\r\nDate: Thu, 01 Jan 2026 0{k}:00:00 +0000\r\n"
            "MIME-Version: 1.0\r\n").encode()
    multipart = rng.random() < 0.35
    if multipart:
        bd = f"BOUND{k}"
        msg = (head + f'Content-Type: multipart/mixed; boundary="{bd}"\r\n\r\n'.encode() + f"--{bd}\r\n".encode() + part +
               f"\r\n--{bd}\r\nContent-Type: application/octet-stream\r\nContent-Disposition: attachment; filename=\"a.bin\"\r\n"
               f"Content-Transfer-Encoding: base64\r\n\r\nAAECAwQ=\r\n--{bd}--\r\n".encode())
    else:
        msg = head + part
    kind = ("flowed" + ("-delsp-" + delsp if delsp else "") if flowed else "fixed") + ":" + cte + ":" + charset + (":multipart" if multipart else "")
    return msg, words, kind


def mbox_texts(data: bytes):
    from sharepoint2text.parsing.extractors.mail.mbox_email_extractor import read_mbox_format_mail
    return [m.get_full_text() for m in read_mbox_format_mail(io.BytesIO(data))]


def mbox_part(ctx):
    rng = ctx.rng
    ids = [0]
    samples = []
    for _ in range(ctx.n(80, 1200)):
        msgs = [gen_message(rng, ids, k) for k in range(1, rng.randint(1, 3) + 1)]
        data = b""
        for raw, _, _ in msgs:
            body = raw.replace(b"\r\n", b"\n")
            body = b"\n".join((b">" + ln if ln.startswith(b"From ") else ln) for ln in body.split(b"\n"))
            data += b"From MAILER-DAEMON Thu Jan  1 00:00:00 2026\n" + body + b"\n"
        samples.append(data)
        kinds = [k for _, _, k in msgs]
        ctx.case(("mbox", tuple(kinds), tuple(tuple(w) for _, w, _ in msgs)), sum(len(w) for _, w, _ in msgs) >= 3, "mbox:" + kinds[0].split(":")[0])
        try:
            texts = mbox_texts(data)
        except Exception as e:  # noqa
            ctx.finding("mbox:raises", f"read_mbox_format_mail raised {type(e).__name__}: {e}", {"format": "mbox", "mbox_hex": data.hex()})
            continue
        rep = {"format": "mbox", "mbox_hex": data.hex(), "kinds": kinds, "expected_words": [w for _, w, _ in msgs], "got_texts": texts}
        if len(texts) != len(msgs):
            ctx.finding("mbox:message-count", f"mbox: {len(msgs)} messages in the mailbox, {len(texts)} extracted", rep)
            continue
        for k, ((_, words, kind), text) in enumerate(zip(msgs, texts)):
            got = text.split()
            if got == words:
                continue
            if "".join(got) == "".join(words):
                ctx.finding("mbox:body-words-merged:" + kind.split(":")[0],
                            f"mbox message {k + 1} ({kind}): words of the text/plain body are merged across a line break "
                            f"(expected {len(words)} words, got {len(got)})", rep)
            else:
                ctx.finding("mbox:body-text:" + kind.split(":")[0],
                            f"mbox message {k + 1} ({kind}): body words lost, duplicated, reordered or foreign text "
                            f"(expected {len(words)} words, got {len(got)})", rep)
            break
    return samples


# ----------------------------------------------------------------------------- plain text
PLAIN_ENCODINGS = ["ascii", "utf-8", "utf-8-sig", "utf-16", "utf-32", "utf-16-le", "utf-16-be", "utf-32-le", "utf-32-be", "iso2022_jp"]
JP = ["これは", "日本語", "テキスト", "です", "東京", "晴れ", "明日", "会議", "資料", "確認", "お願いします", "ありがとう"]


def gen_plain(rng, ids):
    enc = rng.choice(PLAIN_ENCODINGS)
    ext = rng.choice([".txt", ".txt", ".md", ".csv", ".log" if False else ".txt"])
    lines, words = [], []
    for _ in range(rng.randint(4, 9)):
        ws_ = []
        for _ in range(rng.randint(3, 7)):
            ids[0] += 1
            if enc == "iso2022_jp" and rng.random() < 0.7:
                ws_.append(rng.choice(JP) + rng.choice(JP))
            elif enc in ("ascii", "iso2022_jp", "utf-16-le", "utf-16-be", "utf-32-le", "utf-32-be"):
                ws_.append(rng.choice(WORDS) + str(ids[0]))          # Latin text: 7-bit-clean bytes in the BOM-less UTFs
            else:
                ws_.append(rng.choice(WORDS) + rng.choice(["", "", "é", "ß", "ø"]) + str(ids[0]))
        lines.append((", " if ext == ".csv" else " ").join(ws_))
        words += ws_
    text = "\n".join(lines) + "\n"
    return text.encode(enc), text, enc, ext


def plain_text(case):
    from sharepoint2text.parsing.extractors.plain_extractor import read_plain_text
    data, ext = case
    return next(read_plain_text(io.BytesIO(data), path="f" + ext)).get_full_text()


def plain_part(ctx):
    rng = ctx.rng
    ids = [0]
    samples = []
    for _ in range(ctx.n(120, 2000)):
        data, text, enc, ext = gen_plain(rng, ids)
        samples.append((data, ext))
        ctx.case(("plain", enc, ext, text), True, "plain:" + enc)
        try:
            got = plain_text((data, ext))
        except Exception as e:  # noqa
            ctx.finding("plain:raises:" + enc, f"read_plain_text raised {type(e).__name__}: {e} ({enc})", {"format": "plain", "hex": data.hex(), "encoding": enc})
            continue
        rep = {"format": "plain", "hex": data.hex(), "encoding": enc, "ext": ext, "expected": text, "got": got}
        foreign = sorted(set(got) - set(text) - {"﻿"})
        if got.split() != text.split():
            ctx.finding("plain:text-lost-or-garbled:" + enc, f"plain text ({enc}{', no BOM' if enc.endswith(('-le', '-be')) else ''}): the words of "
                        f"get_full_text() are not the words of the source ({len(text.split())} expected, {len(got.split())} got)"
                        + (f"; characters that are not in the source: {[hex(ord(c)) for c in foreign[:4]]}" if foreign else ""), rep)
        elif foreign:
            ctx.finding("plain:foreign-characters:" + enc, f"plain text ({enc}): get_full_text() contains characters that are not in the source: "
                        f"{[hex(ord(c)) for c in foreign[:4]]}", rep)
    return samples


# ----------------------------------------------------------------------------- EPUB package level
EPUB_NAMES = ["chapter{i}.xhtml", "ch{i}.html", "c++_basics{i}.xhtml", "1+1={i}.xhtml", "part-{i}_final.v2.xhtml", "Kapitel\u00dc{i}.xhtml",
              "text/ch{i}.xhtml", "text/deep/er/ch{i}.xhtml", "a&b{i}.xhtml", "ch(1)[{i}].xhtml", "ch{i}~x.xhtml", "ch,{i};x.xhtml", "ch@{i}$.xhtml"]


def epub_package(chapters, opf_dir: str, escaped: set[int]):
    """chapters: list of (member name relative to the OPF directory, [paragraph tokens]).  hrefs are written literally
    (XML-escaped only), except for the indices in `escaped`, whose href is percent-encoded (URL-reference form)."""
    from urllib.parse import quote
    from xml.sax.saxutils import escape
    b = io.BytesIO()
    base = (opf_dir + "/") if opf_dir else ""
    with zipfile.ZipFile(b, "w", zipfile.ZIP_DEFLATED) as z:
        z.writestr(zipfile.ZipInfo("mimetype"), "application/epub+zip")
        z.writestr("META-INF/container.xml", '<?xml version="1.0"?><container version="1.0" xmlns="urn:oasis:names:tc:opendocument:xmlns:container">'
                   f'<rootfiles><rootfile full-path="{base}content.opf" media-type="application/oebps-package+xml"/></rootfiles></container>')
        items = "".join(f'<item id="c{i}" href="{escape(quote(n, safe="/") if i in escaped else n, {chr(34): "&quot;"})}" media-type="application/xhtml+xml"/>'
                        for i, (n, _) in enumerate(chapters))
        spine = "".join(f'<itemref idref="c{i}"/>' for i in range(len(chapters)))
        z.writestr(base + "content.opf", '<?xml version="1.0" encoding="UTF-8"?><package xmlns="http://www.idpf.org/2007/opf" version="3.0" unique-identifier="id">'
                   '<metadata xmlns:dc="http://purl.org/dc/elements/1.1/"><dc:identifier id="id">urn:x</dc:identifier><dc:title>T</dc:title>'
                   f'<dc:language>en</dc:language></metadata><manifest>{items}</manifest><spine>{spine}</spine></package>')
        for n, toks in chapters:
            z.writestr(base + n, '<?xml version="1.0" encoding="UTF-8"?><html xmlns="http://www.w3.org/1999/xhtml"><head><title>x</title></head><body>'
                       + "".join(f"<p>{t}</p>" for t in toks) + "</body></html>")
    return b.getvalue()


def epub_text(data: bytes):
    from sharepoint2text.parsing.extractors.epub_extractor import read_epub
    return next(read_epub(io.BytesIO(data))).get_full_text()


def epub_part(ctx):
    rng = ctx.rng
    ids = [0]
    samples = []
    for _ in range(ctx.n(60, 800)):
        k = rng.randint(1, 4)
        names = rng.sample(EPUB_NAMES, k)
        chapters = []
        for i, pat in enumerate(names):
            toks = []
            for _ in range(rng.randint(1, 3)):
                ids[0] += 1
                toks.append(f"T{ids[0]}x")
            chapters.append((pat.format(i=i), toks))
        opf_dir = rng.choice(["", "OEBPS", "OPS/pkg"])
        escaped = {i for i in range(k) if rng.random() < 0.25}
        data = epub_package(chapters, opf_dir, escaped)
        samples.append(data)
        want = [t for _, toks in chapters for t in toks]
        kind = "percent-encoded-href" if escaped else "literal-href"
        ctx.case(("epub", tuple(n for n, _ in chapters), opf_dir, tuple(sorted(escaped))), len(want) >= 3, "epub:" + kind)
        try:
            got = [w for w in epub_text(data).split() if is_tok(w)]
        except Exception as e:  # noqa
            ctx.finding("epub:raises", f"read_epub raised {type(e).__name__}: {e}", {"format": "epub", "chapters": [n for n, _ in chapters]})
            continue
        if got != want:
            missing = [n for n, toks in chapters if any(t not in got for t in toks)]
            esc_only = bool(missing) and all(i in escaped and quote_differs(chapters[i][0]) for i, (n, _) in enumerate(chapters) if n in missing)
            ctx.finding("epub:percent-encoded-href-chapter-lost" if esc_only else "epub:chapter-lost-or-reordered",
                        f"EPUB get_full_text(): chapter text lost, duplicated or out of spine order (expected {len(want)} tokens, got {len(got)}); "
                        f"affected content documents: {missing}" + (" (manifest href percent-encoded)" if esc_only else " (manifest href written literally)"),
                        {"format": "epub", "chapters": [[n, toks] for n, toks in chapters], "opf_dir": opf_dir,
                         "percent_encoded_hrefs": sorted(escaped), "got_tokens": got})
    return samples


def quote_differs(name: str) -> bool:
    from urllib.parse import quote
    return quote(name, safe="/") != name


# ----------------------------------------------------------------------------- environment sweep
def run_part(ctx):
    xs = xlsx_part(ctx)
    ms = mbox_part(ctx)
    ps = plain_part(ctx)
    es = epub_part(ctx)
    rng = ctx.rng
    n = ctx.n(25, 60)
    common.env_sweep(ctx, "xlsx-full-text", lambda d: xlsx_text(d), rng.sample(xs, min(n, len(xs))), describe=lambda d: f"xlsx package {len(d)} bytes")
    common.env_sweep(ctx, "mbox-full-text", lambda d: mbox_texts(d), rng.sample(ms, min(n, len(ms))), describe=lambda d: "mbox hex " + d.hex()[:400])
    common.env_sweep(ctx, "epub-full-text", epub_text, rng.sample(es, min(n, len(es))), describe=lambda d: f"epub package {len(d)} bytes")
    common.env_sweep(ctx, "plain-full-text", plain_text, rng.sample(ps, min(n, len(ps))), describe=lambda c: f"{c[1]} hex " + c[0].hex()[:400])
    # the repository's fixtures through the public entry point (docx, odt, rtf, pptx, xlsx, ods, odp, eml, mbox, html, txt ...)
    import sharepoint2text
    res = common.REPO / "sharepoint2text" / "tests" / "resources"
    exts = (".docx", ".odt", ".rtf", ".pptx", ".xlsx", ".ods", ".odp", ".odg", ".eml", ".mbox", ".html", ".txt", ".md", ".csv", ".epub")
    fx = [p for p in sorted(res.rglob("*")) if p.is_file() and p.suffix.lower() in exts and p.stat().st_size < 400_000][:40]

    def file_text(p):
        return [c.get_full_text() for c in sharepoint2text.read_file(str(p))]
    common.env_sweep(ctx, "fixtures-read_file-full-text", file_text, fx, describe=lambda p: str(p))
    ctx.extra["misc"] = {"xlsx_packages": len(xs), "mboxes": len(ms), "plain_files": len(ps), "env_sweep_fixtures": len(fx),
                         "plain_encodings": PLAIN_ENCODINGS}
