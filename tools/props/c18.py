"""C18 — SharePoint listing is complete, exact and fault-contained.

G: _SYSTEM_FIELDS, _GRAPH_API_BASE, _TOKEN_ENDPOINT_TEMPLATE dumped from the live module into Gen/C18Tables.v.
D: a simulated Graph server (fake request_func) driven by the same (tree, paging, filter, fault script)
   that the Coq model receives; compared: result list and order / exception class+status+url, request log,
   opened/closed responses, token and site-id caches, result of the retry.
Property oracle (independent Python reference, evaluated on the implementation's outputs): reference walk
of the tree, reference filter with exact (rational) timestamps, fault containment, retry completeness.
"""
from __future__ import annotations

import io
import json
import re
from datetime import datetime, timedelta, timezone
from fractions import Fraction
from urllib.error import HTTPError, URLError
from urllib.parse import quote as _quote

import common
from common import coq_str, coq_list, coq_opt, coq_bool, coq_Z, coq_eval_shards

SITE_URL = "https://contoso.sharepoint.com/sites/verif"
TENANT = "tenant-0001"
TOK = "tok-OK-1"
SITE = "contoso.sharepoint.com,11111111-aaaa,22222222-bbbb"
EXPAND = "?$expand=listItem($expand=fields)"

NAMES = ["a", "b c", "Report.PDF", "notes.txt", "x#y.docx", "100%.pdf", "q?x.md", "a&b.txt", "dir.d", "\u00dcn\u00ef.pdf",
         "+plus", "Docs", "Sub", "2024-Q1", "z.Pdf", "r\u00e9sum\u00e9.docx", "sp ace.xlsx", "\u0130.TXT", "semi;colon", "t.pdf"]
STAMPS = ["2024-01-15T10:30:00Z", "2024-01-15T10:30:00.5Z", "2024-01-15T10:30:00.900Z", "2024-01-15T10:30:00.1234567Z",
          "2024-01-15T10:30:01Z", "2024-01-15T10:29:59.999999Z", "2024-01-15T12:30:00.25+02:00", "2024-01-15T05:30:00-05:00",
          "2024-01-15T05:30:00.75-05:00", "2023-12-31T23:59:59.9999999Z", "2024-01-15T10:30:00+00:00",
          "2024-01-15T10:30:00.000001Z", "2024-03-01T00:00:00Z", "2024-01-15T10:30:00.12345Z"]
ODD_STAMPS = ["", "not a date", "2024-01-15", "2024-01-15T10:30:00", "2024-01-15T10:30:00.5", "2024-13-45T99:99:99Z",
              "2024-01-15T10:30:00.Z", "2024-01-15T10:30:00.12x4Z", "Z", ".", "2024-01-15T10:30:00.5+0200"]


# ----------------------------------------------------------------------------- generators
def gen_fields(rng, sysfields):
    r = rng.random()
    if r < 0.25:
        return ("absent", None)
    if r < 0.32:
        return ("listitem-not-object", None)
    if r < 0.40:
        return ("fields-not-object", None)
    keys = rng.sample(sorted(sysfields), rng.randint(0, 3)) + rng.sample(
        ["Project", "\u00dcn\u00ef Col", "@odata.etag", "@odata.foo", "odata", "Status", "id2", "@odat"], rng.randint(0, 4))
    rng.shuffle(keys)
    vals = ["v", 3, True, None, ["a", 1], {"k": "v"}, "\u00e9", 1.5]
    return ("fields", [(k, rng.choice(vals)) for k in keys])


def gen_facet(rng, mimes):
    """JSON value of a facet member the way Graph (or a sloppy proxy) sends it: {} / members / null / non-object"""
    r = rng.random()
    if r < 0.7:
        return ("obj", rng.choice(mimes), rng.random() < 0.5)     # {} when (None, False)
    return ("null",) if r < 0.88 else ("other",)


def facet_json(fc, inner):
    if fc[0] == "null":
        return None
    if fc[0] == "other":
        return True
    d = {}
    if fc[1] is not None:
        d["mimeType"] = fc[1]
    if fc[2]:
        d.update(inner)
    return d


def mk_folder(rng, name, fid, ch):
    return {"t": "folder", "name": name, "id": fid, "ffacet": gen_facet(rng, [None]),
            "also_file": gen_facet(rng, [None, "x/y"]) if rng.random() < 0.1 else None,
            "nulls": rng.random() < 0.5, "extras": rng.random() < 0.5, "ch": ch}


def gen_file(rng, ids, sysfields, stamps_pool):
    opt = lambda v, p=0.2: None if rng.random() < p else v
    fid = ids()
    nm = rng.choice(NAMES)
    stamp = lambda: rng.choice(stamps_pool) if rng.random() < 0.85 else rng.choice(ODD_STAMPS)
    return {"t": "file", "name": opt(nm, 0.08), "id": opt(fid, 0.05), "web": opt("https://contoso/" + fid),
            "dl": opt("https://dl/" + fid, 0.4), "size": opt(rng.choice([0, 1, 1234, 2 ** 40]), 0.3),
            "facet": gen_facet(rng, [None, None, "application/pdf", "text/plain"]), "extras": rng.random() < 0.5,
            "modified": opt(stamp(), 0.1), "created": opt(stamp(), 0.1), "fields": gen_fields(rng, sysfields),
            "nulls": rng.random() < 0.5}


def gen_tree(rng, ids, sysfields, depth, max_children, stamps_pool, healthy_ids=True):
    n = rng.randint(0, max_children)
    out = []
    for _ in range(n):
        r = rng.random()
        if r < 0.5 or depth == 0 and r < 0.8:
            out.append(gen_file(rng, ids, sysfields, stamps_pool))
        elif r < 0.85 and depth > 0:
            nm = rng.choice(NAMES)
            out.append(mk_folder(rng, nm if rng.random() > 0.04 else None, ids(),
                                 gen_tree(rng, ids, sysfields, depth - 1, max_children, stamps_pool)))
        elif r < 0.93:
            out.append({"t": "junk"})
        else:
            out.append({"t": "nondict", "v": rng.choice([5, "s", None, [1]])})
    return out


def make_ids(rng):
    c = [0]

    def ids():
        c[0] += 1
        return rng.choice(["01ABC", "id-", "b!x", "I D"]) + str(c[0])
    return ids


def folders_of_tree(tree):
    for n in tree:
        if n["t"] == "folder":
            yield n
            yield from folders_of_tree(n["ch"])


def tree_size(tree):
    return sum(1 + (tree_size(n["ch"]) if n["t"] == "folder" else 0) for n in tree)


def gen_paging(rng, tree, base, site, mode):
    """for root (None) and every folder id: list of (n, link)"""
    cnt = [0]

    def link(oid):
        cnt[0] += 1
        k = rng.random()
        if k < 0.5:
            return f"{base}/sites/{site}/drive/items/{oid or 'root'}/children{EXPAND}&$skiptoken=P{cnt[0]}"
        if k < 0.8:
            return f"https://graph.microsoft.com/v1.0/next page/{cnt[0]}?tok=\u00e4"
        return f"next:{cnt[0]}"
    paging = {}
    for oid, ch in [(None, tree)] + [(f["id"], f["ch"]) for f in folders_of_tree(tree)]:
        if mode == "single" or rng.random() < 0.25:
            paging[oid] = []
            continue
        if mode == "one":
            paging[oid] = [(1, link(oid)) for _ in range(len(ch) + rng.randint(-1, 1))]
            continue
        cuts, left = [], len(ch)
        for _ in range(rng.randint(1, 4)):
            n = rng.choice([0, 1, 1, 2, 3, left, left + 2])
            cuts.append((n, link(oid)))
            left = max(0, left - n)
        paging[oid] = cuts
    return paging


def make_cyclic(rng, paging):
    """let one listing's nextLink chain run into a page it already served (cycle inside one folder listing)"""
    cands = [oid for oid, cuts in paging.items() if len(cuts) >= 2]
    if not cands:
        return False
    oid = rng.choice(cands)
    cuts = paging[oid]
    j = rng.randrange(1, len(cuts))
    i = rng.randrange(0, j)
    cuts[j] = (cuts[j][0], cuts[i][1])
    return True


def stamp_exact(x):
    """Exact instant (Fraction of seconds since epoch, UTC) of a Graph-style timestamp, or 'naive', or None."""
    if not isinstance(x, str):
        return None
    m = re.fullmatch(r"(\d{4})-(\d\d)-(\d\d)T(\d\d):(\d\d):(\d\d)(?:\.(\d+))?(Z|[+-]\d\d:\d\d)?", x)
    if not m:
        return None
    y, mo, d, h, mi, sec, frac, tz = m.groups()
    try:
        base = datetime(int(y), int(mo), int(d), int(h), int(mi), int(sec))
    except ValueError:
        return None
    val = Fraction(int((base - datetime(1970, 1, 1)) // timedelta(seconds=1)))
    if frac:
        val += Fraction(int(frac), 10 ** len(frac))
    if tz is None:
        return "naive"
    if tz != "Z":
        sign = 1 if tz[0] == "+" else -1
        if int(tz[1:3]) > 23 or int(tz[4:6]) > 59:
            return None
        val -= sign * (int(tz[1:3]) * 3600 + int(tz[4:6]) * 60)
    return val


def dt_exact(d):
    if d.tzinfo is None:
        return "naive"
    us = (d.replace(tzinfo=None) - datetime(1970, 1, 1)) // timedelta(microseconds=1)
    off = d.utcoffset() // timedelta(microseconds=1)
    return Fraction(us - off, 10 ** 6)


def near_miss_names(ext):
    """names that almost / barely (do not) end with the extension: the suffix test is literal, case-insensitive"""
    letters = ext.lstrip(".")
    out = [letters, "x" + letters, "scan_" + letters, "scan-" + letters, ext, "a" + ext, "a" + ext + "x", "a" + ext.upper(),
           "a" + ext.swapcase(), "a" + ext.replace(".", "_"), "a" + ext.replace(".", ","), "a." + letters[:-1], "a." + letters + ".bak",
           ext + ext, "b" + ext[1:] if len(ext) > 1 else "b", "\n" + letters, "a\n" + ext]
    return [x for x in out if x and "/" not in x]


def plant_near_misses(rng, tree, exts):
    """rename some files so that the library contains near misses of the filter's extensions"""
    files = []

    def coll(t):
        for n in t:
            if n["t"] == "file":
                files.append(n)
            elif n["t"] == "folder":
                coll(n["ch"])
    coll(tree)
    for n in rng.sample(files, min(len(files), rng.randint(1, 4))):
        n["name"] = rng.choice(near_miss_names(rng.choice(exts)))


def gen_filter(rng, tree, kind):
    stamps = []

    def coll(t):
        for n in t:
            if n["t"] == "file":
                stamps.extend(x for x in (n["created"], n["modified"]) if isinstance(stamp_exact(x), Fraction))
            elif n["t"] == "folder":
                coll(n["ch"])
    coll(tree)

    def bound():
        if stamps and rng.random() < 0.85:
            v = stamp_exact(rng.choice(stamps))
            us = int(v * 10 ** 6)  # floor to microseconds
            us += rng.choice([0, 0, 0, 1, -1, 500000, -500000, 100, -999999, 1000000])
        else:
            us = 1705314600 * 10 ** 6
        tz = rng.choice([timezone.utc, timezone.utc, timezone(timedelta(hours=2)), timezone(timedelta(hours=-5, minutes=-30))])
        d = datetime(1970, 1, 1, tzinfo=timezone.utc) + timedelta(microseconds=us)
        d = d.astimezone(tz)
        if kind == "naive" and rng.random() < 0.5:
            d = d.replace(tzinfo=None)
        return d
    f = {"created_after": None, "created_before": None, "modified_after": None, "modified_before": None,
         "folder_paths": [], "path_patterns": [], "extensions": []}
    if kind == "edge":
        # one bound placed exactly on (or one microsecond next to) the timestamp of one file, nothing else
        fld = rng.choice(["created", "modified"])
        own = []

        def coll2(t):
            for n in t:
                if n["t"] == "file" and isinstance(stamp_exact(n[fld]), Fraction):
                    own.append(n[fld])
                elif n["t"] == "folder":
                    coll2(n["ch"])
        coll2(tree)
        if own:
            stamps[:] = [rng.choice(own)]
            d = None
            for _ in range(20):
                d = bound()
                if abs(dt_exact(d) - stamp_exact(stamps[0])) <= Fraction(1, 10 ** 6):
                    break
            f[fld + "_" + rng.choice(["after", "before"])] = d
        return f
    if kind in ("dates", "mixed", "naive"):
        for k in ("created_after", "created_before", "modified_after", "modified_before"):
            if rng.random() < (0.45 if kind != "mixed" else 0.25):
                f[k] = bound()
    if kind in ("ext", "mixed") and rng.random() < 0.8:
        f["extensions"] = rng.sample([".pdf", ".PDF", ".Txt", ".docx", "", "df", ".xlsx", "i.txt", ".md", ".a", ".tar.gz", ".gz",
                                      ".c++", "(1).pdf", ".p?f", ".[x]", "_pdf", ".t*t", ".d|f", "$", "\\.pdf"], rng.randint(1, 3))
        real = [e for e in f["extensions"] if e]
        if real and rng.random() < 0.8:
            plant_near_misses(rng, tree, real)
    if kind in ("pat", "mixed") and rng.random() < 0.8:
        f["path_patterns"] = rng.sample(["*.pdf", "*.PDF", "Docs/*", "*/*", "*/Sub/*", "[a-c]*", "?", "*b c*", "Docs/*.txt",
                                         "*.d/*", "*", "a", "*/*/*", "*[!f]", "Docs*", "*\u00ef.pdf"], rng.randint(1, 3))
    if kind in ("paths", "mixed") and rng.random() < 0.8:
        fpaths = []

        def paths(t, pre):
            for n in t:
                if n["t"] in ("folder", "file") and n["name"] is not None:
                    p = pre + "/" + n["name"] if pre else n["name"]
                    fpaths.append(p)
                    if n["t"] == "folder":
                        paths(n["ch"], p)
        paths(tree, "")
        cands = fpaths + ["missing", "Docs/none", "/", "//"]
        chosen = rng.sample(cands, min(len(cands), rng.randint(1, 3)))
        deco = lambda p: rng.choice([p, p, "/" + p, p + "/", "/" + p + "//"])
        f["folder_paths"] = [deco(p) for p in chosen]
    return f


QNAMES = ["Shared Documents", "R&D (2024)", "\u00dcbung #1", "100% done", "a+b", "semi;colon=1", "q?mark", "caf\u00e9 \u65e5\u672c",
          "It's", "[brackets]", "a%20b"]


def gen_qcase(rng, ids, sysfields, pool):
    """library whose folder names need URL quoting + a filter restricted to some of those folders by path,
    with full-path patterns: the reference listing must come back with the folder path as given (unquoted)"""
    def files(k):
        out = []
        for nm in rng.sample(NAMES, k):
            f = gen_file(rng, ids, sysfields, pool)
            f["name"] = nm
            out.append(f)
        return out
    top = rng.sample(QNAMES, rng.randint(2, 3))
    tree = files(rng.randint(0, 2))
    paths = []
    for nm in top:
        sub = rng.choice([x for x in QNAMES if x != nm])
        inner = files(rng.randint(1, 2))
        ch = files(rng.randint(1, 3)) + [mk_folder(rng, sub, ids(), inner)]
        rng.shuffle(ch)
        tree.append(mk_folder(rng, nm, ids(), ch))
        paths += [nm, nm + "/" + sub]
    rng.shuffle(tree)
    chosen = rng.sample(paths, rng.randint(1, 3)) + (["nope/" + top[0]] if rng.random() < 0.3 else [])
    deco = lambda p: rng.choice([p, p, p, "/" + p, p + "/", "/" + p + "/"])
    f = {"created_after": None, "created_before": None, "modified_after": None, "modified_before": None,
         "folder_paths": [deco(p) for p in chosen], "path_patterns": [], "extensions": []}
    r = rng.random()
    if r < 0.4:
        f["path_patterns"] = rng.sample([chosen[0] + "/*", "*/*", "*.pdf", top[0] + "*", "*" + top[-1][-3:] + "/*", "*/*/*"],
                                        rng.randint(1, 2))
    elif r < 0.6:
        f["extensions"] = rng.sample([".pdf", ".TXT", ".docx"], 2)
        plant_near_misses(rng, tree, f["extensions"])
    return tree, f


FAULTS = [("http", 500), ("http", 404), ("http", 401), ("http", 429), ("url",), ("status", 500), ("status", 301),
          ("status", 199), ("status", 300), ("status", None), ("badjson", b"not json"), ("badjson", b"{\"value\": [}"),
          ("badjson", b""), ("nonobj", b"[]"), ("nonobj", b"null"), ("nonobj", b"5"), ("nonobj", b"\"x\""),
          ("badutf8", b"\xff\xfe{"),
          ("os", "timeout"), ("os", "reset"), ("os", "remote"), ("read", "timeout"), ("read", "incomplete"),
          ("badpage", b'{"value": null}'), ("badpage", b'{"value": 5}'), ("badpage", b'{"value": "abc"}'),
          ("badpage", b'{"value": {"a": {"file": {}}}}'), ("badpage", b'{"value": [], "@odata.nextLink": 5}'),
          ("badpage", b'{"@odata.nextLink": ["x"]}')]


# ----------------------------------------------------------------------------- simulated Graph server
def item_json(n):
    if n["t"] == "file":
        d = {}
        for key, fld in (("name", "name"), ("id", "id"), ("webUrl", "web"), ("@microsoft.graph.downloadUrl", "dl"),
                         ("size", "size"), ("lastModifiedDateTime", "modified"), ("createdDateTime", "created")):
            if n[fld] is not None:
                d[key] = n[fld]
            elif n.get("nulls") and key != "size":
                d[key] = None            # JSON null instead of a missing key
        d["file"] = facet_json(n["facet"], {"hashes": {"quickXorHash": "abc="}})
        if n.get("extras"):
            d.update({"eTag": "\"{1},2\"", "parentReference": {"driveId": "b!x", "path": "/drive/root:"},
                      "fileSystemInfo": {"createdDateTime": "2024-01-01T00:00:00Z"}, "@odata.type": "#microsoft.graph.driveItem"})
        kind, fl = n["fields"]
        if kind == "listitem-not-object":
            d["listItem"] = "x"
        elif kind == "fields-not-object":
            d["listItem"] = {"fields": [1]}
        elif kind == "fields":
            d["listItem"] = {"id": "7", "fields": {k: v for k, v in fl}}
        return d
    if n["t"] == "folder":
        d = {"folder": facet_json(n["ffacet"], {"childCount": len(n["ch"])})}
        if n.get("extras"):
            d.update({"cTag": "c", "parentReference": {"id": "p"}, "size": 0, "webUrl": "https://contoso/f"})
        if n["name"] is not None:
            d["name"] = n["name"]
        elif n.get("nulls"):
            d["name"] = None
        if n["id"] is not None:
            d["id"] = n["id"]
        if n.get("also_file") is not None:
            d["file"] = facet_json(n["also_file"], {"hashes": {}})
        return d
    if n["t"] == "junk":
        return {"name": "pkg", "id": "junk", "package": {"type": "oneNote"}}
    return n["v"]


def children_url(base, site, drive, oid):
    if drive is None:
        b = f"{base}/sites/{site}/drive/root/children" if oid is None else f"{base}/sites/{site}/drive/items/{oid}/children"
    else:
        b = (f"{base}/sites/{site}/drives/{drive}/root/children" if oid is None
             else f"{base}/sites/{site}/drives/{drive}/items/{oid}/children")
    return b + EXPAND


def path_url(base, site, drive, p):
    enc = _quote(p, safe="/")
    if drive is None:
        return f"{base}/sites/{site}/drive/root:/{enc}"
    return f"{base}/sites/{site}/drives/{drive}/root:/{enc}"


def build_table(base, site_api, site, drive, tree, paging, fin=()):
    table = {site_api: {"id": site, "displayName": "verif"}}

    def add(url, obj):
        if url not in table:        # first entry wins, like the model's assoc
            table[url] = obj

    def folder(oid, ch):
        url = children_url(base, site, drive, oid)
        items = [item_json(n) for n in ch]
        for n, link in paging.get(oid, []):
            add(url, {"value": items[:n], "@odata.nextLink": link})
            url, items = link, items[n:]
        add(url, {"value": items, "@odata.nextLink": ""} if oid in fin else {"value": items})   # present but empty: the end
    folder(None, tree)

    def rec(t):
        for n in t:
            if n["t"] == "folder":
                folder(n["id"], n["ch"])
                rec(n["ch"])
    rec(tree)

    def paths(t, pre):
        for n in t:
            if n["t"] == "folder" and n["name"] is not None:
                p = pre + "/" + n["name"] if pre else n["name"]
                o = {"name": n["name"], "folder": {}}
                if n["id"] is not None:
                    o["id"] = n["id"]
                add(path_url(base, site, drive, p), o)
                paths(n["ch"], p)
            elif n["t"] == "file" and n["name"] is not None:
                p = pre + "/" + n["name"] if pre else n["name"]
                o = {"name": n["name"], "file": {}}
                if n["id"] is not None:
                    o["id"] = n["id"]
                add(path_url(base, site, drive, p), o)
    paths(tree, "")
    return table


class FakeResp:
    def __init__(self, body, status, via_getcode, read_exc=None):
        self._body, self._status, self.closes, self._read_exc = body, status, 0, read_exc
        if not via_getcode:
            self.status = status

    def getcode(self):
        return self._status

    def read(self, amt=None):      # http.client.HTTPResponse.read(amt=None)
        if self._read_exc is not None:
            raise self._read_exc
        return self._body

    def close(self):
        self.closes += 1


class FakeFp(io.BytesIO):
    def __init__(self, b):
        super().__init__(b)
        self.closes = 0

    def close(self):
        self.closes += 1
        super().close()


class Server:
    def __init__(self, table, token_url, faults, rng_bits):
        self.table, self.token_url, self.faults = table, token_url, dict(faults)
        self.n = 0
        self.log = []
        self.handed = []          # response-like objects handed to the client (FakeResp or FakeFp of an HTTPError)
        self.bits = rng_bits

    def ok(self, body, status=200):
        r = FakeResp(body, status, via_getcode=(self.bits >> (self.n % 16)) & 1 == 1)
        self.handed.append(r)
        return r

    def http_error(self, url, code):
        fp = FakeFp(b'{"error": {"code": "x"}}')
        self.handed.append(fp)
        raise HTTPError(url, code, "msg", {}, fp)

    def __call__(self, request, timeout=None):
        k = self.n
        if k >= 3000:       # watchdog: no generated library needs that many requests; an unguarded loop would never stop
            raise _Budget()
        self.n += 1
        url = request.full_url
        self.log.append((request.get_method() == "POST", url))
        if k in self.faults:
            f = self.faults[k]
            if f[0] == "http":
                self.http_error(url, f[1])
            if f[0] == "url":
                raise URLError("connection refused")
            if f[0] == "status":
                return self.ok(b"{}", f[1])
            if f[0] == "os":
                import http.client
                raise {"timeout": TimeoutError("timed out"), "reset": ConnectionResetError("reset by peer"),
                       "remote": http.client.RemoteDisconnected("closed without response")}[f[1]]
            if f[0] == "read":
                import http.client
                r = FakeResp(b"", 200, False, read_exc=(TimeoutError("read timed out") if f[1] == "timeout"
                                                        else http.client.IncompleteRead(b"ab")))
                self.handed.append(r)
                return r
            return self.ok(f[1])
        if url == self.token_url:
            return self.ok(json.dumps({"token_type": "Bearer", "access_token": TOK}).encode())
        if request.get_header("Authorization") != "Bearer " + TOK:
            self.http_error(url, 401)
        if url in self.table:
            return self.ok(json.dumps(self.table[url]).encode("utf-8"))
        self.http_error(url, 404)

    def opened_closed(self):
        return len(self.handed), sum(1 for r in self.handed if r.closes > 0)


# ----------------------------------------------------------------------------- reference (property oracle)
def canon_val(v):
    return json.dumps(v, sort_keys=True, ensure_ascii=True)


def ref_custom(n, sysfields):
    kind, fl = n["fields"]
    if kind != "fields":
        return None
    c = [(k, canon_val(v)) for k, v in fl if k not in sysfields and not k.startswith("@odata")]
    return c or None


def ref_meta(n, parent, sysfields):
    return {"name": n["name"] or "", "id": n["id"] or "", "web": n["web"] or "", "dl": n["dl"], "size": n["size"],
            "mime": n["facet"][1] if n["facet"][0] == "obj" else None, "modified": n["modified"], "created": n["created"],
            "parent": parent or None, "custom": ref_custom(n, sysfields)}


def ref_walk(tree, parent, sysfields):
    out = [ref_meta(n, parent, sysfields) for n in tree if n["t"] == "file"]
    for n in tree:
        if n["t"] == "folder":
            nm = n["name"] or ""
            out += ref_walk(n["ch"], (parent + "/" + nm) if parent else nm, sysfields)
    return out


def ref_matches(f, m):
    """'naive' when the comparison is undefined (naive vs aware), else bool."""
    import fnmatch
    for after, before, field in ((f["created_after"], f["created_before"], m["created"]),
                                 (f["modified_after"], f["modified_before"], m["modified"])):
        if after is None and before is None:
            continue
        if not field:
            return False
        v = stamp_exact(field)
        if v is None:
            # not a Graph-format timestamp: the property is silent (datetime.fromisoformat may or may not accept
            # it, e.g. "2024-01-15" parses to a naive datetime); the reference is undefined, D still compares
            return "naive"
        for b in (after, before):
            if b is not None and ((dt_exact(b) == "naive") != (v == "naive")):
                return "naive"
        if v == "naive":
            return "naive"   # boundary: Graph timestamps always carry a zone
        if after is not None and not (v >= dt_exact(after)):
            return False
        if before is not None and not (v < dt_exact(before)):
            return False
    if f["extensions"] and not any(m["name"].lower().endswith(e.lower()) for e in f["extensions"]):
        return False
    if f["path_patterns"]:
        full = (m["parent"] + "/" + m["name"]) if m["parent"] else m["name"]
        if not any(fnmatch.fnmatch(full, p) for p in f["path_patterns"]):
            return False
    return True


def ref_resolve(tree, path):
    segs = path.strip("/").split("/")
    cur = tree
    node = None
    for sname in segs:
        node = next((n for n in cur if n["t"] in ("folder", "file") and n["name"] == sname), None)
        if node is None or node["t"] != "folder":
            return None if node is None or sname is not segs[-1] else node
        cur = node["ch"]
    return node


def ref_listing(tree, flt, sysfields):
    """expected result of the call, or None when the reference is undefined (boundary cases)."""
    if flt is None:
        return ref_walk(tree, "", sysfields)
    out = []
    targets = flt["folder_paths"] or [None]
    for p in targets:
        if p:
            if not p.strip("/"):
                return None            # "/" -> root:/ url of the drive root itself: outside the simulated server
            node = ref_resolve(tree, p)
            if node is None or node["t"] != "folder":
                continue
            files = ref_walk(node["ch"], p, sysfields)
        else:
            files = ref_walk(tree, "", sysfields)
        for m in files:
            r = ref_matches(flt, m)
            if r == "naive":
                return None
            if r:
                out.append(m)
    return out


def unique_names(tree):
    names = [n["name"] for n in tree if n["t"] in ("folder", "file")]
    named = [x for x in names if x is not None]
    return len(named) == len(set(named)) and all(unique_names(n["ch"]) for n in tree if n["t"] == "folder")


# ----------------------------------------------------------------------------- running the implementation
def meta_canon(m):
    cf = m.custom_fields
    return {"name": m.name, "id": m.id, "web": m.web_url, "dl": m.download_url, "size": m.size, "mime": m.mime_type,
            "modified": m.last_modified, "created": m.created, "parent": m.parent_path,
            "custom": None if cf is None else [(k, canon_val(v)) for k, v in cf.items()]}


def make_filter(client_mod, f):
    return client_mod.FileFilter(created_after=f["created_after"], created_before=f["created_before"],
                                 modified_after=f["modified_after"], modified_before=f["modified_before"],
                                 folder_paths=list(f["folder_paths"]), path_patterns=list(f["path_patterns"]),
                                 extensions=list(f["extensions"]))


def call(client_mod, client, flt, drive, snap=lambda: None):
    """run the listing; `snap` is evaluated while a raised exception is still alive (an HTTPError that is only
    closed by garbage collection must not count as closed by the client)"""
    from sharepoint2text.sharepoint_io.exceptions import SharePointAuthError, SharePointRequestError
    try:
        via = flt.get("_via") if flt else None
        if flt is None:
            r = client.list_all_files()
        elif via:      # the convenience wrappers list_files_created_since / list_files_modified_since
            meth = client.list_files_created_since if via == "created" else client.list_files_modified_since
            r = list(meth(flt[via + "_after"], folder_paths=list(flt["folder_paths"]) or None,
                          extensions=list(flt["extensions"]) or None, drive_id=drive))
        else:
            r = list(client.list_files_filtered(make_filter(client_mod, flt), drive_id=drive))
        snap()
        bad = [m for m in r if not all(isinstance(x, str) for x in (m.name, m.id, m.web_url))]
        if bad:
            return ("other", "NonStrField", f"metadata with a non-str name/id/web_url: {bad[0]!r}"[:200])
        return ("ok", [meta_canon(m) for m in r])
    except SharePointRequestError as e:
        snap()
        return ("request", e.status_code, e.url)
    except SharePointAuthError:
        snap()
        return ("auth",)
    except TypeError as e:
        snap()
        return ("other", "TypeError", str(e)) if "offset-naive" not in str(e) else ("typeerror",)
    except Exception as e:  # noqa
        snap()
        return ("other", type(e).__name__, str(e)[:200])


def run_impl(client_mod, table, token_url, flt, drive, faults, bits):
    creds = client_mod.EntraIDAppCredentials(tenant_id=TENANT, client_id="cid", client_secret="sec")
    srv = Server(table, token_url, faults, bits)
    client = client_mod.SharePointRestClient(SITE_URL, creds, request_func=srv)
    counts = []
    res = call(client_mod, client, flt, drive, snap=lambda: counts.append(srv.opened_closed()))
    opened, closed = counts[0]
    obs = {"faults": list(faults), "result": res, "log": list(srv.log), "opened": opened, "closed": closed,
           "tok": client._access_token, "sid": client._site_id}
    obs["retry"] = call(client_mod, client, flt, drive)
    return obs


# ----------------------------------------------------------------------------- Coq terms
def c_ostr(x):
    return coq_opt(x, coq_str)


def c_facet(fc):
    if fc[0] == "null":
        return "FcNull"
    if fc[0] == "other":
        return "FcOther"
    return f"(FcObj {c_ostr(fc[1])} {coq_bool(fc[2])})"


def c_fitem(n):
    kind, fl = n["fields"]
    fields = "None" if kind != "fields" else "(Some " + coq_list([f"({coq_str(k)}, {coq_str(canon_val(v))})" for k, v in fl]) + ")"
    return ("{| i_name := %s; i_id := %s; i_web := %s; i_dl := %s; i_size := %s; i_facet := %s; i_modified := %s; "
            "i_created := %s; i_fields := %s |}" % (c_ostr(n["name"]), c_ostr(n["id"]), c_ostr(n["web"]), c_ostr(n["dl"]),
                                                   coq_opt(n["size"], coq_Z), c_facet(n["facet"]), c_ostr(n["modified"]),
                                                   c_ostr(n["created"]), fields))


def c_node(n):
    if n["t"] == "file":
        return f"File {c_fitem(n)}"
    if n["t"] == "folder":
        fc = f"({c_facet(n['ffacet'])}, {coq_opt(n['also_file'], c_facet)})"
        return f"Folder {c_ostr(n['name'])} {c_ostr(n['id'])} {fc} {coq_list([c_node(c) for c in n['ch']])}"
    return "JunkDict" if n["t"] == "junk" else "NonDict"


def c_meta(m):
    cust = "None" if m["custom"] is None else "(Some " + coq_list([f"({coq_str(k)}, {coq_str(v)})" for k, v in m["custom"]]) + ")"
    return ("{| m_name := %s; m_id := %s; m_web := %s; m_dl := %s; m_size := %s; m_mime := %s; m_modified := %s; "
            "m_created := %s; m_parent := %s; m_custom := %s |}" % (
                coq_str(m["name"]), coq_str(m["id"]), coq_str(m["web"]), c_ostr(m["dl"]), coq_opt(m["size"], coq_Z),
                c_ostr(m["mime"]), c_ostr(m["modified"]), c_ostr(m["created"]), c_ostr(m["parent"]), cust))


def c_res(r):
    if r[0] == "ok":
        return "(Ok " + coq_list([c_meta(m) for m in r[1]]) + ")"
    if r[0] == "request":
        return f"(Raise (RequestError {coq_opt(r[1], coq_Z)} {coq_str(r[2])}))"
    if r[0] == "auth":
        return "(Raise AuthError)"
    if r[0] == "typeerror":
        return "(Raise PyTypeError)"
    return None


def c_dt(d):
    if d is None:
        return "None"
    us = (d.replace(tzinfo=None) - datetime(1970, 1, 1)) // timedelta(microseconds=1)
    off = None if d.utcoffset() is None else d.utcoffset() // timedelta(microseconds=1)
    return "(Some {| dt_local := %s; dt_off := %s |})" % (coq_Z(us), coq_opt(off, coq_Z))


def c_fault(f):
    if f[0] == "http":
        return f"RHttpError {coq_Z(f[1])}"
    if f[0] == "url":
        return "RUrlError"
    if f[0] == "status":
        return f"ROk {coq_opt(f[1], coq_Z)} (BObj (page_obj [] None))"
    if f[0] == "os":
        return "ROsError"
    if f[0] == "read":
        return "RReadError"
    if f[0] == "badpage":
        return ("ROk (Some 200%Z) (BObj {| o_value := []; o_next := None; o_id := None; o_token := None; "
                "o_folder := false; o_ok := false |})")
    return "ROk (Some 200%Z) " + {"badjson": "BBadJson", "nonobj": "BNonObj", "badutf8": "BBadUtf8"}[f[0]]


def c_filter(f):
    if f is None:
        return "None"
    return ("(Some {| created_after := %s; created_before := %s; modified_after := %s; modified_before := %s; "
            "folder_paths := %s; path_patterns := %s; extensions := %s |})" % (
                c_dt(f["created_after"]), c_dt(f["created_before"]), c_dt(f["modified_after"]), c_dt(f["modified_before"]),
                coq_list([coq_str(x) for x in f["folder_paths"]]), coq_list([coq_str(x) for x in f["path_patterns"]]),
                coq_list([coq_str(x) for x in f["extensions"]])))


def c_obs(o):
    r, r2 = c_res(o["result"]), c_res(o["retry"])
    if r is None or r2 is None:
        return None
    return ("{| ob_faults := %s; ob_result := %s; ob_log := %s; ob_opened := %s; ob_closed := %s; ob_tok := %s; "
            "ob_sid := %s; ob_retry := %s; ob_full := %s |}" % (
                coq_list([f"({k}%nat, {c_fault(f)})" for k, f in o["faults"]]), r,
                coq_list([f"({coq_bool(t)}, {coq_str(u)})" for t, u in o["log"]]), f"{o['opened']}%nat", f"{o['closed']}%nat",
                c_ostr(o["tok"]), c_ostr(o["sid"]), r2,
                coq_bool(o["result"][0] != "typeerror" and o["retry"][0] != "typeerror")))


class Recorder:
    """stand-ins for the `fnmatch` and `datetime` names of the client module: same behaviour, calls recorded"""
    def __init__(self):
        self.glob = {}
        self.iso = {}
        rec = self

        class _Fn:
            @staticmethod
            def fnmatch(name, pat):
                import fnmatch as real
                v = real.fnmatch(name, pat)
                rec.glob.setdefault(name, {})[pat] = v
                return v

        class _Dt(datetime):
            @classmethod
            def fromisoformat(cls, x):
                try:
                    v = datetime.fromisoformat(x)
                except ValueError:
                    if isinstance(x, str):
                        rec.iso[x] = None
                    raise
                if isinstance(x, str):
                    rec.iso[x] = v
                return v
        self.fn, self.dt = _Fn, _Dt


def c_oracles(rec, lowers, quotes):
    return ("{| t_lower := %s; t_glob := %s; t_iso := %s; t_quote := %s |}" % (
        coq_list([f"({coq_str(k)}, {coq_str(k.lower())})" for k in sorted(lowers)]),
        coq_list(["(%s, %s)" % (coq_str(p), coq_list([f"({coq_str(q)}, {coq_bool(v)})" for q, v in d.items()]))
                  for p, d in rec.glob.items()]),
        coq_list([f"({coq_str(k)}, {c_dt(v)})" for k, v in rec.iso.items()]),
        coq_list([f"({coq_str(k)}, {coq_str(_quote(k, safe='/'))})" for k in sorted(quotes)])))


def all_names(tree):
    for n in tree:
        if n["t"] in ("file", "folder"):
            yield n["name"] or ""
            if n["t"] == "folder":
                yield from all_names(n["ch"])


def all_paths(tree, pre=""):
    for n in tree:
        if n["t"] in ("file", "folder") and n["name"] is not None:
            p = pre + "/" + n["name"] if pre else n["name"]
            yield p
            if n["t"] == "folder":
                yield from all_paths(n["ch"], p)


# ----------------------------------------------------------------------------- G
def gen_tables(ctx, client_mod):
    sysfields = sorted(client_mod._SYSTEM_FIELDS)
    tmpl = client_mod._TOKEN_ENDPOINT_TEMPLATE
    pre, _, post = tmpl.partition("{tenant_id}")
    txt = "(* GENERATED on every check run from the live sharepoint_io.client module — do not edit. *)\n"
    txt += "From S2T Require Import Lib.PyStr.\n\n"
    txt += "Definition system_fields : list str := " + coq_list([coq_str(k) for k in sysfields]) + ".\n"
    txt += f"Definition graph_base : str := {coq_str(client_mod._GRAPH_API_BASE)}.\n"
    txt += f"Definition token_prefix : str := {coq_str(pre)}.\nDefinition token_suffix : str := {coq_str(post)}.\n"
    txt += f"Definition token_template_has_tenant : bool := {coq_bool('{tenant_id}' in tmpl)}.\n"
    ctx.gen_write("Gen/C18Tables.v", txt)
    return set(sysfields), client_mod._GRAPH_API_BASE, tmpl.format(tenant_id=TENANT)


# ----------------------------------------------------------------------------- oracle on one observation
def fault_expect(f, is_tok, url):
    if f[0] == "http":
        return ("request", f[1], url)
    if f[0] == "url":
        return ("request", None, url)
    if f[0] == "status":
        return ("request", f[1], url)
    if f[0] in ("os", "read"):
        return ("request", None, url)
    return ("auth",) if is_tok else ("request", None, url)


def judge(ctx, case, o, healthy, expected):
    """property oracle on the implementation's behaviour; case = dict with tree/filter/..., o = observation"""
    rp = {"tree": case["tree"], "paging": {str(k): v for k, v in case["paging"].items()}, "filter": repr(case["filter"]),
          "drive": case["drive"], "faults": o["faults"], "result": o["result"], "retry": o["retry"],
          "opened": o["opened"], "closed": o["closed"], "site_url": SITE_URL}
    res = o["result"]
    if res[0] == "other":
        body = o["faults"][0][1] if o["faults"] else None
        key = f"raises-{res[1]}"
        if res[1] == "NonStrField":
            key = "null-name"
        elif body and body[0] in ("os", "read"):
            key = "transport-oserror"
        elif body and body[0] == "badpage":
            key = "malformed-listing-body"
        elif body and body[0] == "nonobj":
            key = "json-not-object"
        elif body and body[0] == "badutf8" and res[1] == "UnicodeDecodeError":
            key = "token-body-undecodable"
        ctx.finding(key, f"listing raised {res[1]} ({res[2]}) instead of an error of the client's family; faults={o['faults']}", rp)
        return
    if o["opened"] != o["closed"]:
        kinds = {f[0] for _, f in o["faults"]}
        ctx.finding("httperror-not-closed" if "http" in kinds else "response-not-closed",
                    f"{o['opened']} responses opened, {o['closed']} closed after the call; faults={o['faults']}", rp)
    if o["tok"] not in (None, TOK) or o["sid"] not in (None, SITE):
        ctx.finding("cache-from-failure", f"cache holds a value no successful response carried: {o['tok']!r} {o['sid']!r}", rp)
    if not o["faults"]:
        if expected is not None and res != ("ok", expected):
            key = "folder-paths-listing" if case["filter"] and case["filter"]["folder_paths"] else "listing-mismatch"
            if res[0] == "ok" and case["filter"] and any(case["filter"][k] for k in (
                    "created_after", "created_before", "modified_after", "modified_before")):
                # does the difference vanish at whole-second resolution?  then it is the sub-second truncation
                key = "subsecond-truncation" if _explained_by_truncation(case, res[1], expected) else "filter-mismatch"
            ctx.finding(key, f"listing differs from the reference walk/filter: got {len(res[1]) if res[0] == 'ok' else res} "
                        f"items, expected {len(expected)}", dict(rp, expected=expected))
        if o["retry"] != res:
            ctx.finding("second-call-differs", "calling again on the same client gives a different result", rp)
        return
    if len(o["faults"]) == 1 and healthy is not None and healthy["result"][0] == "ok":
        k0, f = o["faults"][0]
        if k0 < len(healthy["log"]):
            is_tok, url = healthy["log"][k0]
            # _get_folder_by_path: folder not found / the answer is an object that is not a folder
            swallowed = ((f == ("http", 404) or f[0] == "badpage") and "/root:/" in url)
            if not swallowed:
                want = fault_expect(f, is_tok, url)
                if res != want:
                    ctx.finding(f"fault-{f[0]}-at-{'token' if is_tok else 'api'}",
                                f"fault {f} at request {k0} ({url}): expected {want}, got {res}", rp)
                if o["retry"] != healthy["result"]:
                    ctx.finding("retry-incomplete", f"retry after fault {f} at request {k0} does not return the complete listing", rp)


def _explained_by_truncation(case, got, expected):
    def trunc(x):
        return re.sub(r"\.\d+", "", x) if isinstance(x, str) else x
    import copy
    t2 = copy.deepcopy(case["tree"])

    def rec(t):
        for n in t:
            if n["t"] == "file":
                n["created"], n["modified"] = trunc(n["created"]), trunc(n["modified"])
            elif n["t"] == "folder":
                rec(n["ch"])
    rec(t2)
    exp2 = ref_listing(t2, case["filter"], case["sysfields"])
    if exp2 is None:
        return False
    strip = lambda ms: [dict(m, created=trunc(m["created"]), modified=trunc(m["modified"])) for m in ms]
    return strip(got) == strip(exp2)


# ----------------------------------------------------------------------------- repeating nextLink (no loop guard)
class _Budget(Exception):
    """raised by the simulated server when the client exceeds the request budget (watchdog of the replay)"""


def cyclic_replay(client_mod, base, site_api, token_url, cycle, budget):
    """root listing whose pages form a cycle of the given length; returns (outcome, requests made)"""
    root = children_url(base, SITE, None, None)
    urls = [root] + [f"{base}/cycle/{i}" for i in range(1, cycle)]
    table = {site_api: {"id": SITE}}
    for i, u in enumerate(urls):
        table[u] = {"value": [{"name": f"f{i}.txt", "id": f"c{i}", "file": {}}], "@odata.nextLink": urls[(i + 1) % cycle]}
    srv = Server(table, token_url, {}, 0)
    inner = srv.__call__

    def guarded(request, timeout=None):
        if srv.n >= budget:
            raise _Budget()
        return inner(request, timeout)
    creds = client_mod.EntraIDAppCredentials(tenant_id=TENANT, client_id="cid", client_secret="sec")
    client = client_mod.SharePointRestClient(SITE_URL, creds, request_func=guarded)
    from sharepoint2text.sharepoint_io.exceptions import SharePointError
    try:
        client.list_all_files()
        return "returned", srv.n
    except _Budget:
        return "still-requesting", srv.n
    except SharePointError as e:
        return ("client-error:" + type(e).__name__, getattr(e, "status_code", "-"), getattr(e, "url", None) == urls[0]), srv.n
    except Exception as e:  # noqa
        return "other:" + type(e).__name__, srv.n


# ----------------------------------------------------------------------------- inventory of the modelled code (fail-closed)
MODELLED = {"fetch_access_token", "_ensure_token", "_get_headers", "get_site_id", "list_all_files", "list_files_filtered",
            "_walk_and_filter", "_get_folder_by_path", "_build_children_url", "_walk_drive_items", "_get_folders_from_url",
            "_list_items_paginated", "_get_page", "_parse_file_item", "_extract_custom_fields", "_get_json", "_send"}
MODELLED |= {"list_files_modified_since", "list_files_created_since"}
NOT_MODELLED = {"__init__", "list_drives", "list_files_in_folder",
                "download_file", "download_file_by_path"}
# function -> (number of while loops, number of for loops, exception classes caught in order)
SHAPE = {
    "_send": (0, 0, ["HTTPError", "Exception", "URLError", "OSError,HTTPException", "OSError,HTTPException", "Exception"]),
    "_get_json": (0, 0, ["ValueError", "json.JSONDecodeError"]),
    "_get_page": (0, 0, []),
    "_list_items_paginated": (1, 1, []),
    "_get_folders_from_url": (1, 1, []),
    "_walk_drive_items": (0, 2, []),
    "_get_folder_by_path": (0, 0, ["SharePointRequestError"]),
    "_walk_and_filter": (0, 1, []),
    "list_files_filtered": (0, 1, []),
    "fetch_access_token": (0, 0, ["ValueError"]),
    "get_site_id": (0, 0, []),
}


def code_inventory():
    import ast
    src = (common.REPO / "sharepoint2text" / "sharepoint_io" / "client.py").read_text(encoding="utf-8")
    tree = ast.parse(src)
    cls = next(n for n in tree.body if isinstance(n, ast.ClassDef) and n.name == "SharePointRestClient")
    methods, shape = set(), {}
    for fn in cls.body:
        if isinstance(fn, (ast.FunctionDef, ast.AsyncFunctionDef)):
            methods.add(fn.name)
            whiles = sum(isinstance(n, ast.While) for n in ast.walk(fn))
            fors = sum(isinstance(n, ast.For) for n in ast.walk(fn))
            handlers = []
            for n in ast.walk(fn):
                if isinstance(n, ast.ExceptHandler):
                    t = n.type
                    handlers.append("bare" if t is None else ",".join(ast.unparse(e) for e in t.elts) if isinstance(t, ast.Tuple)
                                    else ast.unparse(t))
            shape[fn.name] = (whiles, fors, handlers)
    return methods, shape


# ----------------------------------------------------------------------------- main
def run(ctx):
    import logging
    logging.disable(logging.CRITICAL)
    import sharepoint2text.sharepoint_io.client as client_mod
    rng = ctx.rng
    ctx.rule = ("case = (library tree, paging of every folder, filter or list_all_files, fault script); non-trivial = tree "
                "with >=2 folders and >=2 pages in some folder, or a fault at request index >=1")
    ctx.trusted += [
        "G-dump: tools/props/c18.py prints _SYSTEM_FIELDS, _GRAPH_API_BASE, _TOKEN_ENDPOINT_TEMPLATE of the imported module",
        "oracles (universally quantified in the theorems, recorded in the correspondence): str.lower, fnmatch.fnmatch, "
        "datetime.fromisoformat, urllib.parse.quote; json/urllib.request.Request are exercised, not modelled",
        "hand-written model of client.py (coq/C18/Model.v) tied by the differential run against a simulated Graph server "
        "(fake request_func) built independently in Python from the same tree/paging",
    ]
    ctx.assumptions += ["item fields have their documented types, are missing or are JSON null (null = missing); fields of a "
                        "wrong non-null type (name = 5) are outside the model",
                        "fault kinds: HTTPError, URLError, other OSError/HTTPException from the transport or from read(), "
                        "non-2xx status, undecodable / malformed / non-object JSON body, JSON object of the wrong listing "
                        "shape (value not a list, nextLink not a string); a string nextLink that is no usable url is "
                        "tested directly on the implementation, not modelled",
                        "the model collects the walk before filtering, the client's generator filters as it goes: when FileFilter.matches raises TypeError (naive vs aware datetime — a naive bound or a timestamp without zone in the library) the two would surface a second error source (fault, repeated nextLink) in a different order, so such library+filter pairs are run fault-free and cycle-free and only the outcome is compared; all theorems about filtered listings carry the `comparable` hypothesis that excludes exactly this"]
    sysfields, base, token_url = gen_tables(ctx, client_mod)
    from urllib.parse import urlparse
    pu = urlparse(SITE_URL)
    site_api = f"{base}/sites/{pu.netloc}:{pu.path}"

    ok1, _ = ctx.prove("C18/Props.v", ["C18/Proofs.vo", "C18/ProofsPaths.vo"], expected=[
        "C18_walk_exact", "C18_list_all_files_exact", "C18_filtered_is_filter_of_walk", "C18_filtered_by_folder_paths",
        "C18_matches_spec",
        "C18_bounds_inclusive_exclusive", "C18_floor_preserves_bounds", "C18_fault_contained", "C18_retry_complete",
        "C18_responses_closed_always", "C18_pagination_termination_refuted_v0", "C18_pagination_terminates",
        "C18_repeated_link_raises", "C18_files_since_spec"])
    ok2, _ = ctx.prove("C18/Inst.v", ["Gen/C18Tables.vo", "C18/Corr.vo", "C18/Proofs.vo"],
                       expected=["C18_tables_wf", "C18_sample_wf", "C18_sample_run", "C18_cycle_witness"])

    # fail-closed inventory: the methods of the client and the loop / handler structure of the modelled ones are the ones
    # the model was read off; a new method, loop or handler means the model has to be looked at again
    methods, shape = code_inventory()
    unknown = sorted(methods - MODELLED - NOT_MODELLED)
    gone = sorted(MODELLED - methods)
    drift = {k: (shape.get(k), v) for k, v in SHAPE.items()
             if shape.get(k) is None or (shape[k][0], shape[k][1], sorted(shape[k][2])) != (v[0], v[1], sorted(v[2]))}
    ctx.obligation("inventory:SharePointRestClient methods and loop/handler structure as modelled",
                   not unknown and not gone and not drift,
                   f"unknown methods {unknown}; modelled methods missing {gone}; structure differs (found, modelled): {drift}")
    ctx.extra["modelled_functions"] = sorted(MODELLED)
    ctx.extra["not_modelled_functions"] = sorted(NOT_MODELLED)

    # a server that repeats a nextLink (cycle of k pages): the guarded loops raise the request error for the repeated
    # url after following each page once (C18_repeated_link_raises, C18_pagination_terminates, C18_cycle_witness);
    # replayed on the real client under a request budget
    loops = []
    for cycle, budget in ((1, 61), (2, 200), (3, 500)):
        outcome, n = cyclic_replay(client_mod, base, site_api, token_url, cycle, budget)
        ctx.case(("cyclic-nextlink", cycle, budget), True, kind="cyclic-nextlink")
        loops.append((cycle, budget, outcome, n))
        if outcome == "still-requesting":
            ctx.finding("nextlink-cycle-no-guard",
                        f"a listing whose nextLink chain repeats (cycle length {cycle}) makes list_all_files request forever: "
                        f"{n} requests made when the watchdog stopped it, no error raised",
                        {"cycle_length": cycle, "budget": budget, "requests": n,
                         "server": "root children page i has @odata.nextLink = page (i+1) mod cycle"})
        elif outcome != ("client-error:SharePointRequestError", None, True) or n != cycle + 2:
            ctx.finding("nextlink-cycle-wrong-outcome", f"cyclic nextLink (length {cycle}): expected SharePointRequestError(None, "
                        f"url of the repeated page) after token+site+{cycle} requests, got {outcome} after {n} requests",
                        {"cycle_length": cycle, "outcome": outcome, "requests": n})
    ctx.obligation("correspondence:repeating nextLink — model (request error for the repeated url after one pass) == implementation",
                   all(o == ("client-error:SharePointRequestError", None, True) and n == c + 2 for c, _, o, n in loops), repr(loops))

    rec = Recorder()
    real_fn, real_dt = client_mod.fnmatch, client_mod.datetime
    cases_coq, cases_info = [], []
    env_cases = []
    norm_inputs = set()
    try:
        n_random = ctx.n(160, 800)
        n_sweep = ctx.n(10, 25)
        plan = ([("qpaths", i) for i in range(ctx.n(30, 200))] + [("random", i) for i in range(n_random)]
                + [("sweep", i) for i in range(n_sweep)])
        for mode, idx in plan:
            ids = make_ids(rng)
            pool = rng.sample(STAMPS, rng.randint(2, 6))
            if mode == "sweep":
                tree = gen_tree(rng, ids, sysfields, depth=2, max_children=3, stamps_pool=pool)
            else:
                tree = gen_tree(rng, ids, sysfields, depth=rng.randint(0, 3), max_children=rng.choice([0, 2, 4, 6]), stamps_pool=pool)
            drive = rng.choice([None, None, "b!drv-1"])
            paging = gen_paging(rng, tree, base, SITE, rng.choice(["single", "one", "any", "any"]))
            fk = rng.choice(["all", "all", "dates", "edge", "edge", "edge", "ext", "pat", "paths", "mixed", "mixed", "naive"]) if mode == "random" \
                else rng.choice(["all", "all", "mixed", "paths"])
            flt = None if fk == "all" else gen_filter(rng, tree, fk)
            if mode == "qpaths":
                tree, flt = gen_qcase(rng, ids, sysfields, pool)
                paging = gen_paging(rng, tree, base, SITE, rng.choice(["single", "one", "any"]))
            if flt is None:
                drive = None
            else:
                set_bounds = [k for k in ("created_after", "created_before", "modified_after", "modified_before") if flt[k]]
                if len(set_bounds) == 1 and set_bounds[0].endswith("_after") and not flt["path_patterns"] and rng.random() < 0.6:
                    flt["_via"] = set_bounds[0].split("_")[0]
            # FileFilter.matches raising TypeError (naive vs aware bound) is evaluated lazily by the generator, the model
            # filters after the walk: with a second source of errors (fault, repeated nextLink) the order in which the two
            # surface differs, so such filters are run without faults and without cycles
            # (whether matches raises is a property of library + filter: decided from the fault-free, cycle-free run.  It
            # happens for naive bounds AND for a timestamp without zone in the library, e.g. "2024-01-15T10:30:00".)
            fin = {oid for oid in paging if rng.random() < 0.2}
            table = build_table(base, site_api, SITE, drive, tree, paging, fin)
            rec.glob, rec.iso = {}, {}
            client_mod.fnmatch, client_mod.datetime = rec.fn, rec.dt
            bits = rng.getrandbits(16)
            healthy = run_impl(client_mod, table, token_url, flt, drive, [], bits)
            lazy_sensitive = healthy["result"][0] == "typeerror" or healthy["retry"][0] == "typeerror"
            cyclic = mode == "random" and idx % 9 == 4 and not lazy_sensitive and make_cyclic(rng, paging)
            if cyclic:
                table = build_table(base, site_api, SITE, drive, tree, paging, fin)
                rec.glob, rec.iso = {}, {}
                healthy = run_impl(client_mod, table, token_url, flt, drive, [], bits)
            case = {"tree": tree, "paging": paging, "filter": flt, "drive": drive, "sysfields": sysfields}
            if len(env_cases) < ctx.n(120, 300) and (mode != "random" or idx % 2 == 0):
                env_cases.append({"tree": tree, "paging": paging, "fin": sorted(map(str, fin)), "_fin": fin, "filter": flt,
                                  "drive": drive, "faults": [], "bits": bits})
            expected = ref_listing(tree, flt, sysfields) if unique_names(tree) or not (flt and flt["folder_paths"]) else None
            if cyclic:
                expected = None          # whether the cyclic listing is reached depends on the filter's folder_paths
                hres = healthy["result"]
                if hres[0] == "other" or (hres[0] == "request" and hres[1] is not None):
                    ctx.finding("nextlink-cycle-wrong-outcome", f"library with a repeating nextLink: {hres}",
                                {"tree": tree, "paging": {str(k): v for k, v in paging.items()}, "result": hres})
            observations = [healthy]
            judge(ctx, case, healthy, None, expected)
            m = len(healthy["log"])
            scripts = []
            if lazy_sensitive:
                scripts = []
            elif mode == "sweep":
                kinds = FAULTS if ctx.tier == "thorough" else rng.sample(FAULTS, 9)
                scripts = [[(k, f)] for k in range(m) for f in kinds]
                if len(scripts) > ctx.n(120, 350):
                    scripts = rng.sample(scripts, ctx.n(120, 350))
            elif rng.random() < 0.5 and m and not lazy_sensitive:
                scripts = [[(rng.randrange(m), rng.choice(FAULTS))]]
                if rng.random() < 0.3:      # a fault sequence: second fault hits the retry
                    scripts.append([(rng.randrange(m), rng.choice(FAULTS)), (m + rng.randrange(3), rng.choice(FAULTS))])
            for sc in scripts:
                sc = list({k: f for k, f in sc}.items())
                o = run_impl(client_mod, table, token_url, flt, drive, sc, bits)
                observations.append(o)
                if len(env_cases) < ctx.n(120, 300) and rng.random() < 0.1:
                    env_cases.append({"tree": tree, "paging": paging, "fin": sorted(map(str, fin)), "_fin": fin, "filter": flt,
                                      "drive": drive, "faults": sc, "bits": bits})
                judge(ctx, case, o, healthy, expected)
            client_mod.fnmatch, client_mod.datetime = real_fn, real_dt
            nfolders = sum(1 for _ in folders_of_tree(tree))
            for o in observations:
                nontriv = (nfolders >= 2 and any(len(v) >= 1 for v in paging.values())) or any(k >= 1 for k, _ in o["faults"])
                ctx.case((c_node({"t": "folder", "name": None, "id": None, "ffacet": ("null",), "also_file": None, "ch": tree}), sorted(map(str, paging.items())),
                          repr(flt), o["faults"]), nontriv,
                         kind=("healthy" if not o["faults"] else "fault:" + o["faults"][0][1][0]) + (":filtered" if flt else ":all"))
            coq_obs = [c_obs(o) for o in observations]
            if any(x is None for x in coq_obs):
                ctx.disagreements += 1      # an exception outside the model's universe: already reported by judge()
                coq_obs = [x for x in coq_obs if x is not None]
            lowers = set(all_names(tree)) | set(flt["extensions"] if flt else [])
            quotes = set(all_paths(tree)) | set(p.strip("/") for p in (flt["folder_paths"] if flt else []))
            pg = coq_list(["(%s, %s)" % (c_ostr(k), coq_list([f"({n}%nat, {coq_str(l)})" for n, l in v])) for k, v in paging.items()])
            cases_coq.append("{| c_or := %s; c_site := %s; c_drive := %s; c_token := %s; c_tree := %s; c_paging := %s; "
                             "c_filter := %s; c_since := %s; c_obs := %s |}" % (
                                 c_oracles(rec, lowers, quotes), coq_str(SITE), c_ostr(drive), coq_str(TOK),
                                 coq_list([c_node(n) for n in tree]), pg, c_filter(flt),
                                 ("None" if not (flt and flt.get("_via")) else
                                  "(Some (%s, %s))" % (coq_bool(flt["_via"] == "created"),
                                                      c_dt(flt[flt["_via"] + "_after"])[6:-1])),
                                 coq_list(coq_obs)))
            cases_info.append({"tree": tree, "paging": {str(k): v for k, v in paging.items()}, "filter": repr(flt),
                               "drive": drive, "n_obs": len(observations), "fin": sorted(map(str, fin)), "bits": bits,
                               "via": (flt or {}).get("_via"), "cyclic": bool(cyclic), "mode": mode,
                               "implementation": [{k: o[k] for k in ("faults", "result", "log", "opened", "closed", "tok", "sid", "retry")}
                                                  for o in observations],
                               "coq_case": cases_coq[-1]})

            def stamps_in(t):
                for n in t:
                    if n["t"] == "file":
                        for x in (n["created"], n["modified"]):
                            if isinstance(x, str):
                                norm_inputs.add(x)
                    elif n["t"] == "folder":
                        stamps_in(n["ch"])
            stamps_in(tree)
    finally:
        client_mod.fnmatch, client_mod.datetime = real_fn, real_dt

    # environment dimension: the same (library, paging, filter, fault script) under DEBUG logging, in a worker thread,
    # under other time zones and another cwd must give the same result, request log, close counts, caches and retry
    def env_fn(c):
        t = build_table(base, site_api, SITE, c["drive"], c["tree"], c["paging"], c["_fin"])
        o = run_impl(client_mod, t, token_url, c["filter"], c["drive"], c["faults"], c["bits"])
        return (o["result"], o["log"], o["opened"], o["closed"], o["tok"], o["sid"], o["retry"])
    common.env_sweep(ctx, "listing", env_fn, env_cases,
                     describe=lambda c: repr({"filter": c["filter"], "faults": c["faults"], "drive": c["drive"],
                                              "nodes": tree_size(c["tree"])}))

    pre = ("From Coq Require Import ZArith List.\nFrom S2T Require Import Lib.PyStr C18.Model C18.Corr Gen.C18Tables.\n"
           "Import ListNotations.\n")
    fn = f"(corr_case system_fields graph_base {coq_str(token_url)} {coq_str(site_api)})"
    okc, failing, log = coq_eval_shards(ctx, "corr", pre, fn, cases_coq, shard=ctx.n(12, 40), ty="case", timeout=1200)
    ctx.traces += sum(c["n_obs"] for c in cases_info)
    ctx.obligation("correspondence:model==implementation on (tree, paging, filter, fault script) runs", okc and not failing,
                   (f"{len(failing)} disagreeing cases; full cases written to replay/C18-corr-case-<i>.json for i in {failing[:3]}; first: "
                    f"{json.dumps({k: v for k, v in cases_info[failing[0]].items() if k in ('filter', 'drive', 'paging', 'mode', 'cyclic', 'via')}, default=str)[:900] if failing else ''} " + log)[:1800])
    ctx.disagreements += len(failing)
    ctx.extra["corr_cases"] = len(cases_coq)
    if failing:
        ctx.extra["corr_disagreements"] = [{k: v for k, v in cases_info[i].items() if k != "coq_case"} for i in failing[:5]]
        # exact replay material: the complete case (library, paging, filter, every fault script with the implementation's
        # result, request log, close counts, caches, retry), the Coq term handed to the model, and the model's own output
        for i in failing[:3]:
            mtxt = (pre + f"Definition c : case := {cases_info[i]['coq_case']}.\n"
                    f"Definition E1 := mk_env system_fields graph_base {coq_str(token_url)} {coq_str(site_api)} (c_or c) false None.\n"
                    "Definition view (o : obs) :=\n"
                    "  let P := paging_of (c_paging c) in let fuel := (need P None (c_tree c) + 3)%nat in\n"
                    "  let w := with_faults (healthy E1 (c_token c) (server_table E1 (c_site c) (c_drive c) P (c_tree c))) (ob_faults o) in\n"
                    "  let '(r, s1) := run E1 w (the_prog E1 fuel c) st0 in\n"
                    "  (check_obs E1 c o, match r with Ok l => (0%nat, List.length l, None) | Raise e => (1%nat, 0%nat, Some e) end,\n"
                    "   List.length (urls s1), opened s1, closed s1).\n"
                    "Eval vm_compute in (map view (c_obs c)).\n")
            okm, mout = ctx.coq_eval(f"disagree_{i}", mtxt, timeout=300)
            common.REPLAY.mkdir(exist_ok=True)
            (common.REPLAY / f"C18-corr-case-{i}.json").write_text(json.dumps(common._jsonable(
                dict(cases_info[i], model_output=mout[-20000:], property="C18",
                     note="per observation the model prints (agrees?, (0,n files,-)|(1,0,error), requests, opened, closed)")),
                indent=1, ensure_ascii=True))
        ctx.extra["corr_replay_files"] = [str(common.REPLAY / f"C18-corr-case-{i}.json") for i in failing[:3]]

    # a nextLink that is a string but no usable url (relative link): outside the model (Request() refuses it before
    # anything is sent); the property still demands the client's own error
    rel_table = build_table(base, site_api, SITE, None, [], {None: [(0, "children/page2?x=1")]})
    o = run_impl(client_mod, rel_table, token_url, None, None, [], 0)
    ctx.case(("relative-nextlink",), True, kind="relative-nextlink")
    if o["result"][0] not in ("request",):
        ctx.finding("malformed-listing-body", f"a relative @odata.nextLink makes list_all_files raise {o['result']} instead of "
                    "an error of the client's family", {"nextLink": "children/page2?x=1", "result": o["result"]})

    # string pieces modelled after str methods: normalisation handed to fromisoformat, strip("/")
    rec2 = Recorder()
    client_mod.datetime = rec2.dt
    try:
        pairs = []
        extra = ["2024-01-15T10:30:00.5-05:00Z", "a.b.c", "..", ".+", ".-", "1.2+3-4", "1.2-3+4", "Z.Z", "x.1234567890123", "+.-",
                 "2024-01-15T10:30:00,5Z", "ZZ", "2024.01.15T10:30:00Z"]
        for x in sorted(norm_inputs) + STAMPS + ODD_STAMPS + extra:
            rec2.iso = {}
            client_mod._parse_iso_datetime(x)
            keys = list(rec2.iso)
            if len(keys) == 1:
                pairs.append(f"({coq_str(x)}, {coq_str(keys[0])})")
    finally:
        client_mod.datetime = real_dt
    okn, fn_, log = coq_eval_shards(ctx, "norm", pre, "norm_case", pairs, shard=500, ty="str * str")
    ctx.obligation("correspondence:iso_norm == string handed to datetime.fromisoformat", okn and not fn_ and len(pairs) > 20,
                   (f"{len(fn_)} disagreements, first: {pairs[fn_[0]] if fn_ else ''} " + log)[:800])
    sp = ["", "/", "//", "a", "/a", "a/", "/a/b/", "//a//b//", "a//b", " /a/ ", "/\u00e4/"]
    oks, fs, log = coq_eval_shards(ctx, "strip", pre, "strip_case", [f"({coq_str(x)}, {coq_str(x.strip('/'))})" for x in sp],
                                   shard=500, ty="str * str")
    ctx.obligation("correspondence:strip_slash == str.strip('/')", oks and not fs, (f"{fs} " + log)[:500])


META = {
    "technique": "Coq proof over an executable model of sharepoint_io/client.py (interaction-tree client over a scripted "
                 "transport) + differential correspondence against a simulated Graph server",
    "design_ref": "DESIGN.md §5 C18",
    "level_text": "Kernel-checked theorems: for every library tree, every paging (arbitrary partition of every folder's "
                  "children into pages with server-chosen nextLinks) and every start state the walk returns exactly the "
                  "reference listing (each file once, with its parent path, in order); filtered listing = filter(matches) of "
                  "the walk, and with folder_paths = per entry the filter of the walk of the folder found by path (404 / "
                  "not a folder -> nothing), parent paths starting at the entry as given; matches = inclusive-after / exclusive-before / case-insensitive suffix / glob on the full path; "
                  "for every request index and fault kind the run raises the client's error with status and url, all "
                  "responses closed, caches only from successful responses, and the retry returns the complete listing. "
                  "Model tied to the code by differential runs (results, exceptions, request log, close counts, caches, retry).",
    "level_note": "Trusted: Coq kernel+VM; hand-written model validated differentially; str.lower, fnmatch, "
                  "datetime.fromisoformat, urllib.parse.quote are universally quantified oracles; json/urllib object "
                  "plumbing is exercised only; transport exceptions other than HTTPError/URLError are outside the fault kinds.",
}
