"""C14 — tiny image files and package writers (zipfile + XML templates) with ground truth.

A *document spec* is
    {"fmt": "docx"|"pptx"|"xlsx"|"odt"|"odp"|"ods"|"odg"|"epub",
     "media": [{"part": "<zip member name>", "kind": "png"|"jpeg"|"gif"|"bmp", "w":.., "h":.., "data": bytes}],
     "units": [[placement, ...], ...]}          # one list per slide / sheet; one unit for docx/odt/odg/epub
    placement = {"m": index into media | None, "style": "rel"|"parent"|"abs"|"dot"|"missing"|"external"|..., "target": str}
plus format-specific extras ("extra_rels": image relationships no drawing references, ...).
`build(spec)` returns the package bytes; nothing here imports the implementation.
"""
from __future__ import annotations

import io
import posixpath
import struct
import warnings
import zipfile
import zlib
from xml.sax.saxutils import quoteattr

warnings.filterwarnings("ignore", message="Duplicate name", category=UserWarning)

# ------------------------------------------------------------------------------------ image files


def png(w: int, h: int, seed: int = 0) -> bytes:
    def chunk(t, d):
        return struct.pack(">I", len(d)) + t + d + struct.pack(">I", zlib.crc32(t + d) & 0xFFFFFFFF)
    raw = b"".join(b"\x00" + bytes(((x * 7 + y * 13 + seed) & 0xFF for x in range(w))) for y in range(h))
    return (b"\x89PNG\r\n\x1a\n" + chunk(b"IHDR", struct.pack(">IIBBBBB", w, h, 8, 0, 0, 0, 0))
            + chunk(b"IDAT", zlib.compress(raw)) + chunk(b"tEXt", b"seed\x00%d" % seed) + chunk(b"IEND", b""))


def gif(w: int, h: int, seed: int = 0, version: bytes = b"GIF89a") -> bytes:
    return (version + struct.pack("<HHBBB", w, h, 0x80, 0, 0) + bytes((seed & 0xFF, 0, 0, 255, 255, 255))
            + b"\x2c" + struct.pack("<HHHHB", 0, 0, w, h, 0) + b"\x02\x02\x4c\x01\x00\x3b")


def bmp(w: int, h: int, seed: int = 0, top_down: bool = False) -> bytes:
    row = (bytes(((seed + i) & 0xFF for i in range(3))) * w + b"\x00\x00\x00")[: (w * 3 + 3) // 4 * 4]
    pix = row * h
    hdr = struct.pack("<IiiHHIIiiII", 40, w, -h if top_down else h, 1, 24, 0, len(pix), 2835, 2835, 0, 0)
    return b"BM" + struct.pack("<IHHI", 14 + 40 + len(pix), 0, 0, 54) + hdr + pix


def jpeg(w: int, h: int, seed: int = 0, sof: int = 0xC0, app_segments: int = 1, pad_ff: bool = False) -> bytes:
    """Header-only JPEG (SOI, APP0, optional extra APPn/COM segments, DQT, SOFn, SOS stub, EOI)."""
    out = b"\xff\xd8"
    out += b"\xff\xe0" + struct.pack(">H", 16) + b"JFIF\x00\x01\x01\x00\x00\x01\x00\x01\x00\x00"
    for k in range(app_segments):
        body = bytes(((seed + k + i) & 0x7F for i in range(5 + k)))
        out += b"\xff\xfe" + struct.pack(">H", 2 + len(body)) + body
    out += b"\xff\xdb" + struct.pack(">H", 67) + b"\x00" + bytes([1 + (seed & 0x3F)] * 64)
    if pad_ff:
        out += b"\xff"
    out += bytes((0xFF, sof)) + struct.pack(">HBHHB", 11, 8, h, w, 1) + b"\x01\x11\x00"
    out += b"\xff\xda" + struct.pack(">H", 8) + b"\x01\x01\x00\x00\x3f\x00" + bytes((seed & 0x7F, 0x55)) + b"\xff\xd9"
    return out


MAKERS = {"png": png, "jpeg": jpeg, "gif": gif, "bmp": bmp}
EXT = {"png": "png", "jpeg": "jpg", "gif": "gif", "bmp": "bmp"}
CTYPE = {"png": "image/png", "jpeg": "image/jpeg", "gif": "image/gif", "bmp": "image/bmp"}


# ------------------------------------------------------------------------------------ helpers
def _zip(members: list[tuple[str, bytes]]) -> bytes:
    buf = io.BytesIO()
    with zipfile.ZipFile(buf, "w", zipfile.ZIP_DEFLATED) as z:
        seen = set()
        for name, data in members:
            if (name, data) in seen:
                continue
            seen.add((name, data))
            z.writestr(name, data)
    return buf.getvalue()


def _rels(rels: list[tuple[str, str, str, str]]) -> bytes:
    """rels: (id, type, target, mode)"""
    s = ['<?xml version="1.0" encoding="UTF-8" standalone="yes"?>',
         '<Relationships xmlns="http://schemas.openxmlformats.org/package/2006/relationships">']
    for rid, typ, target, mode in rels:
        m = f' TargetMode="{mode}"' if mode else ""
        s.append(f"<Relationship Id={quoteattr(rid)} Type={quoteattr(typ)} Target={quoteattr(target)}{m}/>")
    s.append("</Relationships>")
    return "".join(s).encode()


REL = "http://schemas.openxmlformats.org/officeDocument/2006/relationships"
T_IMAGE = REL + "/image"
CT_HEAD = ('<?xml version="1.0" encoding="UTF-8" standalone="yes"?>'
           '<Types xmlns="http://schemas.openxmlformats.org/package/2006/content-types">'
           '<Default Extension="rels" ContentType="application/vnd.openxmlformats-package.relationships+xml"/>'
           '<Default Extension="xml" ContentType="application/xml"/>'
           '<Default Extension="png" ContentType="image/png"/><Default Extension="jpg" ContentType="image/jpeg"/>'
           '<Default Extension="gif" ContentType="image/gif"/><Default Extension="bmp" ContentType="image/bmp"/>')


def opc_target(source_part: str, dest_part: str, style: str) -> str:
    """A relationship Target that an OPC consumer resolves (RFC 3986, base = source part) to dest_part."""
    sdir = posixpath.dirname(source_part)
    if style == "abs":
        return "/" + dest_part
    if style == "rel":          # shortest relative reference
        return posixpath.relpath(dest_part, sdir or ".")
    if style == "dot":
        return "./" + posixpath.relpath(dest_part, sdir or ".")
    if style == "parent":       # up to the package root and down again
        ups = [".."] * (len(sdir.split("/")) if sdir else 0)
        return "/".join(ups + [dest_part])
    if style == "updown":       # a/../ detour inside a relative reference
        rel = posixpath.relpath(dest_part, sdir or ".")
        return "x/../" + rel if not rel.startswith("..") else rel.replace("../", "../x/../", 1)
    raise ValueError(style)


def content_types_head(spec) -> str:
    """[Content_Types].xml head; spec["ct_mode"]: "defaults" (usual), "overrides" (one Override per media part, no image
    Defaults), "none" (images not declared at all)"""
    mode = spec.get("ct_mode", "defaults")
    if mode == "defaults":
        return CT_HEAD
    head = CT_HEAD[:CT_HEAD.index('<Default Extension="png"')]
    if mode == "overrides":
        for m in spec["media"]:
            if m.get("present", True):
                head += f'<Override PartName={quoteattr("/" + m["part"])} ContentType="{CTYPE[m["kind"]]}"/>'
    return head


def media_members(spec):
    """(member name, bytes) in archive order; a media with "dup_first" is preceded by an entry of the SAME name holding
    other bytes (zipfile and read_zip_member resolve a name to the last central-directory entry)"""
    out = []
    for m in spec["media"]:
        if m.get("present", True):
            if m.get("dup_first") is not None:
                out.append((m["part"], m["dup_first"]))
            out.append((m["part"], m["data"]))
    return out


# ------------------------------------------------------------------------------------ DOCX
W = "http://schemas.openxmlformats.org/wordprocessingml/2006/main"
A = "http://schemas.openxmlformats.org/drawingml/2006/main"
PIC = "http://schemas.openxmlformats.org/drawingml/2006/picture"
WP = "http://schemas.openxmlformats.org/drawingml/2006/wordprocessingDrawing"
P = "http://schemas.openxmlformats.org/presentationml/2006/main"


def _docx_drawing(rid: str, k: int, link: bool = False) -> str:
    attr = f'r:link="{rid}"' if link else f'r:embed="{rid}"'
    return (f'<w:r><w:drawing><wp:inline><wp:extent cx="95250" cy="95250"/><wp:docPr id="{k}" name="Picture {k}"/>'
            f'<a:graphic><a:graphicData uri="{PIC}"><pic:pic><pic:nvPicPr><pic:cNvPr id="{k}" name="pic{k}" descr="d{k}"/>'
            f'<pic:cNvPicPr/></pic:nvPicPr><pic:blipFill><a:blip {attr}/></pic:blipFill><pic:spPr/></pic:pic>'
            f'</a:graphicData></a:graphic></wp:inline></w:drawing></w:r>')


def build_docx(spec) -> bytes:
    """placements get relationship ids spec-provided ("rid") so that relationship order and document
    order can differ; spec["rel_order"] lists the rids in the order they are written to the .rels part."""
    body = []
    for k, pl in enumerate(spec["units"][0], 1):
        para = f'<w:p><w:r><w:t>para {k}</w:t></w:r>{_docx_drawing(pl["rid"], k, pl["style"] == "external")}</w:p>'
        if pl.get("in_table"):
            para = f'<w:tbl><w:tr><w:tc>{para}</w:tc><w:tc><w:p><w:r><w:t>c{k}</w:t></w:r></w:p></w:tc></w:tr></w:tbl>'
        body.append(para)
    doc = (f'<?xml version="1.0" encoding="UTF-8" standalone="yes"?><w:document xmlns:w="{W}" xmlns:a="{A}" '
           f'xmlns:pic="{PIC}" xmlns:wp="{WP}" xmlns:r="{REL}"><w:body>' + "".join(body) + '<w:sectPr/></w:body></w:document>')
    by_rid = {}
    for pl in spec["units"][0]:
        by_rid.setdefault(pl["rid"], pl)
    rels = [("rIdStyles", REL + "/styles", "styles.xml", "")]
    for rid in spec["rel_order"]:
        if rid in by_rid:
            pl = by_rid[rid]
            rels.append((rid, T_IMAGE, pl["target"], "External" if pl["style"] == "external" else ""))
    for extra in spec.get("extra_rels", []):
        rels.append((extra[0], T_IMAGE, extra[1], ""))
    ct = content_types_head(spec) + ('<Override PartName="/word/document.xml" ContentType="application/vnd.openxmlformats-officedocument.'
                    'wordprocessingml.document.main+xml"/></Types>')
    members = [("[Content_Types].xml", ct.encode()),
               ("_rels/.rels", _rels([("rId1", REL + "/officeDocument", "word/document.xml", "")])),
               ("word/document.xml", doc.encode()),
               ("word/_rels/document.xml.rels", _rels(rels)),
               ("word/styles.xml", f'<?xml version="1.0"?><w:styles xmlns:w="{W}"/>'.encode())]
    return _zip(members + media_members(spec))


# ------------------------------------------------------------------------------------ PPTX
def _pptx_pic(rid: str, k: int, x: int, y: int) -> str:
    return (f'<p:pic><p:nvPicPr><p:cNvPr id="{k + 1}" name="Picture {k}" descr="d{k}"/><p:cNvPicPr/><p:nvPr/></p:nvPicPr>'
            f'<p:blipFill><a:blip r:embed="{rid}"/><a:stretch><a:fillRect/></a:stretch></p:blipFill>'
            f'<p:spPr><a:xfrm><a:off x="{x}" y="{y}"/><a:ext cx="95250" cy="95250"/></a:xfrm></p:spPr></p:pic>')


def build_pptx(spec) -> bytes:
    members = []
    ct = content_types_head(spec) + ('<Override PartName="/ppt/presentation.xml" ContentType="application/vnd.openxmlformats-officedocument.'
                    'presentationml.presentation.main+xml"/>')
    prels, ids = [], []
    nslides = len(spec["units"])
    sfiles = spec.get("slide_files") or list(range(1, nslides + 1))       # file number of the n-th slide
    srids = spec.get("slide_rids") or [f"rId{j + 1}" for j in range(nslides)]
    sids = spec.get("slide_ids") or [256 + j for j in range(nslides)]
    for pos, unit in enumerate(spec["units"], 1):
        n = sfiles[pos - 1]
        ct += (f'<Override PartName="/ppt/slides/slide{n}.xml" ContentType="application/vnd.openxmlformats-officedocument.'
               'presentationml.slide+xml"/>')
        prels.append((srids[pos - 1], REL + "/slide", f"slides/slide{n}.xml", ""))
        ids.append(f'<p:sldId id="{sids[pos - 1]}" r:id="{srids[pos - 1]}"/>')
        pics, rels, seen = [], [], set()
        for k, pl in enumerate(unit, 1):
            # shapes are laid out top to bottom in document order (the extractor sorts by position)
            # (or all at one position: the stable sort must then keep the source order)
            pics.append(_pptx_pic(pl["rid"], k, 1000, 1000 if spec.get("same_pos") else 1000 * k))
            if pl["rid"] not in seen:
                seen.add(pl["rid"])
                rels.append((pl["rid"], T_IMAGE, pl["target"], "External" if pl["style"] == "external" else ""))
        for rid, target in spec.get("extra_rels", {}).get(n, []):
            rels.append((rid, T_IMAGE, target, ""))
        slide = (f'<?xml version="1.0" encoding="UTF-8" standalone="yes"?><p:sld xmlns:p="{P}" xmlns:a="{A}" xmlns:r="{REL}">'
                 '<p:cSld><p:spTree><p:nvGrpSpPr><p:cNvPr id="1" name=""/><p:cNvGrpSpPr/><p:nvPr/></p:nvGrpSpPr><p:grpSpPr/>'
                 + "".join(pics) + '</p:spTree></p:cSld></p:sld>')
        members.append((f"ppt/slides/slide{n}.xml", slide.encode()))
        members.append((f"ppt/slides/_rels/slide{n}.xml.rels", _rels(rels)))
    if spec.get("pres_rels_reversed"):
        prels.reverse()
    pres = (f'<?xml version="1.0" encoding="UTF-8" standalone="yes"?><p:presentation xmlns:p="{P}" xmlns:r="{REL}">'
            '<p:sldIdLst>' + "".join(ids) + '</p:sldIdLst></p:presentation>')
    members = [("[Content_Types].xml", (ct + "</Types>").encode()),
               ("_rels/.rels", _rels([("rId1", REL + "/officeDocument", "ppt/presentation.xml", "")])),
               ("ppt/presentation.xml", pres.encode()),
               ("ppt/_rels/presentation.xml.rels", _rels(prels))] + members
    return _zip(members + media_members(spec))


# ------------------------------------------------------------------------------------ XLSX
S = "http://schemas.openxmlformats.org/spreadsheetml/2006/main"
XDR = "http://schemas.openxmlformats.org/drawingml/2006/spreadsheetDrawing"


def _xlsx_anchor(rid: str, k: int, anchor: str) -> str:
    pic = (f'<xdr:pic><xdr:nvPicPr><xdr:cNvPr id="{k}" name="Picture {k}" descr="d{k}"/><xdr:cNvPicPr/></xdr:nvPicPr>'
           f'<xdr:blipFill><a:blip r:embed="{rid}"/><a:stretch><a:fillRect/></a:stretch></xdr:blipFill>'
           f'<xdr:spPr><a:xfrm><a:off x="0" y="0"/><a:ext cx="190500" cy="285750"/></a:xfrm></xdr:spPr></xdr:pic>')
    frm = f'<xdr:from><xdr:col>{k}</xdr:col><xdr:colOff>0</xdr:colOff><xdr:row>{k}</xdr:row><xdr:rowOff>0</xdr:rowOff></xdr:from>'
    if anchor == "two":
        to = f'<xdr:to><xdr:col>{k + 1}</xdr:col><xdr:colOff>0</xdr:colOff><xdr:row>{k + 1}</xdr:row><xdr:rowOff>0</xdr:rowOff></xdr:to>'
        return f'<xdr:twoCellAnchor>{frm}{to}{pic}<xdr:clientData/></xdr:twoCellAnchor>'
    if anchor == "one":
        return f'<xdr:oneCellAnchor>{frm}<xdr:ext cx="190500" cy="285750"/>{pic}<xdr:clientData/></xdr:oneCellAnchor>'
    return f'<xdr:absoluteAnchor><xdr:pos x="0" y="0"/><xdr:ext cx="190500" cy="285750"/>{pic}<xdr:clientData/></xdr:absoluteAnchor>'


def build_xlsx(spec) -> bytes:
    """spec["sheet_files"][i] = file number of the i-th sheet (default i+1); spec["drawing_style"] = how the
    sheet->drawing relationship target is written."""
    n = len(spec["units"])
    files = spec.get("sheet_files") or list(range(1, n + 1))
    dstyle = spec.get("drawing_style", "parent1")
    ct = content_types_head(spec) + ('<Override PartName="/xl/workbook.xml" ContentType="application/vnd.openxmlformats-officedocument.'
                    'spreadsheetml.sheet.main+xml"/>')
    members, wrels, sheets = [], [], []
    for i, unit in enumerate(spec["units"]):
        f = files[i]
        ct += (f'<Override PartName="/xl/worksheets/sheet{f}.xml" ContentType="application/vnd.openxmlformats-officedocument.'
               'spreadsheetml.worksheet+xml"/>')
        sid = (spec.get("sheet_ids") or list(range(1, n + 1)))[i]          # an identifier, not a position
        srid = (spec.get("sheet_rids") or [f"rId{j + 1}" for j in range(n)])[i]
        sheets.append(f'<sheet name="Sheet{chr(65 + i)}" sheetId="{sid}" r:id="{srid}"/>')
        wrels.append((srid, REL + "/worksheet", f"worksheets/sheet{f}.xml", ""))
        drawing = '<drawing r:id="rId1"/>' if unit else ""
        sh = (f'<?xml version="1.0" encoding="UTF-8" standalone="yes"?><worksheet xmlns="{S}" xmlns:r="{REL}"><sheetData>'
              f'<row r="1"><c r="A1" t="inlineStr"><is><t>h{i}</t></is></c><c r="B1" t="inlineStr"><is><t>g</t></is></c></row>'
              f'<row r="2"><c r="A2"><v>{i}</v></c><c r="B2"><v>2</v></c></row></sheetData>{drawing}</worksheet>')
        members.append((f"xl/worksheets/sheet{f}.xml", sh.encode()))
        if unit:
            dpart = f"xl/drawings/drawing{f}.xml"
            dt = {"parent1": f"../drawings/drawing{f}.xml", "abs": "/" + dpart}[dstyle]
            members.append((f"xl/worksheets/_rels/sheet{f}.xml.rels", _rels([("rId1", REL + "/drawing", dt, "")])))
            ct += (f'<Override PartName="/{dpart}" ContentType="application/vnd.openxmlformats-officedocument.drawing+xml"/>')
            anchors, rels, seen = [], [], set()
            for k, pl in enumerate(unit, 1):
                anchors.append(_xlsx_anchor(pl["rid"], k, pl.get("anchor", "two")))
                if pl["rid"] not in seen:
                    seen.add(pl["rid"])
                    rels.append((pl["rid"], T_IMAGE, pl["target"], "External" if pl["style"] == "external" else ""))
            members.append((dpart, (f'<?xml version="1.0" encoding="UTF-8" standalone="yes"?><xdr:wsDr xmlns:xdr="{XDR}" '
                                    f'xmlns:a="{A}" xmlns:r="{REL}">' + "".join(anchors) + '</xdr:wsDr>').encode()))
            members.append((f"xl/drawings/_rels/drawing{f}.xml.rels", _rels(rels)))
    if spec.get("wb_rels_reversed"):
        wrels.reverse()
    wb = (f'<?xml version="1.0" encoding="UTF-8" standalone="yes"?><workbook xmlns="{S}" xmlns:r="{REL}"><sheets>'
          + "".join(sheets) + '</sheets></workbook>')
    members = [("[Content_Types].xml", (ct + "</Types>").encode()),
               ("_rels/.rels", _rels([("rId1", REL + "/officeDocument", "xl/workbook.xml", "")])),
               ("xl/workbook.xml", wb.encode()),
               ("xl/_rels/workbook.xml.rels", _rels(wrels))] + members
    return _zip(members + media_members(spec))


# ------------------------------------------------------------------------------------ ODF
ODF_NS = ('xmlns:office="urn:oasis:names:tc:opendocument:xmlns:office:1.0" '
          'xmlns:text="urn:oasis:names:tc:opendocument:xmlns:text:1.0" '
          'xmlns:table="urn:oasis:names:tc:opendocument:xmlns:table:1.0" '
          'xmlns:draw="urn:oasis:names:tc:opendocument:xmlns:drawing:1.0" '
          'xmlns:presentation="urn:oasis:names:tc:opendocument:xmlns:presentation:1.0" '
          'xmlns:svg="urn:oasis:names:tc:opendocument:xmlns:svg-compatible:1.0" '
          'xmlns:xlink="http://www.w3.org/1999/xlink"')
ODF_MIME = {"odt": "application/vnd.oasis.opendocument.text", "odp": "application/vnd.oasis.opendocument.presentation",
            "ods": "application/vnd.oasis.opendocument.spreadsheet", "odg": "application/vnd.oasis.opendocument.graphics"}


def _odf_frame(pl, k: int) -> str:
    """a picture frame, wrapped in pl["group"] nested draw:g shape groups"""
    g = int(pl.get("group", 0))
    return "<draw:g>" * g + _odf_frame0(pl, k) + "</draw:g>" * g


def _odf_frame0(pl, k: int) -> str:
    href = quoteattr(pl["target"])
    return (f'<draw:frame draw:name="img{k}" svg:x="1cm" svg:y="{k}cm" svg:width="2cm" svg:height="3cm">'
            f'<draw:image xlink:href={href} xlink:type="simple" xlink:show="embed" xlink:actuate="onLoad"/>'
            f'<svg:desc>d{k}</svg:desc></draw:frame>')


def build_odf(spec) -> bytes:
    fmt = spec["fmt"]
    if fmt == "odt":
        parts = []
        for k, pl in enumerate(spec["units"][0], 1):
            if pl.get("in_textbox"):
                parts.append(f'<text:p>para {k}<draw:frame draw:name="box{k}" svg:width="5cm"><draw:text-box>'
                             f'<text:p>{_odf_frame(pl, k)}Caption {k}</text:p></draw:text-box></draw:frame></text:p>')
            else:
                parts.append(f'<text:p>para {k}{_odf_frame(pl, k)}</text:p>')
        body = "<office:text>" + "".join(parts) + "</office:text>"
    elif fmt == "odg":
        body = ('<office:drawing><draw:page draw:name="page1">' +
                "".join(_odf_frame(pl, k) for k, pl in enumerate(spec["units"][0], 1)) + '</draw:page></office:drawing>')
    elif fmt == "odp":
        body = "<office:presentation>" + "".join(
            f'<draw:page draw:name="s{n}"><draw:frame svg:x="1cm" svg:y="0cm" svg:width="5cm" svg:height="1cm"><draw:text-box>'
            f'<text:p>slide {n}</text:p></draw:text-box></draw:frame>' +
            "".join(_odf_frame(pl, k) for k, pl in enumerate(unit, 1)) + '</draw:page>'
            for n, unit in enumerate(spec["units"], 1)) + "</office:presentation>"
    elif fmt == "ods":
        body = "<office:spreadsheet>" + "".join(
            f'<table:table table:name="T{n}"><table:shapes>' + "".join(_odf_frame(pl, k) for k, pl in enumerate(unit, 1)) +
            f'</table:shapes><table:table-column/><table:table-row><table:table-cell office:value-type="string">'
            f'<text:p>c{n}</text:p></table:table-cell></table:table-row></table:table>'
            for n, unit in enumerate(spec["units"], 1)) + "</office:spreadsheet>"
    else:
        raise ValueError(fmt)
    content = (f'<?xml version="1.0" encoding="UTF-8"?><office:document-content {ODF_NS} office:version="1.2">'
               f'<office:body>{body}</office:body></office:document-content>')
    man = ['<?xml version="1.0" encoding="UTF-8"?><manifest:manifest xmlns:manifest="urn:oasis:names:tc:opendocument:xmlns:'
           'manifest:1.0" manifest:version="1.2">',
           f'<manifest:file-entry manifest:full-path="/" manifest:media-type="{ODF_MIME[fmt]}"/>',
           '<manifest:file-entry manifest:full-path="content.xml" manifest:media-type="text/xml"/>']
    # what the manifest says about a picture is the producer's business: typed (LibreOffice), empty media-type
    # (OpenOffice.org 1.x/2.x, converters), a generic type, or no entry at all
    for m in spec["media"]:
        if m.get("present", True):
            mode = m.get("manifest", "typed")
            if mode == "absent":
                continue
            mt = {"typed": CTYPE[m["kind"]], "empty": "", "generic": "application/octet-stream"}[mode]
            man.append(f'<manifest:file-entry manifest:full-path={quoteattr(m["part"])} manifest:media-type="{mt}"/>')
    man.append("</manifest:manifest>")
    buf = io.BytesIO()
    with zipfile.ZipFile(buf, "w", zipfile.ZIP_DEFLATED) as z:
        z.writestr(zipfile.ZipInfo("mimetype"), ODF_MIME[fmt])
        z.writestr("content.xml", content)
        z.writestr("META-INF/manifest.xml", "".join(man))
        seen = set()
        for name, data in media_members(spec):
            if (name, data) not in seen:
                seen.add((name, data))
                z.writestr(name, data)
    return buf.getvalue()


# ------------------------------------------------------------------------------------ EPUB
def build_epub(spec) -> bytes:
    """spec["opf"] = OPF part name (e.g. "OEBPS/content.opf" or "OEBPS/pkg/content.opf"); placements are the
    manifest image items in manifest order; the single chapter references all of them with <img>."""
    opf = spec.get("opf", "OEBPS/content.opf")
    odir = posixpath.dirname(opf)
    chap = (odir + "/" if odir else "") + "ch1.xhtml"
    items = ['<item id="ch1" href="ch1.xhtml" media-type="application/xhtml+xml"/>']
    imgs = []
    for k, pl in enumerate(spec["units"][0], 1):
        mt = CTYPE[spec["media"][pl["m"]]["kind"]] if pl["m"] is not None else "image/png"
        items.append(f'<item id="img{k}" href={quoteattr(pl["target"])} media-type="{mt}"/>')
        imgs.append(f'<p>image {k} <img src={quoteattr(pl["target"])} alt="i{k}"/></p>')
    opf_xml = ('<?xml version="1.0" encoding="UTF-8"?><package xmlns="http://www.idpf.org/2007/opf" version="3.0" '
               'unique-identifier="id"><metadata xmlns:dc="http://purl.org/dc/elements/1.1/"><dc:title>t</dc:title>'
               '<dc:identifier id="id">x</dc:identifier><dc:language>en</dc:language></metadata><manifest>'
               + "".join(items) + '</manifest><spine><itemref idref="ch1"/></spine></package>')
    cont = ('<?xml version="1.0"?><container version="1.0" xmlns="urn:oasis:names:tc:opendocument:xmlns:container">'
            f'<rootfiles><rootfile full-path="{opf}" media-type="application/oebps-package+xml"/></rootfiles></container>')
    xhtml = ('<?xml version="1.0" encoding="UTF-8"?><html xmlns="http://www.w3.org/1999/xhtml"><head><title>c</title></head>'
             '<body><h1>Chapter</h1>' + "".join(imgs) + '</body></html>')
    buf = io.BytesIO()
    with zipfile.ZipFile(buf, "w", zipfile.ZIP_DEFLATED) as z:
        z.writestr(zipfile.ZipInfo("mimetype"), "application/epub+zip")
        z.writestr("META-INF/container.xml", cont)
        z.writestr(opf, opf_xml)
        z.writestr(chap, xhtml)
        seen = set()
        for name, data in media_members(spec):
            if (name, data) not in seen:
                seen.add((name, data))
                z.writestr(name, data)
    return buf.getvalue()


def build(spec) -> bytes:
    f = spec["fmt"]
    if f == "docx":
        return build_docx(spec)
    if f == "pptx":
        return build_pptx(spec)
    if f == "xlsx":
        return build_xlsx(spec)
    if f in ("odt", "odp", "ods", "odg"):
        return build_odf(spec)
    if f == "epub":
        return build_epub(spec)
    raise ValueError(f)


# ------------------------------------------------------------------------------------ PDF
def _run_length(data: bytes) -> bytes:
    out = bytearray()
    for k in range(0, len(data), 128):
        chunk = data[k:k + 128]
        out += bytes((len(chunk) - 1,)) + chunk
    return bytes(out) + b"\x80"


def _lzw(data: bytes) -> bytes:
    """PDF /LZWDecode encoder (9..12-bit codes, MSB first, clear 256, EOD 257, EarlyChange 1)."""
    codes = []
    table = {bytes((i,)): i for i in range(256)}
    nxt, width = 258, 9
    codes.append((256, width))
    w = b""
    for b in data:
        wc = w + bytes((b,))
        if wc in table:
            w = wc
            continue
        codes.append((table[w], width))
        table[wc] = nxt
        nxt += 1
        if nxt + 1 > (1 << width) and width < 12:
            width += 1
        if nxt >= 4095:
            codes.append((256, width))
            table = {bytes((i,)): i for i in range(256)}
            nxt, width = 258, 9
        w = bytes((b,))
    if w:
        codes.append((table[w], width))
    nxt += 1
    if nxt + 1 > (1 << width) and width < 12:
        width += 1
    codes.append((257, width))
    acc = n = 0
    out = bytearray()
    for code, wd in codes:
        acc = (acc << wd) | code
        n += wd
        while n >= 8:
            out.append((acc >> (n - 8)) & 0xFF)
            n -= 8
    if n:
        out.append((acc << (8 - n)) & 0xFF)
    return bytes(out)


PDF_STAGE = {
    "LZWDecode": _lzw,
    "DCTDecode": lambda d: d,                                        # the JPEG file itself
    "FlateDecode": lambda d: zlib.compress(d),
    "ASCIIHexDecode": lambda d: d.hex().encode() + b">",
    "ASCII85Decode": lambda d: __import__("base64").a85encode(d) + b"~>",
    "RunLengthDecode": _run_length,
}
# how an embedded JPEG (or, for "flate-raw", 8-bit gray samples) is stored: the /Filter chain in decoding order
PDF_ENCODINGS = {
    "dct": ["DCTDecode"], "dct-array": ["DCTDecode"],
    "flate+dct": ["FlateDecode", "DCTDecode"], "ahx+dct": ["ASCIIHexDecode", "DCTDecode"],
    "a85+dct": ["ASCII85Decode", "DCTDecode"], "rl+dct": ["RunLengthDecode", "DCTDecode"],
    "ahx+flate+dct": ["ASCIIHexDecode", "FlateDecode", "DCTDecode"], "a85+flate+dct": ["ASCII85Decode", "FlateDecode", "DCTDecode"],
    "lzw+dct": ["LZWDecode", "DCTDecode"], "ahx+lzw+dct": ["ASCIIHexDecode", "LZWDecode", "DCTDecode"],
    "flate-raw": ["FlateDecode"],
}


def build_pdf(images: list[dict], pages: list[list[int]]) -> bytes:
    """Hand-written PDF 1.4.  images[i] = {"data": <JPEG bytes>, "w":.., "h":..} become image XObjects with
    /Filter /DCTDecode (the stream is the JPEG file, passed through unre-encoded); pages[k] lists the image indices
    page k+1 draws, in content-stream order (an index may repeat on a page and across pages: ONE shared XObject).
    A page without images has no /XObject resources."""
    objs: list[bytes] = []           # objs[n-1] = body of object n

    def add(body: bytes) -> int:
        objs.append(body)
        return len(objs)
    cat = add(b"")                   # 1 catalog, 2 pages: filled in below
    pgs = add(b"")
    font = add(b"<< /Type /Font /Subtype /Type1 /BaseFont /Helvetica >>")
    img_obj = {}
    for i in sorted({i for p in pages for i in p}):
        im = images[i]
        chain = PDF_ENCODINGS[im.get("enc", "dct")]
        payload = im["data"]
        for f in reversed(chain):                     # /Filter lists the stages in DECODING order
            payload = PDF_STAGE[f](payload)
        flt = (b"/" + chain[0].encode()) if im.get("enc", "dct") == "dct" or (len(chain) == 1 and not im.get("enc", "").endswith("array")) \
            else b"[" + b" ".join(b"/" + f.encode() for f in chain) + b"]"
        if im.get("filter_indirect"):                 # /Filter written as an indirect reference
            flt = b"%d 0 R" % add(flt)
        img_obj[i] = add(b"<< /Type /XObject /Subtype /Image /Width %d /Height %d /ColorSpace /DeviceGray "
                         b"/BitsPerComponent 8 /Filter %s /Length %d >>\nstream\n" % (im["w"], im["h"], flt, len(payload))
                         + payload + b"\nendstream")
    kids = []
    for k, p in enumerate(pages, 1):
        ops = [b"BT /F1 12 Tf 72 720 Td (page %d) Tj ET" % k]
        for j, i in enumerate(p):
            ops.append(b"q 40 0 0 40 %d %d cm /Im%d Do Q" % (72 + 50 * j, 600, i + 1))
        stream = b"\n".join(ops)
        cont = add(b"<< /Length %d >>\nstream\n" % len(stream) + stream + b"\nendstream")
        used = []
        for i in p:
            if i not in used:
                used.append(i)
        xo = (b" /XObject << " + b" ".join(b"/Im%d %d 0 R" % (i + 1, img_obj[i]) for i in used) + b" >>") if used else b""
        kids.append(add(b"<< /Type /Page /Parent %d 0 R /MediaBox [0 0 612 792] /Contents %d 0 R "
                        b"/Resources << /Font << /F1 %d 0 R >>%s >> >>" % (pgs, cont, font, xo)))
    objs[cat - 1] = b"<< /Type /Catalog /Pages %d 0 R >>" % pgs
    objs[pgs - 1] = b"<< /Type /Pages /Count %d /Kids [%s] >>" % (len(kids), b" ".join(b"%d 0 R" % k for k in kids))
    out = bytearray(b"%PDF-1.4\n%\xe2\xe3\xcf\xd3\n")
    offs = []
    for n, body in enumerate(objs, 1):
        offs.append(len(out))
        out += b"%d 0 obj\n" % n + body + b"\nendobj\n"
    xref = len(out)
    out += b"xref\n0 %d\n0000000000 65535 f \n" % (len(objs) + 1)
    for o in offs:
        out += b"%010d 00000 n \n" % o
    out += b"trailer\n<< /Size %d /Root %d 0 R >>\nstartxref\n%d\n%%%%EOF\n" % (len(objs) + 1, cat, xref)
    return bytes(out)
