"""C09 worker process: runs read_archive on hostile archives under a file-system monitor.

stdin : JSON {"work": W, "token": canary token, "cases": [...]}      stdout: JSON {"results": [...]}
The monitor is `sys.addaudithook` (cannot be removed, hence a dedicated process).  Independently, a few
module-level names of the two source files are wrapped to TRACE the calls the Coq model predicts
(makedirs / open wb / isfile|exists / open rb, parsed 7z header, decoder lengths, skip decisions).
"""
from __future__ import annotations

import gc
import io
import json
import mimetypes
import os
import shutil
import sys
import tempfile

EVENTS = []          # audit events while recording
TRACE = []           # traced calls while recording
REC = {"on": False}
ORIG = {}
WATCH = ("open", "os.mkdir", "os.remove", "os.rename", "os.rmdir", "os.symlink", "os.link", "os.chmod",
         "os.chown", "os.truncate", "os.utime", "os.mkfifo", "os.mknod", "os.listdir", "os.scandir",
         "shutil.rmtree", "shutil.copyfile", "shutil.copytree", "shutil.move", "shutil.copymode",
         "shutil.copystat", "shutil.chown", "shutil.make_archive", "shutil.unpack_archive",
         "tempfile.mkdtemp", "tempfile.mkstemp", "os.system", "subprocess.Popen", "os.exec", "os.posix_spawn",
         "os.chdir", "os.putenv")


def _hook(event, args):
    if not REC["on"] or event not in WATCH:
        return
    try:
        p = args[0] if args else None
        if isinstance(p, bytes):
            p = os.fsdecode(p)
        rec = {"ev": event, "path": p if isinstance(p, (str, int)) or p is None else repr(p)}
        if event == "open":
            rec["mode"] = args[1]
            rec["flags"] = args[2]
        if isinstance(p, str):
            # where the kernel will really go: links created by earlier members are followed (lexical checks miss that)
            REC["on"] = False
            try:
                rec["real"] = os.path.realpath(p)
                if event in ("os.symlink", "os.link", "os.rename") and len(args) > 1 and isinstance(args[1], str):
                    d = args[1]
                    rec["dst_real"] = os.path.join(os.path.realpath(os.path.dirname(d) or "."), os.path.basename(d))
            except Exception:  # noqa
                pass
            finally:
                REC["on"] = True
        if event == "os.mkdir" and isinstance(p, str):
            REC["on"] = False
            try:
                rec["existed"] = os.path.isdir(p)
            finally:
                REC["on"] = True
        if event in ("os.rename", "os.symlink", "os.link") and len(args) > 1:
            rec["dst"] = args[1] if isinstance(args[1], str) else repr(args[1])
        EVENTS.append(rec)
    except Exception as e:  # never let the monitor break the run silently
        EVENTS.append({"ev": "monitor-error", "path": repr(e)})


def install_traces():
    from sharepoint2text.parsing.extractors import archive_extractor as ax
    from sharepoint2text.parsing.extractors.util import sevenzip as sz
    import builtins

    def caller_mod(depth=2):
        return sys._getframe(depth).f_globals.get("__name__", "")

    def mk_open(tag):
        def traced_open(path, mode="r", *a, **k):
            if REC["on"]:
                TRACE.append(["open", tag, mode, path if isinstance(path, str) else repr(path), None])
                i = len(TRACE) - 1
            try:
                f = builtins.open(path, mode, *a, **k)
            except BaseException:
                if REC["on"]:
                    TRACE[i][4] = False
                raise
            if REC["on"]:
                TRACE[i][4] = True
            return f
        return traced_open
    sz.__dict__["open"] = mk_open("sevenzip")
    ax.__dict__["open"] = mk_open("archive_extractor")

    orig_makedirs = os.makedirs

    def traced_makedirs(name, *a, **k):
        mine = REC["on"] and caller_mod().endswith("sevenzip")
        if mine:
            TRACE.append(["makedirs", name, None])
            i = len(TRACE) - 1
        try:
            r = orig_makedirs(name, *a, **k)
        except BaseException:
            if mine:
                TRACE[i][2] = False
            raise
        if mine:
            TRACE[i][2] = True
        return r
    os.makedirs = traced_makedirs

    def wrap_probe(fn, nm):
        def probe(p):
            r = fn(p)
            if REC["on"] and caller_mod().endswith("archive_extractor"):
                # the size of what is on disk at that moment is recorded by the harness itself (oracle for the model's
                # `dsize`), independently of whether the implementation asks for it
                try:
                    sz = int(os.stat(p).st_size) if r else 0
                except OSError:
                    sz = 0
                TRACE.append(["probe", nm, p if isinstance(p, str) else repr(p), bool(r), sz])
            return r
        return probe
    orig_getsize = os.path.getsize

    def traced_getsize(p):
        r = orig_getsize(p)
        if REC["on"] and caller_mod().endswith("archive_extractor"):
            TRACE.append(["getsize", p if isinstance(p, str) else repr(p), int(r)])
        return r
    os.path.getsize = traced_getsize
    os.path.isfile = wrap_probe(os.path.isfile, "isfile")
    os.path.exists = wrap_probe(os.path.exists, "exists")

    obf = sz.SevenZipReader._build_file_list

    def traced_bfl(self, num_files, empty_streams, names, attributes, *more, **kw):
        r = obf(self, num_files, empty_streams, names, attributes, *more, **kw)
        if REC["on"]:
            fo = [None] * len(self._files)
            for k, idxs in self._folder_to_files.items():
                for i in idxs:
                    fo[i] = k
            TRACE.append(["filelist", {
                "n": num_files, "empty": [bool(x) for x in empty_streams], "names": list(names),
                "attrs": [int(x) for x in attributes], "sizes": [int(x) for x in self._file_sizes],
                "streams": [int(f.num_streams) for f in self._folders],
                "files": [[f.filename, int(f.uncompressed), bool(f.is_directory)] for f in self._files],
                "folder_of": fo}])
        return r
    sz.SevenZipReader._build_file_list = traced_bfl

    odf = sz.SevenZipReader._decompress_folder

    def traced_dec(self, folder, *a, **k):
        idx = next((i for i, f in enumerate(self._folders) if f is folder), None)
        try:
            r = odf(self, folder, *a, **k)
        except BaseException:
            if REC["on"]:
                TRACE.append(["dec", idx, None])
            raise
        if REC["on"]:
            TRACE.append(["dec", idx, len(r)])
        return r
    sz.SevenZipReader._decompress_folder = traced_dec

    import zipfile as _zf
    import tarfile as _tf
    ozr = _zf.ZipFile.read

    def traced_zip_read(self, name, *a, **k):
        if REC["on"] and caller_mod().endswith("archive_extractor"):
            idx = next((i for i, x in enumerate(self.filelist) if x is name), None)
            TRACE.append(["read", "zip", idx if idx is not None else repr(name)])
        return ozr(self, name, *a, **k)
    _zf.ZipFile.read = traced_zip_read
    oxf = _tf.TarFile.extractfile

    def traced_extractfile(self, member):
        if REC["on"] and caller_mod().endswith("archive_extractor"):
            idx = next((i for i, x in enumerate(self.getmembers()) if x is member), None)
            TRACE.append(["read", "tar", idx if idx is not None else repr(member)])
        return oxf(self, member)
    _tf.TarFile.extractfile = traced_extractfile

    oss = ax._should_skip_file
    ORIG['skip'] = oss

    def traced_skip(filename, basename):
        r = oss(filename, basename)
        if REC["on"]:
            TRACE.append(["skip", filename, basename, bool(r)])
        return r
    ax._should_skip_file = traced_skip

    ope = ax._process_archive_entry

    def traced_entry(filename, file_data, archive_path, basename):
        n = 0
        rec = ["entry", filename, len(file_data), 0]
        if REC["on"]:
            TRACE.append(rec)
        for x in ope(filename, file_data, archive_path, basename):
            n += 1
            rec[3] = n
            yield x
    return ax, sz, ope, traced_entry


def text_of(r):
    out = []
    try:
        out.append(r.get_full_text())
    except Exception as e:  # noqa
        out.append("<get_full_text raised %s>" % type(e).__name__)
    try:
        m = r.get_metadata()
        out.append(str(getattr(m, "file_path", "")))
    except Exception:  # noqa
        pass
    try:
        out.append(json.dumps(r.to_json(), default=str)[:200000])
    except Exception:  # noqa
        pass
    return out


def wipe(d):
    for name in os.listdir(d):
        q = os.path.join(d, name)
        if os.path.isdir(q) and not os.path.islink(q):
            shutil.rmtree(q, ignore_errors=True)
        else:
            try:
                os.remove(q)
            except OSError:
                pass


def main():
    job = json.load(sys.stdin)
    W = job["work"]
    root = os.path.join(W, "root")
    cwd = os.path.join(W, "cwd")
    os.makedirs(root, exist_ok=True)
    os.makedirs(cwd, exist_ok=True)
    os.chdir(cwd)
    tempfile.tempdir = root
    shutil._use_fd_functions = False          # path-based rmtree: every audit event carries a full path
    import logging
    logging.disable(logging.CRITICAL)
    ax, sz, orig_entry, traced_entry = install_traces()
    from sharepoint2text.parsing import router
    sys.addaudithook(_hook)
    canaries = {}
    cdir = os.path.join(W, "canary")
    for fn in sorted(os.listdir(cdir)):
        p = os.path.join(cdir, fn)
        canaries[p] = (open(p, "rb").read(), os.stat(p).st_mtime_ns)
    real_limits = (ax._config, ax.MAX_ARCHIVE_FILE_SIZE)
    # warm-up (not recorded): first use loads the MIME database and imports extractor modules lazily
    mimetypes.init()
    for w in job.get("warmup", []):
        try:
            for _ in ax.read_archive(io.BytesIO(bytes.fromhex(w)), path="warm"):
                pass
        except Exception:  # noqa
            pass
    wipe(root)
    wipe(cwd)
    results = []
    for case in job["cases"]:
        res = {"id": case["id"]}
        try:
            if case["kind"] == "skipnames":
                out = []
                for fn in case["names"]:
                    bn = os.path.basename(fn)
                    bl = bn.lower()
                    try:
                        m = mimetypes.guess_type(bl)[0]
                    except Exception:  # noqa
                        m = None
                    try:
                        sk = bool(ORIG['skip'](fn, bn))
                    except Exception as e:  # noqa
                        sk = "raise:" + type(e).__name__
                    try:
                        ext = router.get_extractor(bn)
                        ext = [ext.__module__, ext.__name__]
                    except Exception:  # noqa
                        ext = None
                    out.append([fn, bn, bl, m, sk, ext])
                res["skip"] = out
                results.append(res)
                continue
            if "file" in case:                     # large archives are handed over as files
                with open(case["file"], "rb") as fh:
                    data = fh.read()
            else:
                data = bytes.fromhex(case["hex"])
            lim = case.get("limits")
            if lim:
                ax.configure_archive_extraction(max_memory_size=lim[0])
                ax.MAX_ARCHIVE_FILE_SIZE = lim[1]
            res["max_mem"] = ax._config.max_memory_size
            res["max_entry"] = ax.MAX_ARCHIVE_FILE_SIZE
            ax._process_archive_entry = traced_entry if case.get("count_entries") else orig_entry
            before = sorted(os.listdir(root))
            del EVENTS[:]
            del TRACE[:]
            texts, steps = [], []
            gen = ax.read_archive(io.BytesIO(data), path=case.get("path", "A.bin"))
            REC["on"] = True
            try:
                for act in case["actions"]:
                    outcome = None
                    try:
                        if act == "next":
                            r = next(gen)
                            outcome = "yield"
                            REC["on"] = False
                            texts.append(text_of(r))
                            REC["on"] = True
                            del r
                        elif act == "exhaust":
                            for r in gen:
                                REC["on"] = False
                                texts.append(text_of(r))
                                REC["on"] = True
                            r = None
                            outcome = "stop"
                        elif act == "close":
                            gen.close()
                            outcome = "closed"
                        elif act == "throw_exc":
                            r = gen.throw(ValueError("consumer"))
                            outcome = "yield"
                            REC["on"] = False
                            texts.append(text_of(r))
                            REC["on"] = True
                            del r
                        elif act == "throw_base":
                            r = gen.throw(KeyboardInterrupt())
                            outcome = "yield"
                            del r
                        elif act == "drop":
                            gen = None
                            gc.collect()
                            outcome = "dropped"
                    except StopIteration:
                        outcome = "stop"
                    except KeyboardInterrupt:
                        outcome = "raise:KeyboardInterrupt"
                    except Exception as e:  # noqa
                        outcome = "raise:" + type(e).__name__
                    REC["on"] = False
                    finished = True if gen is None else (gen.gi_frame is None)
                    steps.append([act, outcome, len(os.listdir(root)), finished])
                    REC["on"] = True
            finally:
                REC["on"] = False
            # the consumer is done with the generator object in every history: release it
            still_suspended = gen is not None and gen.gi_frame is not None
            res["left_suspended"] = still_suspended
            res["steps"] = steps
            res["listing_at_end"] = sorted(os.listdir(root))
            REC["on"] = True
            gen = None
            gc.collect()
            REC["on"] = False
            res["before"] = before
            # the member listing as the container library reports it (oracle of the loop model)
            try:
                if case["kind"] == "zip":
                    import zipfile as _z
                    with _z.ZipFile(io.BytesIO(data)) as zz:
                        res["listing"] = [[i.filename, bool(i.is_dir()), bool(i.flag_bits & 1), 0, int(i.file_size)] for i in zz.infolist()]
                elif case["kind"].startswith("tar"):
                    import tarfile as _t
                    with _t.open(fileobj=io.BytesIO(data), mode="r:*") as tt:
                        res["listing"] = [[x.name, False, False, x.type[0] if isinstance(x.type, bytes) and x.type else 0, int(x.size)]
                                          for x in tt.getmembers()]
            except Exception:  # noqa
                res["listing"] = None
            res["after"] = sorted(os.listdir(root))
            res["cwd_after"] = sorted(os.listdir(cwd))
            res["events"] = list(EVENTS)
            res["trace"] = json.loads(json.dumps(TRACE, default=repr))
            res["texts"] = texts
            res["cwd"] = cwd
            res["root"] = root
            bad = []
            for p, (content, mt) in canaries.items():
                try:
                    if open(p, "rb").read() != content or os.stat(p).st_mtime_ns != mt:
                        bad.append(p)
                except Exception:  # noqa
                    bad.append(p)
            res["canary_changed"] = bad
            for p in bad:                          # restore, so that later cases are judged on their own
                with open(p, "wb") as fh:
                    fh.write(canaries[p][0])
                canaries[p] = (canaries[p][0], os.stat(p).st_mtime_ns)
            wipe(root)                             # keep later cases independent
            wipe(cwd)
        except Exception as e:  # noqa
            import traceback
            res["harness_error"] = traceback.format_exc()[-1500:]
            REC["on"] = False
        finally:
            ax._config, ax.MAX_ARCHIVE_FILE_SIZE = real_limits
        results.append(res)
    json.dump({"results": results, "code_roots": [p for p in sys.path if p] + [sys.prefix, sys.base_prefix]},
              sys.stdout)


if __name__ == "__main__":
    main()
