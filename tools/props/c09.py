"""C09 — archive processing is confined: no host file is read or written.

G: skip tables / limits / router tables dumped from the live modules into Gen/C09Tables.v
X: call skeletons of the ZIP/TAR functions and of _process_7z_files_sequential from the `ast` -> Gen/C09Skel.v
D: model (vm_compute) vs implementation on os.path / _safe_join / _should_skip_file / 7z file list /
   7z file-system event sequence / generator life cycle; the implementation runs in a worker process under
   sys.addaudithook with canary host files (c09_worker.py); archives come from zipfile, tarfile and the
   harness's own 7z writer (c09_7z.py).
"""
from __future__ import annotations

import ast
import bz2
import gzip
import io
import json
import lzma
import mimetypes
import os
import shutil
import subprocess
import sys
import tarfile
import tempfile
import zipfile
from pathlib import Path

import common
from common import coq_str, coq_list, coq_opt, coq_bool, coq_Z, coq_eval_shards
from props.c09_7z import write_7z, PROP_IDS

AX = "sharepoint2text/parsing/extractors/archive_extractor.py"
SZ = "sharepoint2text/parsing/extractors/util/sevenzip.py"
pair = lambda a, b: f"({a}, {b})"


# ------------------------------------------------------------------------------------ G + X
def gen_tables(ctx):
    from sharepoint2text.parsing import router
    from sharepoint2text.parsing.mime_types import MIME_TYPE_MAPPING
    from sharepoint2text.parsing.extractors import archive_extractor as ax
    reg = router._EXTRACTOR_REGISTRY
    txt = "(* GENERATED on every check run from the live modules of the repo under test — do not edit. *)\n"
    txt += "From Coq Require Import ZArith List.\nFrom S2T Require Import Lib.PyStr C09.Model.\nOpen Scope Z_scope.\n\n"
    txt += "Definition T : R.tables := {|\n"
    txt += "  R.registry := " + coq_list([pair(coq_str(k), pair(coq_str(v[0]), coq_str(v[1]))) for k, v in reg.items()]) + ";\n"
    txt += "  R.aliases := " + coq_list([pair(coq_str(k), coq_str(v)) for k, v in router._EXTENSION_ALIASES.items()]) + ";\n"
    txt += "  R.compound := " + coq_list([pair(coq_str(k), coq_str(v)) for k, v in router._COMPOUND_EXTENSIONS.items()]) + ";\n"
    txt += "  R.supported := " + coq_list([coq_str(k) for k in sorted(router._SUPPORTED_EXTENSIONS)]) + ";\n"
    txt += "  R.mime_map := " + coq_list([pair(coq_str(k), coq_str(v)) for k, v in MIME_TYPE_MAPPING.items()]) + "\n|}.\n\n"
    txt += "Definition NE : list str := " + coq_list([coq_str(e) for e in sorted(ax.NESTED_ARCHIVE_EXTENSIONS)]) + ".\n"
    txt += "Definition ARCHIVE : R.extractor := " + pair(coq_str(ax.read_archive.__module__), coq_str(ax.read_archive.__name__)) + ".\n"
    txt += f"Definition MAX_MEM : Z := {ax._config.max_memory_size}.\n"
    txt += f"Definition MAX_ENTRY : Z := {ax.MAX_ARCHIVE_FILE_SIZE}.\n"
    txt += f"Definition MAX_7Z : Z := {ax.MAX_7Z_FILE_SIZE}.\n"
    txt += "Definition TAR_REGULAR_TYPES : list N := " + coq_list([f"{x[0]}%N" for x in tarfile.REGULAR_TYPES]) + ".\n"
    hp = sorted(ax.HIDDEN_PATTERNS)
    txt += "Definition HIDDEN_PATTERNS : list str := " + coq_list([coq_str(e) for e in hp]) + ".\n"
    ctx.gen_write("Gen/C09Tables.v", txt)


def callee_text(node):
    if isinstance(node, ast.Name):
        return node.id
    if isinstance(node, ast.Attribute):
        return callee_text(node.value) + "." + node.attr
    if isinstance(node, ast.Call):
        return callee_text(node.func) + "()"
    if isinstance(node, ast.Subscript):
        return callee_text(node.value) + "[]"
    return "<" + type(node).__name__ + ">"


def fn_defs(tree):
    return {n.name: n for n in ast.walk(tree) if isinstance(n, (ast.FunctionDef, ast.AsyncFunctionDef))}


def gen_skeletons(ctx):
    """calls made by the ZIP/TAR path (fail-closed: a missing function is an unmet obligation), and for
    _process_7z_files_sequential the origin of the first argument of every call."""
    tree = ast.parse((common.REPO / AX).read_text())
    defs = fn_defs(tree)
    ziptar = ["_extract_from_zip_optimized", "_extract_from_tar_optimized", "_process_archive_entry",
              "_should_skip_file", "_detect_archive_type_optimized", "read_archive",
              "_is_supported_file_cached", "_get_file_extractor_cached", "_get_router_functions"]
    missing = [f for f in ziptar + ["_process_7z_files_sequential", "_extract_from_7z_optimized"] if f not in defs]
    ctx.obligation("skeleton:functions-present", not missing, "missing in archive_extractor.py: " + ", ".join(missing))
    calls = []
    for f in ziptar:
        if f in defs:
            for n in ast.walk(defs[f]):
                if isinstance(n, ast.Call):
                    c = callee_text(n.func)
                    # tarfile.open on an in-memory file object (fileobj=..., no name argument) is not a path open
                    if c == "tarfile.open" and not n.args and any(k.arg == "fileobj" for k in n.keywords) \
                            and not any(k.arg == "name" for k in n.keywords):
                        c = "tarfile.open(fileobj=)"
                    calls.append(c)
    # read_archive dispatches to the 7z function: that callee is accounted for separately
    calls = [c for c in calls if c != "_extract_from_7z_optimized"]
    # isreg guard: `if not member.isreg(): continue` is the first statement of the TAR member loop
    isreg_guard = False
    if "_extract_from_tar_optimized" in defs:
        for n in ast.walk(defs["_extract_from_tar_optimized"]):
            if isinstance(n, ast.For) and n.body:
                st = n.body[0]
                if (isinstance(st, ast.If) and isinstance(st.test, ast.UnaryOp) and isinstance(st.test.op, ast.Not)
                        and isinstance(st.test.operand, ast.Call) and callee_text(st.test.operand.func).endswith(".isreg")
                        and any(isinstance(b, ast.Continue) for b in st.body)):
                    isreg_guard = True
    pairs = []
    yields_inside_with = True
    if "_process_7z_files_sequential" in defs:
        fn = defs["_process_7z_files_sequential"]
        origin = {a.arg: "param:" + a.arg for a in fn.args.args}
        for n in ast.walk(fn):
            if isinstance(n, ast.Assign) and len(n.targets) == 1 and isinstance(n.targets[0], ast.Name):
                v = n.value
                o = callee_text(v.func) if isinstance(v, ast.Call) else "<expr>"
                nm = n.targets[0].id
                origin[nm] = o if nm not in origin or origin[nm] == o else "<several>"
        for n in ast.walk(fn):
            if isinstance(n, ast.Call):
                c = callee_text(n.func)
                if n.args:
                    a0 = n.args[0]
                    o = origin.get(a0.id, "<unknown>") if isinstance(a0, ast.Name) else "<expr>"
                else:
                    o = "<noarg>"
                pairs.append((c, o))
    # every yield of the 7z function that follows the creation of the temp dir is lexically inside the
    # `with tempfile.TemporaryDirectory()` block, and the directory is only ever made by that `with`
    tmp_with = 0
    if "_extract_from_7z_optimized" in defs:
        fn = defs["_extract_from_7z_optimized"]
        inside = set()
        for n in ast.walk(fn):
            if isinstance(n, ast.With) and any(isinstance(i.context_expr, ast.Call) and
                                               callee_text(i.context_expr.func).endswith("TemporaryDirectory")
                                               for i in n.items):
                tmp_with += 1
                for m in ast.walk(n):
                    inside.add(id(m))
        for n in ast.walk(fn):
            if isinstance(n, (ast.Yield, ast.YieldFrom)) and id(n) not in inside:
                yields_inside_with = False
            if isinstance(n, ast.Call) and callee_text(n.func).split(".")[-1] in ("mkdtemp", "mkstemp", "NamedTemporaryFile"):
                yields_inside_with = False
            if isinstance(n, ast.ExceptHandler) and id(n) in inside and (
                    n.type is None or "BaseException" in ast.dump(n.type) or "GeneratorExit" in ast.dump(n.type)):
                yields_inside_with = False
    ctx.obligation("skeleton:7z-yields-inside-TemporaryDirectory-with", yields_inside_with and tmp_with == 1,
                   f"with-blocks={tmp_with}")
    # the handler around the member extractor's yields catches Exception only (GeneratorExit passes)
    ok_handler = False
    if "_process_archive_entry" in defs:
        hs = [n for n in ast.walk(defs["_process_archive_entry"]) if isinstance(n, ast.ExceptHandler)]
        ok_handler = bool(hs) and all(isinstance(h.type, ast.Name) and h.type.id == "Exception" for h in hs)
    ctx.obligation("skeleton:_process_archive_entry-catches-Exception-only", ok_handler, "")
    txt = "(* GENERATED on every check run from the ast of archive_extractor.py — do not edit. *)\n"
    txt += "From S2T Require Import Lib.PyStr.\n\n"
    txt += "Definition zip_tar_calls : list str := " + coq_list([coq_str(c) for c in calls]) + ".\n"
    txt += "Definition tar_isreg_guard : bool := " + coq_bool(isreg_guard) + ".\n"
    txt += "Definition sevenz_pairs : list (str * str) := " + coq_list([pair(coq_str(c), coq_str(o)) for c, o in pairs]) + ".\n"
    ctx.gen_write("Gen/C09Skel.v", txt)
    return calls, pairs


# ------------------------------------------------------------------------------------ Coq terms
def coq_hdr(fl):
    es = coq_list(["{| e_name := %s; e_empty := %s; e_attr := %d%%N |}" % (coq_str(n), coq_bool(e), a)
                   for n, e, a in zip(fl["names"], fl["empty"], fl["attrs"])])
    return ("{| h_entries := %s; h_sizes := %s; h_streams := %s |}"
            % (es, coq_list([coq_Z(z) for z in fl["sizes"]]), coq_list(["%d%%N" % k for k in fl["streams"]])))


def coq_ev(kind, p):
    return f"({kind} {coq_str(p)})"


# ------------------------------------------------------------------------------------ case generation
def name_grammar(W):
    can = os.path.join(W, "canary", "secret.txt")
    g = [
        ("plain", "a.txt"), ("plain-sub", "d/b.md"), ("plain-deep", "deep/x/y/z.csv"), ("plain-space", "a b.txt"),
        ("unicode", "\u00fcn\u00ef\u4e2d.txt"), ("unicode-rlo", "x\u202etxt.md"), ("unicode-fullwidth", "\uff0e\uff0e/\uff46.txt"),
        ("abs-canary", can), ("abs-double-slash", "/" + can), ("abs-canary-md", os.path.join(W, "canary", "secret.md")),   # (never name a real host location: a broken tree would write there)
        ("dotdot-canary", "../../canary/secret.txt"), ("dotdot-write", "../evil.txt"), ("dotdot-mid", "a/../../evil.txt"),
        ("dotdot-inside", "a/../b.txt"), ("dot", "./c.txt"), ("dot-mid", "a/./d.txt"),
        ("dotdot-long", "../" * 12 + can.lstrip("/")), ("dotdot-trail", "sub/../../canary/secret.txt"),
        ("backslash", "a\\b.txt"), ("backslash-dotdot", "..\\..\\canary\\secret.txt"), ("backslash-abs", "\\abs.txt"),
        ("mixed-sep", "a/..\\../c.txt"), ("drive", "C:\\x.txt"), ("drive-slash", "C:/x.txt"), ("drive-rel", "c:x.txt"),
        ("empty", ""), ("slash-only", "/"), ("trailing-slash", "a.txt/"), ("dot-only", "."), ("dotdot-only", ".."),
        ("long-component", "d" * 300 + ".txt"), ("long-path", "ab/" * 150 + "x.txt"), ("long-ok", "e" * 200 + ".txt"),
        ("hidden", ".hidden.txt"), ("hidden-sub", "d/.x.txt"), ("macosx", "__MACOSX/a.txt"), ("macosx-fork", "__MACOSX/._a.txt"),
        ("fork", "._a.txt"), ("unsupported", "x.exe"), ("noext", "noext"), ("unsupported-bin", "d/x.bin"),
        ("mix-bs-dotdot-1", "a\\../..\\b.txt"), ("mix-bs-dotdot-canary", "..\\../canary/secret.txt"),
        ("mix-bs-dotdot-deep", "a/..\\..\\../canary\\secret.txt"), ("mix-bs-lead", "\\..\\/x.txt"),
        ("mix-bs-sub", "sub\\..\\..\\evil.txt"), ("mix-slash-bs", "../\\../evil.txt"),
        ("mix-bs-slash-canary", "..\\/..\\/canary/secret.txt"), ("mix-dotdot-bs-tail", "d/../..\\"),
        ("mix-bs-then-dotdot", "x\\/../../../canary/secret.txt"), ("mix-dot-bs", ".\\./..\\../evil.md"),
        ("collide", "a.txt"), ("file-as-dir", "a.txt/inner.txt"), ("upper", "UP.TXT"),
    ]
    return g


NESTED = ["n.zip", "n.gz", "n.tar.gz", "n.bz2", "n.xz", "n.7z", "n.tgz", "n.taz", "n.tz", "N.GZ", "d/n.tar.bz2", "n.tar",
          "n.txz", "n.tbz2", "n.tar.xz"]


def nested_payload(name, token):
    """a real archive holding inner.txt with the member's token, in the container the name suggests"""
    low = name.lower()
    inner = (f"{token} inner").encode()
    if low.endswith(".zip"):
        b = io.BytesIO()
        with zipfile.ZipFile(b, "w") as z:
            z.writestr("inner.txt", inner)
        return b.getvalue()
    if low.endswith(".7z"):
        return write_7z([{"name": "inner.txt", "data": inner}])
    b = io.BytesIO()
    with tarfile.open(fileobj=b, mode="w") as t:
        ti = tarfile.TarInfo("inner.txt")
        ti.size = len(inner)
        t.addfile(ti, io.BytesIO(inner))
    raw = b.getvalue()
    if low.endswith((".gz", ".tgz", ".taz", ".tz")):
        return gzip.compress(raw)
    if low.endswith((".bz2", ".tbz2")):
        return bz2.compress(raw)
    if low.endswith((".xz", ".txz")):
        return lzma.compress(raw)
    return raw


def build_archive(kind, members, rng, layout=None, zip_method=None):
    """members: list of dicts {name, data|None, tartype?, link?, lie?, attr?}"""
    if kind == "zip":
        b = io.BytesIO()
        with zipfile.ZipFile(b, "w", zip_method if zip_method is not None else
                             rng.choice([zipfile.ZIP_STORED, zipfile.ZIP_DEFLATED])) as z:
            for m in members:
                zi = zipfile.ZipInfo(m["name"] if m["name"] else "")
                zi.compress_type = z.compression        # (a ZipInfo passed to writestr carries its own method: STORED by default)
                if m.get("data") is None:
                    zi.filename = (m["name"].rstrip("/") + "/")
                    z.writestr(zi, b"")
                else:
                    z.writestr(zi, m["data"])
        return b.getvalue()
    if kind.startswith("tar"):
        b = io.BytesIO()
        mode = {"tar": "w", "tar.gz": "w:gz", "tar.bz2": "w:bz2", "tar.xz": "w:xz"}[kind]
        with tarfile.open(fileobj=b, mode=mode, format=tarfile.PAX_FORMAT) as t:
            for m in members:
                ti = tarfile.TarInfo(m["name"])
                tt = m.get("tartype")
                if tt == "sym":
                    ti.type, ti.linkname = tarfile.SYMTYPE, m["link"]
                    t.addfile(ti)
                elif tt == "hard":
                    ti.type, ti.linkname = tarfile.LNKTYPE, m["link"]
                    t.addfile(ti)
                elif tt == "chr":
                    ti.type, ti.devmajor, ti.devminor = tarfile.CHRTYPE, 1, 3
                    t.addfile(ti)
                elif tt == "fifo":
                    ti.type = tarfile.FIFOTYPE
                    t.addfile(ti)
                elif m.get("data") is None:
                    ti.type = tarfile.DIRTYPE
                    t.addfile(ti)
                else:
                    ti.size = len(m["data"])
                    t.addfile(ti, io.BytesIO(m["data"]))
        return b.getvalue()
    # 7z
    files = [{"name": m["name"], "data": m.get("data") if not m.get("lie") else None, "attr": m.get("attr"),
              "empty_file": bool(m.get("emptyfile"))} for m in members]
    lie = [i for i, m in enumerate(members) if m.get("lie")]
    return write_7z(files, layout=layout or rng.choice(["solid", "per-file"]), lie_stream=lie)


HISTORIES = [["exhaust"], ["next", "close"], ["next", "next", "drop"], ["close"], ["drop"], ["throw_exc"],
             ["throw_base"], ["next", "throw_exc", "exhaust"], ["next", "throw_base"], ["next", "next", "next", "close"],
             ["next", "throw_exc", "throw_exc", "close"], ["next", "drop"], ["next"], ["next", "next"],
             ["next", "throw_exc", "drop"], ["exhaust", "next", "close"]]


N_WORKERS = 8


def make_cases(ctx, W):
    rng = ctx.rng
    # every worker process has its own canary directory (a case must be judged by what IT did to the host):
    # names are written against a placeholder root and bound to the worker that will run the case
    PH = "/@@C09WORKER@@"
    grammar = name_grammar(PH)
    cases, meta = [], {}
    cid = [0]

    def add(kind, members, actions, limits=None, count=False, label="", layout=None, zip_method=None, recipe=None):
        cid[0] += 1
        i = cid[0]
        Wk = os.path.join(W, f"w{len(cases) % N_WORKERS}")       # run_cases hands cases[k::N_WORKERS] to worker k
        bound = []
        for mm in members:
            mm = dict(mm)
            mm["name"] = (mm["name"].replace("../" + PH.lstrip("/"), "../" + Wk.lstrip("/")).replace(PH, Wk)
                          .replace(PH.lstrip("/"), Wk.lstrip("/")))
            if mm.get("link"):
                mm["link"] = mm["link"].replace(PH, Wk)
            bound.append(mm)
        members = bound
        if layout is None:
            layout = rng.choice(["solid", "solid", "per-file"]) if kind == "7z" else None
        try:
            data = build_archive(kind, members, rng, layout, zip_method)
        except Exception as e:  # a name the container cannot hold (e.g. NUL, surrogates in zip)
            ctx.count("unbuildable:" + kind)
            return None
        c = {"id": i, "kind": kind, "actions": actions, "path": "A." + kind, "count_entries": count}
        if len(data) > 200000:
            os.makedirs(os.path.join(W, "big"), exist_ok=True)
            c["file"] = os.path.join(W, "big", f"{i}.bin")
            with open(c["file"], "wb") as fh:
                fh.write(data)
        else:
            c["hex"] = data.hex()
        if recipe:
            c["recipe"] = recipe
        if limits:
            c["limits"] = limits
        cases.append(c)
        meta[i] = {"kind": kind, "members": members, "actions": actions, "label": label, "limits": limits, "layout": layout}
        return i

    def add_built(kind, builder, actions, label, limits=None, extra=None):
        """builder(Wk, tok) -> (archive bytes, members); used for hand-crafted containers"""
        cid[0] += 1
        i = cid[0]
        Wk = os.path.join(W, f"w{len(cases) % N_WORKERS}")
        try:
            data, members = builder(Wk, lambda j: f"TOK{ctx.seed}x{i}x{j}Q")
        except Exception as e:  # noqa
            ctx.count("unbuildable:" + kind + ":" + label.split(":")[0])
            return None
        c = {"id": i, "kind": kind, "actions": actions, "path": "A." + kind, "count_entries": False, "hex": data.hex()}
        if limits:
            c["limits"] = limits
        cases.append(c)
        meta[i] = {"kind": kind, "members": members, "actions": actions, "label": label, "limits": limits,
                   "layout": "solid" if kind == "7z" else None}
        if extra:
            meta[i].update(extra)
        return i

    def member(cls, name, idx, **kw):
        tok = f"TOK{ctx.seed}x{cid[0]}x{idx}Q"
        m = {"cls": cls, "name": name, "token": tok, "data": f"{tok} body of {cls}".encode()}
        m.update(kw)
        return m

    kinds = ["zip", "tar", "tar.gz", "7z", "7z", "tar.bz2", "tar.xz"]
    # 1. every hostile name alone (+ one benign companion), in every container, exhausted
    for cls, name in grammar:
        for kind in (kinds if ctx.tier == "thorough" else ["zip", "tar", "7z"]):
            ms = [member("plain", "ok.txt", 0), member(cls, name, 1)]
            add(kind, ms, ["exhaust"], label=cls)
        # 7z: the same name as a LISTED file without data stream (not written by extractall)
        add("7z", [member("plain", "ok.txt", 0), member(cls + "-nostream", name, 1, lie=True)], ["exhaust"],
            label=cls + "-nostream")
        add("7z", [member(cls + "-nostream", name, 0, lie=True)], ["exhaust"], label=cls + "-nostream-alone")
    # 1b. the same names on entries that carry NO data: directory entries in every container, and 7z entries flagged
    #     EmptyStream+EmptyFile (zero-byte files as 7-Zip stores them) — with and without a real stream beside them
    for cls, name in grammar:
        add("7z", [member("plain", "ok.txt", 0), member(cls + "-emptyfile", name, 1, data=None, emptyfile=True)],
            ["exhaust"], label=cls + "-emptyfile")
        add("7z", [member(cls + "-emptyfile", name, 0, data=None, emptyfile=True)], ["exhaust"], label=cls + "-emptyfile-alone")
        add("7z", [member("plain", "ok.txt", 0), member(cls + "-direntry", name, 1, data=None),
                   member("plain", "z.md", 2)], ["exhaust"], label=cls + "-direntry")
        for kind in (["zip", "tar", "tar.gz"] if ctx.tier == "thorough" else [rng.choice(["zip", "tar"])]):
            add(kind, [member("plain", "ok.txt", 0), member(cls + "-direntry", name, 1, data=None)], ["exhaust"],
                label=cls + "-direntry")
    # 1c. extension-less members whose base name spells a type keyword of the router (registry keys, aliases, compound
    #     suffixes without the dot), plain / in a directory / upper case — they have no supported type
    from sharepoint2text.parsing import router as _router
    kws = sorted(set(_router._EXTRACTOR_REGISTRY) | set(_router._EXTENSION_ALIASES) |
                 {k.lstrip(".").replace(".", "") for k in _router._COMPOUND_EXTENSIONS})
    for kind in (kinds if ctx.tier == "thorough" else ["zip", "tar", "7z"]):
        ms = [member("plain", "ok.txt", 0)]
        for j, kw in enumerate(kws):
            nm = [kw, "docs/" + kw, kw.upper(), "x/y/" + kw][j % 4]
            ms.append(member("bare-keyword", nm, j + 1))
        add(kind, ms, ["exhaust"], label="bare-type-keyword", layout="solid" if kind == "7z" else None)
    # 2. nested archives of every routed spelling
    for name in NESTED:
        for kind in ["zip", "tar.gz", "7z"]:
            m = member("nested", name, 1)
            m["data"] = nested_payload(name, m["token"])
            add(kind, [member("plain", "ok.txt", 0), m], ["exhaust"], label="nested:" + name)
    # 3. tar special members
    can = os.path.join(PH, "canary", "secret.txt")
    for tt, link in [("sym", can), ("sym", "../../canary/secret.txt"), ("hard", can), ("hard", "ok.txt"), ("chr", None),
                     ("fifo", None)]:
        for nm in ["link.txt", "d/link.md"]:
            ms = [member("plain", "ok.txt", 0), member("tar-" + tt, nm, 1, tartype=tt, link=link),
                  member("plain", "after.txt", 2)]
            add("tar", ms, ["exhaust"], label="tar-" + tt)
    # 4. directories, 7z dir attribute, empty files
    add("zip", [member("dir", "dd", 0, data=None), member("plain", "dd/in.txt", 1)], ["exhaust"], label="dir")
    add("tar", [member("dir", "dd", 0, data=None), member("plain", "dd/in.txt", 1)], ["exhaust"], label="dir")
    add("7z", [member("dir", "dd", 0, data=None), member("plain", "dd/in.txt", 1), member("plain", "e.txt", 2, data=b"")],
        ["exhaust"], label="dir")
    add("7z", [member("attrdir", "ad.txt", 0, attr=0x10), member("plain", "z.txt", 1, attr=0x20)], ["exhaust"], label="attrdir")
    # 5. size rules with small limits
    for kind in ["zip", "tar", "7z"]:
        big = member("oversize-declared", "big.txt", 1)
        big["data"] = big["data"] + b" " + b"x" * 2500
        mid = member("oversize-actual", "mid.txt", 2)
        mid["data"] = mid["data"] + b" " + b"y" * 1700
        edge = member("plain", "edge.txt", 3)
        edge["data"] = (edge["data"] + b" " + b"z" * 1500)[:1500]
        add(kind, [member("plain", "ok.txt", 0), big, mid, edge], ["exhaust"], limits=[2000, 1500], label="limits")
    # 5b. the size rule at its boundary: limit L lowered through configure_archive_extraction, L a multiple of a
    #     MiB or not, member sizes around L, around the next MiB step, and 2L.  Payloads are highly compressible.
    MiB = 1024 * 1024
    from sharepoint2text.parsing.extractors import archive_extractor as _ax
    real_entry = int(_ax.MAX_ARCHIVE_FILE_SIZE)
    Ls = [1000, 4096, MiB + 3] + ([MiB, 2 * MiB, 3 * MiB - 1, 70000] if ctx.tier == "thorough" else [])
    variants = [("zip", zipfile.ZIP_STORED), ("zip", zipfile.ZIP_DEFLATED), ("zip", zipfile.ZIP_BZIP2), ("zip", zipfile.ZIP_LZMA),
                ("tar", None), ("tar.gz", None), ("7z", None)]
    if ctx.tier == "thorough":
        variants += [("tar.bz2", None), ("tar.xz", None)]
    for L in Ls:
        sizes = [L - 1, L, L + 1, L + MiB - 1, 2 * L] + ([L + MiB, MiB * ((L // MiB) + 1) - 1] if ctx.tier == "thorough" else [])
        for kind, zm in variants:
            if kind == "7z" and L > MiB + 3:
                continue                      # copy coder: keep the archive at a few MB
            ms = []
            for j, n in enumerate(sizes):
                mm = member("plain" if n <= L else "oversize-declared", f"s{j}_{n}.txt", j)
                mm["data"] = (mm["token"].encode() + b" " + b"x" * n)[:n]
                ms.append(mm)
            add(kind, ms, ["exhaust"], limits=[L, real_entry], label="boundary", layout="solid" if kind == "7z" else None,
                zip_method=zm, recipe={"limit": L, "sizes": sizes, "zip_method": zm,
                                       "payload": "token + b' ' + b'x'*n truncated to n bytes, names s<j>_<n>.txt"})
    # 5c. tar link / special members aimed at an oversize member or at a host file: never read, never a result
    can0 = os.path.join(PH, "canary", "secret.txt")
    for kind in ["tar", "tar.gz"]:
        bigm = member("oversize-declared", "big.txt", 0)
        bigm["data"] = (bigm["token"].encode() + b" " + b"x" * 5000)[:5000]
        ms = [bigm, member("tar-hard", "hl.txt", 1, tartype="hard", link="big.txt"),
              member("tar-sym", "sl.txt", 2, tartype="sym", link="big.txt"),
              member("tar-hard", "hl_out.txt", 3, tartype="hard", link=can0),
              member("tar-sym", "sl_out.md", 4, tartype="sym", link="../../canary/secret.txt"),
              member("tar-fifo", "ff.txt", 5, tartype="fifo"), member("tar-chr", "dev.txt", 6, tartype="chr"),
              member("plain", "after.txt", 7)]
        add(kind, ms, ["exhaust"], limits=[3000, real_entry], label="tar-links-oversize")
    # 5d. names that reach the code through container features rather than the plain header name
    HOST = lambda Wk: [("abs-canary", os.path.join(Wk, "canary", "secret.txt")), ("dotdot-canary", "../../canary/secret.txt"),
                       ("hidden", ".hidden.txt"), ("macosx", "__MACOSX/x.txt"), ("nested", "n.gz"), ("unsupported", "x.exe"),
                       ("mix-bs", "..\\../canary/secret.txt"), ("plain", "renamed.md")]

    def payload(cls, nm, tok):
        return nested_payload(nm, tok) if cls == "nested" else f"{tok} body of {cls}".encode()

    def effective(kind, data, members):
        """names as the standard library reports them (oracle), aligned by order"""
        if kind == "zip":
            names = [i.filename for i in zipfile.ZipFile(io.BytesIO(data)).infolist()]
        else:
            with tarfile.open(fileobj=io.BytesIO(data)) as tf:
                names = [x.name for x in tf.getmembers()]
                sizes = [x.size for x in tf.getmembers()]
            for mm, sz in zip(members, sizes):
                mm["declared"] = sz
        for mm, nme in zip(members, names):
            mm["eff"] = nme
        return data, members

    def tar_build(fmt, specs, global_pax=None):
        b = io.BytesIO()
        with tarfile.open(fileobj=b, mode="w", format=fmt, pax_headers=global_pax) as tfw:
            for sp in specs:
                ti = tarfile.TarInfo(sp["ustar"])
                if sp.get("pax"):
                    ti.pax_headers = dict(sp["pax"])
                if sp.get("type") is not None:
                    ti.type, ti.linkname = sp["type"], sp.get("link", "")
                    tfw.addfile(ti)
                else:
                    ti.size = len(sp["raw"])
                    tfw.addfile(ti, io.BytesIO(sp["raw"]))
        return b.getvalue()

    n_host = len(HOST("/x"))
    for hidx in range(n_host):
        # tar: pax `path=` carries the hostile name, the ustar header a benign one
        def b_pax(Wk, tok, hidx=hidx):
            cls, nm = HOST(Wk)[hidx]
            ms = [{"cls": "plain", "name": "ok.txt", "token": tok(0), "data": payload("plain", "ok.txt", tok(0))},
                  {"cls": "pax-path-" + cls, "name": "benign.txt", "token": tok(1), "data": payload(cls, nm, tok(1))}]
            data = tar_build(tarfile.PAX_FORMAT, [{"ustar": "ok.txt", "raw": ms[0]["data"]},
                                                  {"ustar": "benign.txt", "raw": ms[1]["data"], "pax": {"path": nm}}])
            return effective("tar", data, ms)
        add_built("tar", b_pax, ["exhaust"], "pax-path:" + HOST("/x")[hidx][0])

        # tar: GNU sparse 1.0 member whose real name comes from GNU.sparse.name
        def b_sparse(Wk, tok, hidx=hidx):
            cls, nm = HOST(Wk)[hidx]
            real = payload(cls, nm, tok(1))
            mp = b"1\n0\n%d\n" % len(real)
            raw = mp + b"\0" * (512 - len(mp)) + real
            ms = [{"cls": "plain", "name": "ok.txt", "token": tok(0), "data": payload("plain", "ok.txt", tok(0))},
                  {"cls": "sparse-name-" + cls, "name": "GNUSparseFile.0/s.txt", "token": tok(1), "data": real}]
            data = tar_build(tarfile.PAX_FORMAT, [
                {"ustar": "ok.txt", "raw": ms[0]["data"]},
                {"ustar": "GNUSparseFile.0/s.txt", "raw": raw,
                 "pax": {"GNU.sparse.major": "1", "GNU.sparse.minor": "0", "GNU.sparse.name": nm,
                         "GNU.sparse.realsize": str(len(real))}}])
            return effective("tar", data, ms)
        add_built("tar.gz" if hidx % 2 else "tar", b_sparse, ["exhaust"], "sparse-name:" + HOST("/x")[hidx][0])

        # zip: Info-ZIP Unicode Path extra field (0x7075) carries the hostile name
        def b_upath(Wk, tok, hidx=hidx):
            import struct as _st, zlib as _zl
            cls, nm = HOST(Wk)[hidx]
            ms = [{"cls": "plain", "name": "ok.txt", "token": tok(0), "data": payload("plain", "ok.txt", tok(0))},
                  {"cls": "upath-" + cls, "name": "plainname.txt", "token": tok(1), "data": payload(cls, nm, tok(1))}]
            b = io.BytesIO()
            with zipfile.ZipFile(b, "w", zipfile.ZIP_DEFLATED) as z:
                z.writestr("ok.txt", ms[0]["data"])
                zi = zipfile.ZipInfo("plainname.txt")
                u = nm.encode("utf-8")
                zi.extra = _st.pack("<HHBI", 0x7075, 5 + len(u), 1, _zl.crc32(b"plainname.txt")) + u
                z.writestr(zi, ms[1]["data"])
            return effective("zip", b.getvalue(), ms)
        add_built("zip", b_upath, ["exhaust"], "zip-unicode-path:" + HOST("/x")[hidx][0])

        # zip: local header name and central directory name differ (same length), either side hostile
        for side in ("local", "central"):
            def b_mis(Wk, tok, hidx=hidx, side=side):
                cls, nm = HOST(Wk)[hidx]
                hostile = nm.encode("utf-8")
                benign = (b"b" * max(1, len(hostile) - 4) + b".txt")[:len(hostile)] if len(hostile) > 4 else b"b" * len(hostile)
                ms = [{"cls": "plain", "name": "ok.txt", "token": tok(0), "data": payload("plain", "ok.txt", tok(0))},
                      {"cls": f"zip-{side}-name-" + cls, "name": benign.decode(), "token": tok(1),
                       "data": payload(cls, nm, tok(1))}]
                b = io.BytesIO()
                with zipfile.ZipFile(b, "w", zipfile.ZIP_STORED) as z:
                    z.writestr("ok.txt", ms[0]["data"])
                    z.writestr(benign.decode(), ms[1]["data"])
                raw = bytearray(b.getvalue())
                first = raw.find(benign)
                last = raw.rfind(benign)
                pos = first if side == "local" else last
                raw[pos:pos + len(benign)] = hostile
                return effective("zip", bytes(raw), ms)
            add_built("zip", b_mis, ["exhaust"], f"zip-{side}-name-differs:" + HOST("/x")[hidx][0])

    # tar: pax linkpath override / GNU long names and long links / sparse members that are oversize / global pax path
    def b_links(Wk, tok):
        can_ = os.path.join(Wk, "canary", "secret.txt")
        ms = [{"cls": "plain", "name": "ok.txt", "token": tok(0), "data": payload("plain", "ok.txt", tok(0))},
              {"cls": "pax-linkpath-sym", "name": "ls.txt", "token": tok(1), "data": None, "tartype": "sym"},
              {"cls": "pax-linkpath-hard", "name": "lh.txt", "token": tok(2), "data": None, "tartype": "hard"},
              {"cls": "plain", "name": "after.md", "token": tok(3), "data": payload("plain", "after.md", tok(3))}]
        data = tar_build(tarfile.PAX_FORMAT, [
            {"ustar": "ok.txt", "raw": ms[0]["data"]},
            {"ustar": "ls.txt", "type": tarfile.SYMTYPE, "link": "harmless", "pax": {"linkpath": can_}},
            {"ustar": "lh.txt", "type": tarfile.LNKTYPE, "link": "ok.txt", "pax": {"linkpath": "../../canary/secret.txt"}},
            {"ustar": "after.md", "raw": ms[3]["data"]}])
        return effective("tar", data, ms)
    add_built("tar", b_links, ["exhaust"], "pax-linkpath")

    def b_gnulong(Wk, tok):
        can_ = os.path.join(Wk, "canary", "secret.txt")
        n1 = "../" * 60 + can_.lstrip("/")
        n2 = "d/" * 70 + ".hid.txt"
        n3 = "e/" * 70 + "vis.txt"
        ms = [{"cls": "gnu-long-dotdot", "name": n1, "token": tok(0), "data": payload("x", n1, tok(0))},
              {"cls": "gnu-long-hidden", "name": n2, "token": tok(1), "data": payload("x", n2, tok(1))},
              {"cls": "plain", "name": n3, "token": tok(2), "data": payload("x", n3, tok(2))},
              {"cls": "gnu-long-link", "name": "l.txt", "token": tok(3), "data": None, "tartype": "sym"}]
        data = tar_build(tarfile.GNU_FORMAT, [{"ustar": n1, "raw": ms[0]["data"]}, {"ustar": n2, "raw": ms[1]["data"]},
                                              {"ustar": n3, "raw": ms[2]["data"]},
                                              {"ustar": "l.txt", "type": tarfile.SYMTYPE, "link": "/" + "x/" * 80 + can_.lstrip("/")}])
        return effective("tar", data, ms)
    add_built("tar", b_gnulong, ["exhaust"], "gnu-longname")
    add_built("tar.gz", b_gnulong, ["exhaust"], "gnu-longname")

    def b_sparse_big(Wk, tok, realsize=3001, v01=False):
        real = payload("x", "s.txt", tok(1))
        if v01:
            raw, pax = real, {"GNU.sparse.map": "0,%d" % len(real), "GNU.sparse.size": str(realsize), "GNU.sparse.name": "sp01.txt"}
        else:
            mp = b"1\n0\n%d\n" % len(real)
            raw = mp + b"\0" * (512 - len(mp)) + real
            pax = {"GNU.sparse.major": "1", "GNU.sparse.minor": "0", "GNU.sparse.name": "sp10.txt", "GNU.sparse.realsize": str(realsize)}
        ms = [{"cls": "plain", "name": "ok.txt", "token": tok(0), "data": payload("plain", "ok.txt", tok(0))},
              {"cls": "sparse-oversize", "name": "GNUSparseFile.0/s.txt", "token": tok(1), "data": real}]
        data = tar_build(tarfile.PAX_FORMAT, [{"ustar": "ok.txt", "raw": ms[0]["data"]},
                                              {"ustar": "GNUSparseFile.0/s.txt", "raw": raw, "pax": pax}])
        return effective("tar", data, ms)
    add_built("tar", b_sparse_big, ["exhaust"], "sparse-oversize", limits=[3000, real_entry])
    add_built("tar", lambda Wk, tok: b_sparse_big(Wk, tok, 3001, True), ["exhaust"], "sparse-oversize", limits=[3000, real_entry])
    add_built("tar", lambda Wk, tok: b_sparse_big(Wk, tok, 48 * MiB), ["exhaust"], "sparse-oversize")
    add_built("tar", lambda Wk, tok: b_sparse_big(Wk, tok, 3000), ["exhaust"], "sparse-at-limit", limits=[3000, real_entry])

    def b_globalpax(Wk, tok):
        can_ = os.path.join(Wk, "canary", "secret.txt")
        ms = [{"cls": "global-pax-path", "name": "g1.txt", "token": tok(0), "data": payload("x", "g1.txt", tok(0))},
              {"cls": "global-pax-path", "name": "g2.txt", "token": tok(1), "data": payload("x", "g2.txt", tok(1))}]
        data = tar_build(tarfile.PAX_FORMAT, [{"ustar": "g1.txt", "raw": ms[0]["data"]}, {"ustar": "g2.txt", "raw": ms[1]["data"]}],
                         global_pax={"path": can_})
        return effective("tar", data, ms)
    add_built("tar", b_globalpax, ["exhaust"], "global-pax-path")

    # 5e. 7z FilesInfo property sequences: EmptyStream / EmptyFile / Anti / Dummy / time stamps / unknown ids /
    #     repeated and reordered records / external names — tied to the model's parse_files_info
    some_names = [n for _, n in grammar if "\ud800" not in n]
    for r in range(ctx.n(60, 400)):
        def b_props(Wk, tok, r=r):
            n = rng.randint(1, 4)
            def bits():
                return [rng.random() < 0.4 for _ in range(n)]
            def nm():
                x = rng.choice(some_names)
                return (x.replace("../" + PH.lstrip("/"), "../" + Wk.lstrip("/")).replace(PH, Wk)
                        .replace(PH.lstrip("/"), Wk.lstrip("/")))
            props = [("names", [nm() for _ in range(n)], 1 if rng.random() < 0.05 else 0)]
            for _ in range(rng.choice([0, 1, 1, 1, 2])):
                props.append(("empty_stream", bits()))
            for _ in range(rng.choice([0, 0, 1, 2])):
                d = bits()
                props.append(("attrs", d, [rng.choice([0x10, 0x20, 0x30, 0x8010, 0x2000, 0]) for x in d if x]))
            for _ in range(rng.randint(0, 4)):
                props.append(rng.choice([("empty_file", bits()), ("anti", bits()), ("dummy", rng.randint(0, 5)), ("mtime", None),
                                         ("ctime", None), ("startpos", None), ("raw", rng.choice([0x30, 0x1A, 0x16]), b"junk")]))
            rng.shuffle(props)
            final_empty = [False] * n
            for pr in props:
                if pr[0] == "empty_stream":
                    final_empty = pr[1]
            k = sum(1 for e in final_empty if not e) + rng.choice([0, 0, 0, -1, 1])
            streams = [f"{tok(j)} stream {j}".encode() for j in range(max(0, k))]
            data = write_7z(None, props=props, n_files=n, streams=streams)
            return data, [{"cls": "props", "name": "<props>", "token": tok(0), "data": None, "lie": True}], (n, props)
        cid[0] += 1
        i = cid[0]
        Wk = os.path.join(W, f"w{len(cases) % N_WORKERS}")
        data, members, pinfo = b_props(Wk, lambda j, i=i: f"TOK{ctx.seed}x{i}x{j}Q")
        cases.append({"id": i, "kind": "7z", "actions": ["exhaust"], "path": "A.7z", "count_entries": False, "hex": data.hex()})
        meta[i] = {"kind": "7z", "members": members, "actions": ["exhaust"], "label": "filesinfo-props", "limits": None,
                   "layout": "solid", "props": pinfo}
    # 5e'. ZIP entries carrying the encryption flag (bit 0) at every position, on skipped names and on directories;
    #      tar members of every type flag incl. contiguous / old-style regular / block device
    def b_encflag(Wk, tok, which):
        names = ["first.txt", ".hidden.txt", "dd/", "mid.md", "x.exe", "last.txt"]
        ms = [{"cls": "enc-" + which, "name": n, "token": tok(j), "data": None if n.endswith("/") else f"{tok(j)} body".encode()}
              for j, n in enumerate(names)]
        b = io.BytesIO()
        with zipfile.ZipFile(b, "w", zipfile.ZIP_STORED) as z:
            for mm in ms:
                z.writestr(mm["name"], mm["data"] or b"")
        raw = bytearray(b.getvalue())
        pos, k = raw.find(b"PK\x01\x02"), 0
        while pos >= 0:
            if names[k] == which:
                raw[pos + 8] |= 1
            k += 1
            pos = raw.find(b"PK\x01\x02", pos + 4)
        for mm in ms:
            mm["lie"] = True            # results of this archive are not attributed: the whole archive must fail
        return bytes(raw), ms
    for which in ["first.txt", ".hidden.txt", "dd/", "mid.md", "x.exe", "last.txt"]:
        add_built("zip", lambda Wk, tok, which=which: b_encflag(Wk, tok, which), ["exhaust"], "zip-encrypted-flag:" + which)

    def b_tartypes(Wk, tok):
        specs, ms = [], []
        for j, (nm, ty) in enumerate([("reg.txt", tarfile.REGTYPE), ("cont.txt", tarfile.CONTTYPE), ("areg.txt", tarfile.AREGTYPE),
                                      ("blk.txt", tarfile.BLKTYPE), ("chr.txt", tarfile.CHRTYPE), ("fifo.txt", tarfile.FIFOTYPE),
                                      ("sym.txt", tarfile.SYMTYPE), ("hard.txt", tarfile.LNKTYPE), ("dir.txt", tarfile.DIRTYPE),
                                      ("after.md", tarfile.REGTYPE)]):
            regular = ty in (tarfile.REGTYPE, tarfile.CONTTYPE, tarfile.AREGTYPE)
            d = f"{tok(j)} body {nm}".encode()
            ms.append({"cls": "plain" if regular else "tar-type-" + ty.decode("latin1"), "name": nm, "token": tok(j),
                       "data": d if regular else None, "tartype": None if regular else "special"})
        b = io.BytesIO()
        with tarfile.open(fileobj=b, mode="w", format=tarfile.GNU_FORMAT) as tfw:
            for mm, (nm, ty) in zip(ms, [(x["name"], None) for x in ms]):
                pass
            for j, mm in enumerate(ms):
                ti = tarfile.TarInfo(mm["name"])
                ti.type = [tarfile.REGTYPE, tarfile.CONTTYPE, tarfile.AREGTYPE, tarfile.BLKTYPE, tarfile.CHRTYPE, tarfile.FIFOTYPE,
                           tarfile.SYMTYPE, tarfile.LNKTYPE, tarfile.DIRTYPE, tarfile.REGTYPE][j]
                if mm["data"] is not None:
                    ti.size = len(mm["data"])
                    tfw.addfile(ti, io.BytesIO(mm["data"]))
                else:
                    ti.linkname = os.path.join(Wk, "canary", "secret.txt") if ti.type in (tarfile.SYMTYPE, tarfile.LNKTYPE) else ""
                    tfw.addfile(ti)
        return effective("tar", b.getvalue(), ms)
    add_built("tar", b_tartypes, ["exhaust"], "tar-all-type-flags")
    add_built("tar.gz", b_tartypes, ["exhaust"], "tar-all-type-flags")
    # 5f. the SECOND occurrence of a name: duplicate member names whose entries differ in what the rules see (size),
    #     in both orders, in every container — each entry must be judged and read on its own
    for kind, zm in [("zip", zipfile.ZIP_STORED), ("zip", zipfile.ZIP_DEFLATED), ("tar", None), ("tar.gz", None), ("7z", None)]:
        for order in ("small-big", "big-small", "small-big-small"):
            ms = []
            for j, what in enumerate(order.split("-")):
                mm = member("plain" if what == "small" else "oversize-declared", "dup.txt", j)
                n = 900 if what == "small" else 5000
                mm["data"] = (mm["token"].encode() + b" " + what.encode() + b" " + b"x" * n)[:n]
                ms.append(mm)
            ms.append(member("plain", "other.md", 9))
            import warnings
            with warnings.catch_warnings():
                warnings.simplefilter("ignore")
                add(kind, ms, ["exhaust"], limits=[3000, real_entry], label="duplicate-names:" + order, zip_method=zm,
                    layout=rng.choice(["solid", "per-file"]) if kind == "7z" else None)
    # 5g. members that must be skipped standing BEFORE visible ones, one 7z folder per member (non-solid) as well as solid,
    #     and in zip/tar: no byte of a skipped member may surface under another member's name
    for kind, layout in [("7z", "per-file"), ("7z", "solid"), ("zip", None), ("tar", None)]:
        for cls, nm in [("hidden", ".x.txt"), ("macosx", "__MACOSX/._v.txt"), ("nested", "n.zip"), ("nested", "n.gz"),
                        ("unsupported", "blob.exe"), ("oversize-declared", "huge.txt")]:
            first = member(cls, nm, 0)
            if cls == "nested":
                first["data"] = nested_payload(nm, first["token"])
            elif cls == "oversize-declared":
                first["data"] = (first["token"].encode() + b" " + b"x" * 5000)[:5000]
            else:
                first["data"] = (first["token"].encode() + b" skipped member body " + b"s" * 200)
            second = member(cls, "d/" + nm, 2)
            second["data"] = first["data"].replace(first["token"].encode(), second["token"].encode()) if cls != "nested" \
                else nested_payload(nm, second["token"])
            ms = [first, member("plain", "visible.txt", 1), second, member("plain", "visible2.md", 3)]
            add(kind, ms, ["exhaust"], limits=[3000, real_entry], label="skipped-before-visible:" + cls, layout=layout)
    # 5h. 7z members carrying the UNIX symbolic-link attribute (p7zip convention), alone and in CHAINS where a later link
    #     walks through an earlier one; both encodings of the attributes record (with / without the 'external' byte)
    LNK = (0o120777 << 16) | 0x8000
    REG = (0o100644 << 16) | 0x8000 | 0x20

    def b_links7z(Wk, tok, shape, ext):
        can_ = os.path.join(Wk, "canary", "secret.txt")
        body = (tok(9) + " regular member").encode()
        if shape.startswith("chain-read"):
            k = int(shape[-1])
            files = [("x/up", b"..", LNK), ("x/l.txt", ("up/" + "../" * k + "canary/secret.txt").encode(), LNK), ("ok.txt", body, REG)]
        elif shape.startswith("chain-write"):
            k = int(shape[-1])
            files = [("x/up", b"..", LNK), ("x/out", ("up/" + "../" * k).rstrip("/").encode() or b"up", LNK),
                     ("x/out/dropped.txt", body, REG), ("ok.txt", body, REG)]
        elif shape == "chain3":
            files = [("a/u1", b"..", LNK), ("a/u2", b"u1/..", LNK), ("a/l.md", b"u2/../canary/secret.md", LNK), ("ok.txt", body, REG)]
        elif shape == "single-abs":
            files = [("l.txt", can_.encode(), LNK), ("ok.txt", body, REG)]
        elif shape == "single-dotdot":
            files = [("d/l.txt", b"../../../canary/secret.txt", LNK), ("ok.txt", body, REG)]
        elif shape == "dir-link-then-file":
            files = [("out", b"..", LNK), ("out/evil.txt", body, REG), ("ok.txt", body, REG)]
        else:
            files = [("self", b"self", LNK), ("loop/a", b"b", LNK), ("loop/b", b"a", LNK), ("ok.txt", body, REG)]
        data = write_7z([{"name": n, "data": d, "attr": a} for n, d, a in files], layout=rng.choice(["solid", "per-file"]),
                        attr_external_byte=ext)
        ms = [{"cls": "7z-symlink-" + shape if a == LNK else "plain", "name": n, "token": tok(j) + "-absent", "data": d}
              for j, (n, d, a) in enumerate(files)]
        ms[-1]["token"] = tok(9)
        return data, ms
    for shape in ["chain-read1", "chain-read2", "chain-read3", "chain-read4", "chain-write0", "chain-write1", "chain-write2",
                  "chain3", "single-abs", "single-dotdot", "dir-link-then-file", "loops"]:
        for ext in (False, True):
            add_built("7z", lambda Wk, tok, shape=shape, ext=ext: b_links7z(Wk, tok, shape, ext), ["exhaust"],
                      f"7z-symlink-attr:{shape}:{'ext' if ext else 'noext'}")
    # 6. consumer behaviours on multi-member archives (7z: with a pre-run that records the oracle `yields`)
    n_hist = ctx.n(2, 6)
    for r in range(n_hist):
        for kind in ["7z", "zip", "tar.gz"]:
            k = rng.randint(2, 5)
            pool = [("plain", "m%d.txt"), ("plain", "d/m%d.md"), ("corrupt", "c%d.docx"), ("unsupported", "u%d.exe"),
                    ("hidden", ".h%d.txt"), ("plain", "s/t/m%d.csv")]
            ms = []
            for j in range(k):
                cls, pat = rng.choice(pool)
                ms.append(member(cls, pat % j, j))
            hostile = rng.choice([None, None, ("dotdot-write", "../evil%d.txt"), ("abs-canary", can), ("empty", "")])
            if hostile and kind == "7z" and rng.random() < 0.5:
                ms.append(member(hostile[0], hostile[1] % 9 if "%d" in hostile[1] else hostile[1], k))
            pre = add(kind, ms, ["exhaust"], count=(kind == "7z"), label="history-pre")
            hs = list(HISTORIES)
            for _ in range(ctx.n(2, 8)):
                hs.append([rng.choice(["next", "next", "close", "throw_exc", "throw_base", "drop"]) for _ in range(rng.randint(1, 5))])
            for hst in hs:
                i = add(kind, ms, hst, label="history")
                if i is not None:
                    meta[i]["pre"] = pre
    # 7. random mixtures
    for r in range(ctx.n(40, 600)):
        kind = rng.choice(kinds)
        k = rng.randint(1, 6)
        ms = []
        for j in range(k):
            cls, name = rng.choice(grammar)
            kw = {}
            if kind == "7z" and rng.random() < 0.25:
                kw["lie"] = True
                cls += "-nostream"
            elif rng.random() < 0.15:
                kw["data"] = None                      # directory entry / 7z zero-byte file entry
                if kind == "7z" and rng.random() < 0.6:
                    kw["emptyfile"] = True
                cls += "-emptyfile" if kw.get("emptyfile") else "-direntry"
            ms.append(member(cls, name, j, **kw))
        if rng.random() < 0.3:
            nm = rng.choice(NESTED)
            m = member("nested", nm, k)
            m["data"] = nested_payload(nm, m["token"])
            ms.append(m)
        rng.shuffle(ms)
        add(kind, ms, rng.choice(HISTORIES), label="mix")
    # 8. corrupt containers
    for kind in ["zip", "tar", "7z", "tar.gz"]:
        good = build_archive(kind, [member("plain", "a.txt", 0), member("plain", "b.txt", 1)], rng)
        for r in range(ctx.n(6, 60)):
            bts = bytearray(good)
            mode = rng.choice(["truncate", "flip", "flip", "garbage-tail"])
            if mode == "truncate":
                bts = bts[: rng.randint(1, len(bts) - 1)]
            elif mode == "flip":
                for _ in range(rng.randint(1, 4)):
                    bts[rng.randrange(len(bts))] ^= 1 << rng.randrange(8)
            else:
                bts += bytes(rng.randrange(256) for _ in range(20))
            cid[0] += 1
            i = cid[0]
            cases.append({"id": i, "kind": kind, "hex": bytes(bts).hex(), "actions": rng.choice(HISTORIES), "path": "A." + kind,
                          "count_entries": False})
            meta[i] = {"kind": kind, "members": [], "actions": cases[-1]["actions"], "label": "corrupt:" + mode, "limits": None}
    # 9. direct skip decisions over a name grammar
    skipnames = [n for _, n in grammar] + NESTED + [
        "x.GZ", "x.tar.GZ", "a.b.gz", ".gz", "gz", "x.gzip", "x.docx", "x.DOCX", "d/x.pdf", "x.zipx", "x.7Z", "__MACOSX/x.docx",
        "__macosx/x.txt", "sub/__MACOSX/x.txt", "x.tar.gz.txt", "x.txt.gz", "x.epub", "x.odt", "x.eml", "x.tbz2", "x.unknown",
        "x.jar", "x.war", "x.rar", "x.html", "x.json", "..txt", "d/..", "d/.", "x.taz", "x.tz", "x.tar.bz2", "y.xz", "Y.BZ2"]
    for e in sorted(set(mimetypes.types_map) | set(mimetypes.suffix_map) | set(mimetypes.encodings_map)):
        skipnames.append("f" + e)
    for kw in kws:
        skipnames += [kw, "d/" + kw, kw.upper(), kw + ".", "." + kw]
    cid[0] += 1
    cases.append({"id": cid[0], "kind": "skipnames", "names": skipnames})
    meta[cid[0]] = {"kind": "skipnames", "label": "skipnames"}
    return cases, meta


def warmup_archives():
    import random
    r = random.Random(1)
    ms = [{"name": n, "data": b"warm up " + n.encode()} for n in
          ["w.txt", "w.md", "w.csv", "w.json", "w.tsv", "w.html", "w.docx", "w.xlsx", "w.pptx", "w.pdf", "w.odt", "w.eml",
           "w.rtf", "w.doc", "w.xls", "w.ppt", "w.epub", "w.msg", "w.mbox", "w.mhtml", "w.ods", "w.odp", "w.exe", "w.gz"]]
    return [build_archive(k, ms, r).hex() for k in ("zip", "tar", "tar.gz", "tar.bz2", "tar.xz", "7z")]


def run_worker(W, token, cases, timeout):
    env = dict(os.environ)
    job = json.dumps({"work": W, "token": token, "cases": cases, "warmup": warmup_archives()})
    p = subprocess.run([sys.executable, str(Path(__file__).with_name("c09_worker.py"))], input=job, text=True,
                       capture_output=True, env=env, timeout=timeout)
    if p.returncode != 0:
        raise RuntimeError("worker failed: " + p.stderr[-1500:])
    return json.loads(p.stdout)


# ------------------------------------------------------------------------------------ oracle
def inside(path, td):
    n = os.path.normpath(path)
    return n == td or n.startswith(td + "/")


def judge(ctx, c, m, res, token, roots, router_info):
    """property oracle on the implementation's observable behaviour (independent of the model)"""
    kind, label = m["kind"], m["label"]
    root, cwd = res["root"], res["cwd"]
    tds = [e["path"] for e in res["events"] if e["ev"] == "tempfile.mkdtemp"]
    # tempfile.mkdtemp audits (suffix, prefix, dir) BEFORE choosing the name: take created dirs from os.mkdir under root
    made = [e["path"] for e in res["events"] if e["ev"] == "os.mkdir" and isinstance(e["path"], str)
            and os.path.dirname(e["path"]) == root and not e.get("existed")]
    tds = made
    hx = c.get("hex")
    replay = {"archive_kind": kind, "archive_hex": (hx if len(hx) < 20000 else hx[:20000] + "...") if hx else None,
              "recipe": c.get("recipe"),
              "actions": m["actions"], "members": [{k: (v.decode("latin1") if isinstance(v, bytes) else v) for k, v in mm.items()
                                                   if k in ("cls", "name", "lie", "tartype", "link")} for mm in m["members"]],
              "limits": m["limits"], "how": "configure_archive_extraction(max_memory_size=limits[0]) if limits; archive = bytes.fromhex(archive_hex), or (large "
                     "archives) rebuilt from `recipe`: members s<j>_<n>.txt of exactly n bytes in a <archive_kind> container; "
                     "read_archive(io.BytesIO(archive), path='A.<kind>'); consumer = actions"}
    n_code = 0
    for e in res["events"]:
        ev, p = e["ev"], e["path"]
        if ev == "tempfile.mkdtemp" or ev == "monitor-error":
            if ev == "monitor-error":
                ctx.obligation("monitor-ok", False, str(p))
            continue
        if not isinstance(p, str):
            ctx.finding(f"fs-event-nonpath:{kind}:{ev}", f"{ev} on a non-path {p!r} during {label}", dict(replay, event=e))
            continue
        full = p if p.startswith("/") else os.path.join(cwd, p)
        real = e.get("real") or full
        if ev in ("os.symlink", "os.link"):
            # creating a link is judged by WHERE it is created (the target string is only text until it is followed;
            # every later event is judged on its resolved path)
            full = e.get("dst") or full
            full = full if full.startswith("/") else os.path.join(cwd, full)
            real = e.get("dst_real") or full
        if any(inside(full, td) and inside(real, td) for td in tds):
            continue
        if ev == "os.mkdir" and e.get("existed") and any(inside(td, os.path.normpath(full)) for td in tds + [root]):
            continue   # makedirs(exist_ok) on an existing ancestor of the private directory: no-op
        if ev == "os.mkdir" and os.path.dirname(os.path.normpath(full)) == root and full in tds:
            continue
        under_code = any((full + "/").startswith(r.rstrip("/") + "/") for r in roots)
        if ev == "open" and (e.get("mode") in ("r", "rb") or e.get("mode") is None) and under_code and \
                (full.endswith((".py", ".pyc", ".so", ".pth")) or "__pycache__" in full):
            n_code += 1          # lazy import of an extractor module: code loading, not data
            continue
        if ev in ("os.listdir", "os.scandir") and under_code:
            n_code += 1          # importlib's FileFinder lists package directories
            continue
        via = f" (resolves to {real!r})" if real != os.path.normpath(full) else ""
        ctx.finding(f"fs-outside:{kind}:{ev}:{label if label not in ('mix', 'history') else 'mixed'}",
                    f"{ev} on {p!r}{via} outside the private temporary directory while processing a {kind} ({label})",
                    dict(replay, event=e, tempdirs=tds))
    ctx.count("code-load-reads", n_code)
    for td in tds:
        if os.path.dirname(td) != root:
            ctx.finding(f"tempdir-elsewhere:{kind}", f"temporary directory {td} not under the temp root", replay)
    if kind != "7z" and tds:
        ctx.finding(f"tempdir-for-{kind}", f"{kind} processing created a temporary directory", replay)
    # life cycle: nothing left once the generator is finished / released
    hist = "-".join(m["actions"])
    for act, outcome, n, finished in res["steps"]:
        if finished and n != 0:
            ctx.finding(f"tempdir-left:{kind}:{hist}", f"{n} temporary directories left after '{act}' ({outcome}) although the "
                        f"generator is finished; history {m['actions']}", dict(replay, steps=res["steps"]))
            break
    if res["before"] or res["after"]:
        ctx.finding(f"temp-root-not-clean:{kind}:{hist}", f"temp root listing before={res['before']} after={res['after']} "
                    f"(history {m['actions']}, then dropped)", dict(replay, steps=res["steps"]))
    if res["cwd_after"]:
        ctx.finding(f"cwd-written:{kind}:{label}", f"files appeared in the working directory: {res['cwd_after']}", replay)
    if res["canary_changed"]:
        ctx.finding(f"canary-modified:{kind}:{label}", f"host files modified: {res['canary_changed']}", replay)
    alltext = "\n".join(t for ts in res["texts"] for t in ts)
    if token in alltext:
        cls = sorted({mm["cls"] for mm in m["members"] if "canary" in mm["cls"] or "nostream" in mm["cls"]}) or [label]
        ctx.finding(f"host-content-in-result:{kind}:{cls[0]}", f"content of a host file appears in a result of a {kind} archive "
                    f"(member classes {cls})", dict(replay, classes=cls))
    # skip rules: the token of a member that must be skipped appears in no result
    # (a 7z entry listed without its own stream shifts the stream->name assignment: attribution by token is
    #  only meaningful when every stream-carrying entry has its own data)
    # (multi-folder 7z archives are attributed too: the C10 pack-offset defect is repaired on HEAD, and a skipped
    #  member's bytes surfacing under another member's name is exactly what must not happen)
    attributable = not any(x.get("lie") for x in m["members"])
    for mm in (m["members"] if attributable else []):
        nm = mm.get("eff", mm["name"])           # the name the container library reports (pax / unicode-path overrides)
        bn = os.path.basename(nm)
        declared = mm.get("declared", len(mm["data"]) if mm.get("data") is not None else 0)
        limit = min(m["limits"]) if m["limits"] else min(res["max_mem"], res["max_entry"])
        if mm.get("data") is None or mm.get("tartype") or mm.get("lie"):
            rule = "non-regular" if not mm.get("lie") else None
        elif bn.startswith("."):
            rule = "hidden"
        elif nm.startswith("__MACOSX/"):
            rule = "macosx"
        elif os.path.splitext(bn.lower())[1] == "" and mimetypes.guess_type(bn.lower())[0] is None:
            # independent of the router under test: a base name without an extension (and unknown to the MIME
            # database) has no supported type, even if it spells a type keyword ('json', 'md', 'csv')
            rule = "unsupported-no-extension"
        else:
            ri = router_info(bn)
            if not ri["supported"]:
                rule = "unsupported"
            elif ri["archive"]:
                rule = "nested-archive-by-router"
            elif mm.get("attr") is not None and mm["attr"] & 0x10:
                rule = None
            elif declared > limit:                                          # exact: size > limit
                rule = "oversize"
                if m["label"] == "boundary":
                    rule = "oversize-boundary"
                elif m["label"].startswith("duplicate-names"):
                    rule = "oversize-duplicate-name"
            else:
                rule = None
        if rule and mm["token"] in alltext:
            ext = os.path.splitext(bn.lower())[1] or bn.lower()
            if rule == "oversize-boundary":
                ctx.finding(f"skip:oversize-boundary:{kind}", f"member {nm!r} of {len(mm['data'])} bytes produced a result from a "
                            f"{kind} archive although max_memory_size={m['limits'][0]} (oversize members never produce results)",
                            dict(replay, member=nm, size=len(mm["data"]), max_memory_size=m["limits"][0], rule=rule))
            elif rule == "unsupported-no-extension":
                ctx.finding(f"skip:unsupported-no-extension:{kind}", f"extension-less member {nm!r} of a {kind} archive produced a "
                            f"result (unsupported types never produce results)", dict(replay, member=nm, rule=rule))
            elif rule == "oversize-duplicate-name":
                ctx.finding(f"skip:oversize-duplicate-name:{kind}", f"{kind} archive listing the name {nm!r} more than once "
                            f"({m['label'].split(':')[1]}): the {len(mm['data'])}-byte entry exceeds max_memory_size={limit} but its "
                            f"content appears in a result (served under the same-named smaller entry)",
                            dict(replay, member=nm, size=len(mm["data"]), max_memory_size=limit, order=m["label"], rule=rule))
            else:
                ctx.finding(f"skip:{rule}:{ext}", f"member {nm!r} ({rule}) of a {kind} archive produced a result",
                            dict(replay, member=nm, rule=rule))
    return tds


# ------------------------------------------------------------------------------------ run
def run(ctx):
    import logging
    logging.disable(logging.CRITICAL)
    ctx.rule = ("archives (zip stored/deflated, tar plain/gz/bz2/xz, 7z solid/per-file with and without data streams) over a "
                "hostile member-name grammar x consumer histories over {next, close, throw(Exception), throw(BaseException), drop}; "
                "non-trivial = a hostile member name (anything but the plain classes) or a non-exhausting consumer")
    ctx.trusted += [
        "G-dump: tools/props/c09.py prints NESTED_ARCHIVE_EXTENSIONS, limits, read_archive's (module, name) and the router "
        "tables of the imported modules as Coq literals",
        "X: tools/props/c09.py collects callee texts / first-argument origins from the ast of archive_extractor.py",
        "oracles (universally quantified in the theorems; recorded in the correspondence): parsed 7z header, decoder output "
        "lengths, which makedirs/open calls fail, host file system, str.lower, mimetypes.guess_type, results per member",
        "modelled by hand, tied by differential runs: posixpath join/normpath/abspath/dirname/basename, _safe_join, "
        "_build_file_list, extractall/_extract_files_from_folder, _process_7z_files_sequential (incl. the size-on-disk guard; "
        "os.path.getsize answers are a recorded oracle), _should_skip_file, size rules, "
        "generator life cycle of read_archive on 7z",
        "monitor: sys.addaudithook in a worker process (CPython raises the events), harness 7z writer, zipfile/tarfile writers",
        "CPython finalises a dropped generator promptly (refcount) — exercised, not proved",
        "tarfile / zipfile header decoding (pax path/linkpath/size overrides, GNU long names and links, GNU sparse maps 0.1/1.0, "
        "Info-ZIP Unicode Path 0x7075, local-vs-central name check) is a stdlib oracle: the harness records the names and sizes "
        "the library reports and judges the skip rules on those; only confinement and the skip/size rules are checked there",
        "7z FilesInfo: the byte-level decoding of bit vectors / UTF-16 names / uint32 attributes is exercised through the "
        "harness writer (model input = semantic property list, implementation input = its encoding); real 7-Zip writes an "
        "'external' byte before the attribute values which this reader does not consume (attribute values of real archives "
        "are shifted) — not confinement-relevant, outside C09",
        "sampled, not exhaustive: 60 (quick) / 400 (thorough) random FilesInfo property sequences of 1-4 entries; 8 hostile "
        "names x {pax path, GNU.sparse.name, zip unicode path, zip local/central mismatch}",
    ]
    ctx.assumptions += ["POSIX os.path; tempfile.TemporaryDirectory returns a fresh absolute normalised directory and removes it "
                        "on __exit__; no symlinks pre-exist inside the fresh directory"]
    gen_tables(ctx)
    gen_skeletons(ctx)

    ctx.prove("C09/Props.v", ["C09/Proofs.vo"], expected=[
        "C09_safe_join_confined", "C09_safe_join_below_plain", "C09_7z_events_confined", "C09_reads_subset_writes",
        "C09_reads_subset_writes_refuted_orig", "C09_skips", "C09_tempdir_balance", "C09_tempdir_gone",
        "C09_tempdir_gone_when_done", "C09_zip_tar_no_fs", "C09_7z_paths_from_safe_join",
        "C09_ignored_props_inert", "C09_streamless_entries_inert", "C09_streamless_no_write_outside",
        "C09_oversize_on_disk_never_read", "C09_tar_reads_pass_all_rules", "C09_tar_links_devices_never_read",
        "C09_zip_reads_pass_all_rules", "C09_zip_encrypted_nothing_read"])
    ctx.prove("C09/Inst.v", ["Gen/C09Tables.vo", "Gen/C09Skel.vo", "C09/Corr.vo", "C09/Proofs.vo"], expected=[
        "C09_limits_wf", "C09_routed_archive_exts_skipped", "C09_archive_registered", "C09_skel_zip_tar_no_fs",
        "C09_skel_zip_tar_reads_in_memory", "C09_skel_7z_paths_from_safe_join", "C09_skips_refuted_orig",
        "C09_tar_regular_types_wf"])

    from sharepoint2text.parsing import router
    from sharepoint2text.parsing.extractors import archive_extractor as ax
    from sharepoint2text.parsing.extractors.util import sevenzip as sz

    def router_info(bn, _c={}):
        if bn not in _c:
            try:
                sup = bool(router.is_supported_file(bn))
            except Exception:  # noqa
                sup = False
            try:
                f = router.get_extractor(bn)
                arch = (f.__module__, f.__name__) == (ax.read_archive.__module__, ax.read_archive.__name__)
            except Exception:  # noqa
                arch = False
            _c[bn] = {"supported": sup, "archive": arch}
        return _c[bn]

    # ---- worker run
    W = tempfile.mkdtemp(prefix="c09-", dir="/var/tmp")
    token = f"C09CANARY{ctx.seed}Z{ctx.rng.randrange(10**9)}"
    try:
        os.makedirs(os.path.join(W, "canary"))        # template; each worker gets its own copy
        for fn in ["secret.txt", "secret.docx", "secret.md"]:
            Path(W, "canary", fn).write_text(f"{token} host file {fn}\n")
        cases, meta = make_cases(ctx, W)
        chunks = [cases[i::8] for i in range(8)]
        from concurrent.futures import ThreadPoolExecutor
        outs = []
        with ThreadPoolExecutor(max_workers=8) as ex:
            futs = []
            for k, ch in enumerate(chunks):
                Wk = os.path.join(W, f"w{k}")
                os.makedirs(Wk)
                shutil.copytree(os.path.join(W, "canary"), os.path.join(Wk, "canary"))
                futs.append(ex.submit(run_worker, Wk, token, ch, ctx.n(600, 2400)))
            for f in futs:
                outs.append(f.result())
        results = {}
        roots = set()
        for o in outs:
            roots |= set(o["code_roots"])
            for r in o["results"]:
                results[r["id"]] = r
    finally:
        shutil.rmtree(W, ignore_errors=True)
    roots = sorted(roots | {str(common.REPO)})

    path_cases, sj_cases, skip_cases, z7_cases, fl_cases, life_cases = [], [], [], [], [], []
    z7_info, life_info, skip_info = [], [], []
    size_cases, size_info = [], []
    fi_cases, fi_info = [], []
    loop_cases, loop_info = [], []
    herr = []
    pre_prog = {}
    for c in cases:
        r = results.get(c["id"])
        m = meta[c["id"]]
        if r is None or r.get("harness_error"):
            herr.append((c["id"], (r or {}).get("harness_error", "no result")))
            continue
        if c["kind"] == "skipnames":
            for fn, bn, bl, mt, sk, ext in r["skip"]:
                ctx.case(("skipname", fn), True, kind="skip-direct")
                if isinstance(sk, str):
                    ctx.finding(f"skip-raises:{os.path.splitext(bl)[1]}", f"_should_skip_file({fn!r}) {sk}", {"name": fn})
                    continue
                if not sk and os.path.splitext(bl)[1] == "" and mt is None:
                    ctx.finding("skip:unsupported-no-extension:direct", f"_should_skip_file({fn!r}) is False although the base name "
                                f"has no extension and no MIME type (unsupported types never produce results)", {"name": fn})
                # oracle: what the router sends to read_archive must be skipped
                if ext == [ax.read_archive.__module__, ax.read_archive.__name__] and not sk:
                    e = os.path.splitext(bl)[1] or bl
                    ctx.finding(f"skip:nested-archive-by-router:{e}", f"_should_skip_file({fn!r}) is False although the router "
                                f"dispatches {bn!r} to read_archive (nested archive not skipped)", {"name": fn, "extractor": ext})
                skip_cases.append(f"({coq_str(fn)}, {coq_str(bn)}, {coq_str(bl)}, {coq_opt(mt, coq_str)}, {coq_bool(sk)})")
                skip_info.append(fn)
            continue
        hostile = any(not mm["cls"].startswith("plain") for mm in m["members"]) or m["label"].startswith("corrupt")
        nonexh = m["actions"] != ["exhaust"]
        ctx.case((m["kind"], m["label"], [(mm["cls"], mm["name"]) for mm in m["members"]], m["actions"]), hostile or nonexh,
                 kind=f"{m['kind']}:{m['label'].split(':')[0]}")
        ctx.traces += 1
        tds = judge(ctx, c, m, r, token, roots, router_info)
        # recorded skip decisions -> model cases
        for t in r["trace"]:
            if t[0] == "skip":
                fn, bn, sk = t[1], t[2], t[3]
                bl = bn.lower()
                try:
                    mt = mimetypes.guess_type(bl)[0]
                except Exception:  # noqa
                    mt = None
                skip_cases.append(f"({coq_str(fn)}, {coq_str(bn)}, {coq_str(bl)}, {coq_opt(mt, coq_str)}, {coq_bool(sk)})")
                skip_info.append(fn)
        if m["kind"] != "7z" and m["actions"] == ["exhaust"] and r.get("listing") is not None and r["steps"]:
            outc = r["steps"][0][1]
            want = None
            if outc == "stop":
                rd = [t[2] for t in r["trace"] if t[0] == "read"]
                if all(isinstance(x, int) for x in rd):
                    want = "Some " + coq_list([f"{x}%nat" for x in rd])
            elif outc == "raise:ExtractionFileEncryptedError" and not any(t[0] == "read" for t in r["trace"]):
                want = "None"
            if want is not None:
                skipped = sorted({t[1] for t in r["trace"] if t[0] == "skip" and t[3]})
                ms_ = coq_list(["{| a_name := %s; a_dir := %s; a_enc := %s; a_type := %d%%N; a_size := %s |}"
                                % (coq_str(a), coq_bool(b), coq_bool(c_), d, coq_Z(e)) for a, b, c_, d, e in r["listing"]])
                loop_cases.append("(%s, %s, TAR_REGULAR_TYPES, %s, %s, %s)" % (
                    coq_bool(m["kind"].startswith("tar")), coq_Z(r["max_mem"]), ms_, coq_list([coq_str(x) for x in skipped]), want))
                loop_info.append((c["id"], m["kind"], m["label"], outc))
            elif outc.startswith("raise:ExtractionFileEncryptedError"):
                ctx.finding(f"encrypted-after-read:{m['kind']}", "a ZIP member was read before the encrypted entry was reported",
                            {"label": m["label"], "archive_hex": c.get("hex")})
        if m["label"] == "boundary":
            alltext = "\n".join(x for ts in r["texts"] for x in ts)
            for mm in m["members"]:
                n = len(mm["data"])
                size_cases.append(f"({coq_Z(r['max_mem'])}, {coq_Z(r['max_entry'])}, {coq_Z(n)}, {coq_Z(n)}, "
                                  f"{coq_bool(mm['token'] in alltext)})")
                size_info.append((m["kind"], c.get("recipe", {}).get("zip_method"), r["max_mem"], n))
        if m["kind"] != "7z":
            continue
        fls = [t[1] for t in r["trace"] if t[0] == "filelist"]
        if m.get("props"):
            n, props = m["props"]

            def coq_prop(pr):
                if pr[0] == "empty_stream":
                    return "PEmptyStream " + coq_list([coq_bool(x) for x in pr[1]])
                if pr[0] == "names":
                    return f"PNames {coq_bool(pr[2] != 0)} " + coq_list([coq_str(x) for x in pr[1]])
                if pr[0] == "attrs":
                    return "PAttrs " + coq_list([coq_bool(x) for x in pr[1]]) + " " + coq_list([f"{v}%N" for v in pr[2]])
                pid = pr[1] if pr[0] == "raw" else PROP_IDS[pr[0]]
                return f"PIgnored {pid}%N"
            if len(fls) == 1:
                fl = fls[0]
                want = "Some " + coq_list([f"({coq_str(a)}, {coq_bool(b)}, {c_}%N)" for a, b, c_ in zip(fl["names"], fl["empty"], fl["attrs"])])
            else:
                want = "None"
            fi_cases.append(f"({n}%nat, {coq_list(['(' + coq_prop(pr) + ')' for pr in props])}, {want})")
            fi_info.append((n, props))
        if len(fls) == 1:
            fl = fls[0]
            fl_cases.append("(%s, %s, %s)" % (
                coq_hdr(fl), coq_list([f"({coq_str(n)}, {coq_Z(z)}, {coq_bool(d)})" for n, z, d in fl["files"]]),
                coq_list([coq_opt(k, lambda k: f"{k}%nat") for k in fl["folder_of"]])))
            if m["actions"] == ["exhaust"] and len(tds) == 1:
                base = tds[0]
                decs = {t[1]: t[2] for t in r["trace"] if t[0] == "dec"}
                nf = len(fl["streams"])
                dec_l = coq_list([coq_opt(decs.get(k), coq_Z) if k in decs else "None" for k in range(nf)])
                bad_d = [t[1] for t in r["trace"] if t[0] == "makedirs" and t[2] is False]
                bad_w = [t[3] for t in r["trace"] if t[0] == "open" and t[2] == "wb" and t[4] is False]
                skipped = [t[1] for t in r["trace"] if t[0] == "skip" and t[3]]
                evs = []
                for t in r["trace"]:
                    if t[0] == "makedirs":
                        evs.append(coq_ev("Mkdirs", t[1]))
                    elif t[0] == "open":
                        evs.append(coq_ev("OpenW" if "w" in t[2] else "OpenR", t[3]))
                    elif t[0] == "probe":
                        evs.append(coq_ev("Probe", t[2]))
                dsz = {}
                for t in r["trace"]:
                    if t[0] == "probe" and len(t) > 4:
                        dsz.setdefault(t[2], t[4])
                z7_cases.append("{| c_cwd := %s; c_base := %s; c_hdr := %s; c_dec := %s; c_bad_dirs := %s; c_bad_writes := %s; "
                                "c_skipped := %s; c_max_mem := %d; c_dsizes := %s; c_events := %s |}" % (
                                    coq_str(r["cwd"]), coq_str(base), coq_hdr(fl), dec_l, coq_list([coq_str(x) for x in bad_d]),
                                    coq_list([coq_str(x) for x in bad_w]), coq_list([coq_str(x) for x in skipped]),
                                    r["max_mem"], coq_list([f"({coq_str(k)}, {coq_Z(v)})" for k, v in dsz.items()]),
                                    coq_list(evs)))
                z7_info.append((c["id"], m["label"], [(mm["cls"], mm["name"]) for mm in m["members"]]))
        # life-cycle programs: the pre-run (exhaust with counted entries) is the oracle for `yields`
        if c.get("count_entries"):
            st = r["steps"][0]
            ys = [t[3] for t in r["trace"] if t[0] == "entry"]
            failed = st[1].startswith("raise")
            pre_prog[c["id"]] = {"pre_fail": failed and not tds, "extract_fail": failed and bool(tds), "yields": ys}
        if "pre" in m and m["pre"] in pre_prog:
            P = pre_prog[m["pre"]]
            acts, obs = [], []
            amap = {"next": "Next", "close": "Close", "throw_exc": "ThrowExc", "throw_base": "ThrowBase", "drop": "Drop"}
            okc = True
            for act, outcome, n, finished in r["steps"]:
                if act == "exhaust":
                    okc = False
                    break
                acts.append(amap[act])
                obs.append(f"({coq_Z(n)}, {coq_bool(finished)})")
            if okc:
                life_cases.append("({| pre_fail := %s; extract_fail := %s; yields := %s |}, %s, %s)" % (
                    coq_bool(P["pre_fail"]), coq_bool(P["extract_fail"]), coq_list([f"{y}%nat" for y in P["yields"]]),
                    coq_list(acts), coq_list(obs)))
                life_info.append((c["id"], m["actions"], P, r["steps"]))
    ctx.obligation("harness:all-worker-cases-completed", not herr, str(herr[:2])[:1500])

    # ---- environment dimension: the results of read_archive on a sample of the generated (well-formed, small) archives
    #      must not depend on DEBUG logging, thread, time zone or cwd.  In-process, with tempfile pointed at a private
    #      nested directory; corrupt containers and large archives stay in the watchdogged worker only.
    sample = [c for c in cases if c.get("hex") and len(c["hex"]) < 40000 and c["kind"] != "skipnames"
              and not meta[c["id"]]["label"].startswith("corrupt") and meta[c["id"]]["actions"] == ["exhaust"]
              and not meta[c["id"]]["limits"]]
    ctx.rng.shuffle(sample)
    sample = sample[: ctx.n(120, 400)]
    sweep_root = tempfile.mkdtemp(prefix="c09-sweep-", dir="/var/tmp")
    old_tmp = tempfile.tempdir
    try:
        os.makedirs(os.path.join(sweep_root, "a", "b", "c"))
        tempfile.tempdir = os.path.join(sweep_root, "a", "b", "c")

        def sweep_fn(c):
            out = []
            for res in ax.read_archive(io.BytesIO(bytes.fromhex(c["hex"])), path="A." + c["kind"]):
                try:
                    fp = res.get_metadata().file_path
                except Exception:  # noqa
                    fp = None
                out.append((fp, res.get_full_text()[:2000]))
            return tuple(out)
        common.env_sweep(ctx, "read_archive", sweep_fn, sample,
                         describe=lambda c: repr((c["kind"], meta[c["id"]]["label"], c["hex"][:4000])))
    finally:
        tempfile.tempdir = old_tmp
        shutil.rmtree(sweep_root, ignore_errors=True)

    # ---- os.path / _safe_join correspondence (pure functions, run in-process)
    rng = ctx.rng
    alpha = ["a", "b", ".", "..", "/", "//", "\\", "c:", "\u00e9", " ", "x.txt", "./", "../", "/.", "/..", "..."]
    strs = ["", "/", "//", "///", ".", "..", "a", "a/", "/a", "//a", "///a", "a//b", "a/./b", "a/../b", "../a", "/../a", "//../a",
            "a/b/../../..", "/a/b/../../..", "a/..", "/tmp/x", "/tmp/x/", "\\", "a\\..\\b", "C:\\x", "...", "a/...", ".../b"]
    for _ in range(ctx.n(400, 4000)):
        strs.append("".join(rng.choice(alpha) for _ in range(rng.randint(0, 7))))
    strs = sorted(set(strs))
    for a in strs:
        path_cases.append(f"(1%N, {coq_str(a)}, [], {coq_str(os.path.normpath(a))})")
        path_cases.append(f"(2%N, {coq_str(a)}, [], {coq_str(os.path.dirname(a))})")
        path_cases.append(f"(3%N, {coq_str(a)}, [], {coq_str(os.path.basename(a))})")
        path_cases.append(f"(5%N, {coq_str(a)}, [], {coq_str('1' if os.path.isabs(a) else '0')})")
        b = rng.choice(strs)
        path_cases.append(f"(0%N, {coq_str(a)}, {coq_str(b)}, {coq_str(os.path.join(a, b))})")
    here = os.getcwd()
    for a in strs:
        path_cases.append(f"(4%N, {coq_str(here)}, {coq_str(a)}, {coq_str(os.path.abspath(a))})")
    bases = ["/var/tmp/r/tmpab12", "/var/tmp/r/tmpab12/", "/", "rel/base", "/a/../b", "//x", "/tmp/x y"]
    names = [n for _, n in name_grammar("/var/tmp/r")] + strs
    sj_names = []
    for b in bases:
        for n in names:
            if b != bases[0] and rng.random() < 0.7:
                continue
            try:
                want = sz._safe_join(b, n)
            except sz.Bad7zFile:
                want = None
            sj_cases.append(f"({coq_str(here)}, {coq_str(b)}, {coq_str(n)}, {coq_opt(want, coq_str)})")
            sj_names.append((b, n, want))
            ctx.case(("safe_join", b, n), True, kind="safe_join")
            # oracle on the implementation: a returned path is the base or below it, with no dot components
            if want is not None and n != "":
                ba = os.path.abspath(b)
                if not (want == ba or want.startswith(ba.rstrip("/") + "/")) or ".." in want.split("/"):
                    ctx.finding(f"safe_join-escapes:{n[:20]}", f"_safe_join({b!r}, {n!r}) = {want!r} escapes the base",
                                {"base": b, "name": n, "got": want})

    pre = "From Coq Require Import ZArith List.\nFrom S2T Require Import Lib.PyStr C09.Path C09.Model C09.Corr Gen.C09Tables.\nOpen Scope Z_scope.\n"

    def corr(name, fn, cs, ty, info=None, shard=400):
        if not cs:
            ctx.obligation(f"correspondence:{name}", False, "no cases were produced")
            return
        ok, failing, log = coq_eval_shards(ctx, name, pre, fn, cs, shard=shard, ty=ty)
        ctx.disagreements += len(failing)
        first = (info[failing[0]] if info and failing else "")
        ctx.obligation(f"correspondence:{name} ({len(cs)} cases)", ok and not failing,
                       (f"{len(failing)} disagreements, first: {first!r} " + log)[:1500])
        ctx.extra[f"corr_{name}"] = len(cs)
        if failing:
            ctx.extra[f"corr_{name}_failing"] = [repr(info[i])[:300] if info else i for i in failing[:5]]

    corr("ospath", "path_case", path_cases, "N * str * str * str", shard=800)
    corr("safe_join", "safe_join_case", sj_cases, "str * str * str * option str", info=sj_names, shard=500)
    seen = set()
    sc2, si2 = [], []
    for cse, inf in zip(skip_cases, skip_info):
        if cse not in seen:
            seen.add(cse)
            sc2.append(cse)
            si2.append(inf)
    corr("should_skip", "(skip_case T NE ARCHIVE)", sc2, "str * str * str * option str * bool", info=si2, shard=150)
    corr("sevenzip_filelist", "filelist_case", fl_cases, "hdr * list (str * Z * bool) * list (option nat)", shard=200)
    corr("sevenzip_fs_events", "case7z_ok", z7_cases, "case7z", info=z7_info, shard=100)
    corr("sevenzip_filesinfo_props", "filesinfo_case", fi_cases, "nat * list fprop * option (list (str * bool * N))",
         info=fi_info, shard=200)
    corr("zip_tar_member_loops", "loop_case", loop_cases, "bool * Z * list N * list amember * list str * option (list nat)",
         info=loop_info, shard=150)
    corr("size_rule", "(size_case T NE ARCHIVE)", size_cases, "Z * Z * Z * Z * bool", info=size_info, shard=300)
    corr("lifecycle", "life_case", life_cases, "prog * list action * list (Z * bool)", info=life_info, shard=300)


META = {
    "technique": "Coq proof over an executable model of archive_extractor.py / sevenzip.py path handling (POSIX os.path, "
                 "_safe_join, 7z file list -> written set, read-back, skip rules, generator life cycle) + kernel-decided "
                 "obligations on tables and call skeletons regenerated from the repo + vm_compute differential correspondence "
                 "+ audit-hook file-system monitor on hostile archives",
    "design_ref": "DESIGN.md §5 C09",
    "level_text": "Kernel-checked: _safe_join returns only the base or dot-free paths below it for ALL names; every modelled "
                  "file-system event of a 7z run lies in the private directory (one named no-op excepted); every path read back "
                  "was written by the same run; skip rules incl. router-defined nested archives yield no result for all tables / "
                  "lower / MIME db; temp-dir count is 0 in every terminal state of every consumer history; ZIP/TAR functions make "
                  "no file-system call (ast skeleton). 7z FilesInfo: EmptyFile/Anti/Dummy/time/unknown property records are inert and "
                  "entries without a data stream cause no file-system event at all (run equals the run on the header without them). "
                  "ZIP/TAR member loops: only regular-type, non-skipped, within-limit members are ever read into memory; tar links/devices/"
                  "fifos/directories never; one encrypted ZIP entry anywhere stops the archive before any read. "
                  "The code before the repair is refuted by proof and by replay. Model tied to "
                  "the code by differential runs on os.path, _safe_join, _should_skip_file, the 7z file list, the traced FS call "
                  "sequence and the life cycle; the property itself is also observed directly with sys.addaudithook and canary files.",
    "level_note": "Trusted: Coq kernel+VM; G/X printers; hand-written model (validated differentially); oracles: 7z header parser, "
                  "decoders, OS failures, host FS, str.lower, mimetypes, per-member extractors; CPython audit events, prompt "
                  "finalisation of dropped generators, tempfile.TemporaryDirectory semantics; kernel/FS races and symlinks planted "
                  "in /tmp by other processes are not covered. Not modelled (stdlib oracles, exercised with hostile inputs only): "
                  "tarfile pax/GNU-longname/sparse decoding, zipfile Unicode-path and local/central name handling; 7z kAnti "
                  "semantics (the reader ignores anti items) and external-names records (rejected: modelled as Bad7zFile).",
}
