"""C16 — e-mail: headers, bodies, attachments and mailbox boundaries.

G: routing tables / MIME map, the two regular expressions and two literals are dumped from the live modules into
   Gen/C16Tables.v; C16/Inst.v re-decides the obligations over them.
D: the model (C16/Model.v, evaluated by vm_compute) against the implementation on: single lines vs MBOX_FROM_PATTERN,
   whole mailboxes vs _split_mbox_messages, _unfold_header, recorded MIME trees vs get_body_content, recorded
   decode_header/getaddresses/bytes.decode values vs decode_header_value/parse_email_addresses, EmailContent
   construction/units/full text, attachment routing (spy on the router), _read_eml_format over the recorded
   mailparser result.
Property oracle (on the implementation's outputs): messages generated from specs (c16_gen) written as .eml (LF/CRLF) and
   as mailboxes of 0..N messages (LF/CRLF, mboxrd/mboxo quoting): every field against the spec, .eml against .mbox,
   each supported attachment through iterate_supported_attachments against the same bytes extracted alone.
"""
from __future__ import annotations

import base64
import datetime
import email
import email.message
import email.policy
import email.header
import email.utils
import hashlib
import io
import mimetypes
import re

from common import REPO, coq_str, coq_bytes, coq_list, coq_bool, coq_opt, coq_eval_shards

from props import c16_gen as G

pair = lambda a, b: f"({a}, {b})"


# ------------------------------------------------------------------------------------------ G
def gen_tables(ctx):
    from sharepoint2text.parsing import router
    from sharepoint2text.parsing.mime_types import MIME_TYPE_MAPPING
    from sharepoint2text.parsing.extractors.mail import mbox_email_extractor as MB
    from sharepoint2text.parsing.extractors.mail import eml_email_extractor as EM
    reg = router._EXTRACTOR_REGISTRY
    txt = "(* GENERATED on every check run from the live modules of the repository - do not edit. *)\n"
    txt += "From S2T Require Import Lib.PyStr.\nFrom S2T Require C07.Model.\n\nDefinition T : C07.Model.tables := {|\n"
    txt += "  C07.Model.registry := " + coq_list([pair(coq_str(k), pair(coq_str(v[0]), coq_str(v[1]))) for k, v in reg.items()]) + ";\n"
    txt += "  C07.Model.aliases := " + coq_list([pair(coq_str(k), coq_str(v)) for k, v in router._EXTENSION_ALIASES.items()]) + ";\n"
    txt += "  C07.Model.compound := " + coq_list([pair(coq_str(k), coq_str(v)) for k, v in router._COMPOUND_EXTENSIONS.items()]) + ";\n"
    txt += "  C07.Model.supported := " + coq_list([coq_str(k) for k in sorted(router._SUPPORTED_EXTENSIONS)]) + ";\n"
    txt += "  C07.Model.mime_map := " + coq_list([pair(coq_str(k), coq_str(v)) for k, v in MIME_TYPE_MAPPING.items()]) + "\n|}.\n\n"
    fp = MB.MBOX_FROM_PATTERN
    txt += f"Definition from_pattern : str := {coq_str(fp.pattern.decode('latin-1') if isinstance(fp.pattern, bytes) else fp.pattern)}.\n"
    txt += f"Definition from_pattern_multiline : bool := {coq_bool((fp.flags & ~re.UNICODE) == re.MULTILINE)}.\n"
    txt += f"Definition from_pattern_bytes : bool := {coq_bool(isinstance(fp.pattern, bytes))}.\n"
    fold = getattr(MB, "_HEADER_FOLD_PATTERN", None)
    txt += f"Definition fold_pattern : str := {coq_str(fold.pattern) if fold is not None and isinstance(fold.pattern, str) else '[]'}.\n"
    txt += f"Definition fold_pattern_flags_plain : bool := {coq_bool(fold is not None and fold.flags == re.UNICODE)}.\n"
    consts = EM._read_eml_format.__code__.co_consts
    txt += f"Definition eml_default_filename : str := {coq_str('attachment') if 'attachment' in consts else '[]'}.\n"
    txt += f"Definition eml_default_mime : str := {coq_str('application/octet-stream') if 'application/octet-stream' in consts else '[]'}.\n"
    txt += "\nFrom S2T Require C16.Loop.\nImport C16.Loop.\n"
    txt += "Definition attachment_loop : list st := " + attachment_loop_skeleton(EM) + ".\n"
    ctx.gen_write("Gen/C16Tables.v", txt)


def attachment_loop_skeleton(EM) -> str:
    """X: the body of `for attachment in mail.attachments:` in _read_eml_format as a C16.Loop.st list.  Fail-closed: every
    statement kind that is not known to be harmless becomes SUnknown (and the Inst obligation breaks); no such loop, or more
    than one, gives [SUnknown]."""
    import ast
    import inspect
    import textwrap
    tree = ast.parse(textwrap.dedent(inspect.getsource(EM._read_eml_format)))
    loops = [n for n in ast.walk(tree) if isinstance(n, ast.For) and isinstance(n.iter, ast.Attribute) and n.iter.attr == "attachments"]
    if len(loops) != 1 or loops[0].orelse:
        return "[SUnknown]"

    def is_append(s):
        return (isinstance(s, ast.Expr) and isinstance(s.value, ast.Call) and isinstance(s.value.func, ast.Attribute)
                and s.value.func.attr == "append" and isinstance(s.value.func.value, ast.Name) and s.value.func.value.id == "attachments")

    def stmts(body):
        return "[" + "; ".join(stmt(s) for s in body) + "]"

    def stmt(s):
        if is_append(s):
            return "SAppend"
        if isinstance(s, ast.If):
            return f"(SIf {stmts(s.body)} {stmts(s.orelse)})"
        if isinstance(s, ast.Continue):
            return "SContinue"
        if isinstance(s, ast.Break):
            return "SBreak"
        if isinstance(s, (ast.Return, ast.Raise)):
            return "SRaise"
        if isinstance(s, (ast.Assign, ast.AnnAssign, ast.AugAssign, ast.Pass)) or (isinstance(s, ast.Expr) and not any(
                isinstance(n, (ast.Yield, ast.YieldFrom, ast.Await)) for n in ast.walk(s))):
            # assignments and expression statements: any `attachments` mutation other than the one append is not harmless
            names = [n for n in ast.walk(s) if isinstance(n, ast.Name) and n.id == "attachments"]
            return "SUnknown" if names else "SSkip"
        return "SUnknown"       # try / with / nested loops / del / ... : not in the modelled shape
    return stmts(loops[0].body)


# ------------------------------------------------------------------------------------------ implementation drivers
def canon_mail(m):
    return {
        "subject": m.subject, "from": (m.from_email.name, m.from_email.address),
        "to": [(a.name, a.address) for a in m.to_emails], "cc": [(a.name, a.address) for a in m.to_cc],
        "date": m.metadata.date, "msgid": m.metadata.message_id, "plain": m.body_plain, "html": m.body_html,
        "att": [(a.filename, a.mime_type, hashlib.sha256(a.data.getvalue()).hexdigest(), len(a.data.getvalue()))
                for a in m.attachments],
    }


def run_eml(raw):
    from sharepoint2text.parsing.extractors.mail.eml_email_extractor import read_eml_format_mail
    try:
        return list(read_eml_format_mail(io.BytesIO(raw))), None
    except Exception as e:  # noqa
        return None, f"{type(e).__name__}: {e} / cause {e.__cause__!r}"


def run_mbox(raw):
    from sharepoint2text.parsing.extractors.mail.mbox_email_extractor import read_mbox_format_mail
    out = []
    try:
        for m in read_mbox_format_mail(io.BytesIO(raw)):
            out.append(m)
        return out, None
    except Exception as e:  # noqa
        return out, f"{type(e).__name__}: {e} / cause {e.__cause__!r}"


def check_path_invariance(ctx, fmt, raw, base_results, name):
    """The optional `path` argument (read_file, CLI, archive members, attachments all pass one) may only fill the file
    location fields: every message must come back exactly as without it - message by message (date, message id, ...)."""
    from sharepoint2text.parsing.extractors.mail import read_eml_format_mail, read_mbox_format_mail, read_msg_format_mail
    fn = {"eml": read_eml_format_mail, "mbox": read_mbox_format_mail, "msg": read_msg_format_mail}[fmt]
    try:
        with_path = list(fn(io.BytesIO(raw), path=name))
    except Exception as e:  # noqa
        ctx.finding(f"{fmt}:path-argument:fails", f"{fmt}: extraction with path={name!r} fails ({e!r}) but works without",
                    {"input_b64": base64.b64encode(raw).decode("ascii"), "path": name})
        return
    a = [canon_mail(m) for m in base_results]
    b = [canon_mail(m) for m in with_path]
    if a != b:
        k = next((i for i in range(min(len(a), len(b))) if a[i] != b[i]), min(len(a), len(b)))
        fields = [f for f in (a[k] if k < len(a) else {}) if k < len(b) and a[k][f] != b[k][f]]
        ctx.finding(f"{fmt}:path-argument:changes-result", f"{fmt}: with path={name!r} message {k + 1} of {len(a)} differs in {fields}: "
                    f"{[b[k][f] for f in fields]!r:.200} instead of {[a[k][f] for f in fields]!r:.200}",
                    {"input_b64": base64.b64encode(raw).decode("ascii"), "path": name, "message_index": k, "fields": fields})
    want_name = name.rsplit("/", 1)[-1]
    bad = [i for i, m in enumerate(with_path) if m.metadata.filename != want_name]
    if bad:
        ctx.finding(f"{fmt}:path-argument:filename", f"{fmt}: metadata.filename of message {bad[0] + 1} is {with_path[bad[0]].metadata.filename!r}, "
                    f"path was {name!r}", {"input_b64": base64.b64encode(raw).decode("ascii"), "path": name})


def header_is_folded(raw: bytes, name: bytes) -> bool:
    head = raw.replace(b"\r\n", b"\n").split(b"\n\n", 1)[0].split(b"\n")
    for i, line in enumerate(head):
        if line.lower().startswith(name.lower() + b":"):
            return i + 1 < len(head) and head[i + 1][:1] in (b" ", b"\t")
    return False


def has_from_line(raw: bytes) -> bool:
    return re.search(rb"^>*From ", raw.replace(b"\r\n", b"\n"), re.M) is not None


def iso_equal(got: str, want: datetime.datetime, same_offset: bool) -> bool:
    try:
        d = datetime.datetime.fromisoformat(got)
    except Exception:  # noqa
        return False
    if want.tzinfo is None:            # "-0000" / no zone: no zone information must come back as a naive date
        return d.tzinfo is None and d == want
    if d.tzinfo is None:
        return False
    return d == want and (not same_offset or d.utcoffset() == want.utcoffset())


def nfc_mail(c):
    """Canonical-equivalence view of an extracted message: mailparser (the .eml parser) returns headers and part of the
    bodies in Unicode normalisation form C (unicodedata.normalize('NFC', ...) in its utils), e.g. U+FA1E -> U+7FBD,
    U+212B -> U+00C5, e + U+0301 -> U+00E9.  Canonically equivalent text is the same text; look-alike but NOT equivalent
    characters (U+301C vs U+FF5E, ...) stay different under NFC."""
    import unicodedata
    n = lambda s_: unicodedata.normalize("NFC", s_) if isinstance(s_, str) else s_
    out = dict(c)
    for k in ("subject", "plain", "html", "msgid"):
        out[k] = n(c[k])
    out["from"] = tuple(n(x) for x in c["from"])
    for k in ("to", "cc"):
        out[k] = [tuple(n(x) for x in a) for a in c[k]]
    return out


def nl(s):
    return (s or "").replace("\r\n", "\n").strip()


def alone_extract(name, mime_type, data):
    """The attached file on its own: the extractor the router gives for the name (else for the MIME type)."""
    from sharepoint2text.parsing import router
    from sharepoint2text.parsing.exceptions import ExtractionFileFormatNotSupportedError
    from sharepoint2text.parsing.mime_types import MIME_TYPE_MAPPING
    try:
        ex = router.get_extractor(name)
    except ExtractionFileFormatNotSupportedError:
        ft = MIME_TYPE_MAPPING.get(mime_type)
        if not ft:
            return None
        ex = router.get_extractor(f"attachment.{ft}")
    try:
        return [(type(r).__name__, r.get_full_text()) for r in ex(io.BytesIO(data), name)]
    except Exception as e:  # noqa
        return []


def check_message(ctx, fmt, spec, raw, m, same_offset, atts=True, quoted=False):
    """Property oracle for one extracted message against its spec.  fmt: 'eml' | 'mbox'."""
    tag = f"{spec['charset']}/{spec['api']}/{spec['layout']}"
    rep = lambda field, got, want: {"format": fmt, "field": field, "got": got, "want": want,
                                    "message_b64": base64.b64encode(raw).decode("ascii"), "quoted": quoted,
                                    "spec": {k: v for k, v in spec.items() if k not in ("attachments",)}}
    c = canon_mail(m)
    if fmt == "eml":
        # .eml text is compared up to canonical equivalence (see nfc_mail); .mbox and .msg are compared code point by code point
        import unicodedata
        n_ = lambda s_: unicodedata.normalize("NFC", s_) if isinstance(s_, str) else s_
        # ... subject, message id and bodies only ("decoded"); sender / recipient display names and addresses are "exact":
        # code point by code point on every path
        c2 = dict(c, **{k: n_(c[k]) for k in ("subject", "plain", "html", "msgid")})
        if c2 != c:
            ctx.count("eml:text-returned-in-NFC")
        c = c2
        spec = dict(spec, subject=n_(spec["subject"]), plain=n_(spec["plain"]), html=n_(spec["html"]))
    if c["subject"] != spec["subject"].strip():
        folded = header_is_folded(raw, b"Subject")
        key = f"{fmt}:subject:folded-header" if folded else f"{fmt}:subject:{tag}"
        ctx.finding(key, f"{fmt}: subject {c['subject']!r} instead of {spec['subject']!r}"
                    + (" (Subject header is folded)" if folded else ""), rep("subject", c["subject"], spec["subject"]))
    for field, hname in (("from", b"From"), ("to", b"To"), ("cc", b"Cc")):
        want = spec[field] if field != "from" else spec["from"]
        got = c[field]
        if (list(got) if field != "from" else tuple(got)) != (list(want) if field != "from" else tuple(want)):
            import unicodedata
            nf = lambda v: unicodedata.normalize("NFC", repr(list(v) if field != "from" else tuple(v)))
            only_nfc = fmt == "eml" and nf(got) == nf(want)
            folded = header_is_folded(raw, hname)
            key = "eml:display-name:nfc-normalised" if only_nfc else f"{fmt}:address:folded-header" if folded else f"{fmt}:{field}:{tag}"
            ctx.finding(key, f"{fmt}: {field} addresses {got!r} instead of {want!r}"
                        + (" (canonically equivalent: the display name came back in Unicode NFC)" if only_nfc else
                           f" ({hname.decode()} header is folded)" if folded else ""), rep(field, got, want))
    if spec.get("date") is None:
        if c["date"] != "":
            ctx.finding(f"{fmt}:date:absent", f"{fmt}: date {c['date']!r} for a message without Date header", rep("date", c["date"], ""))
    elif not iso_equal(c["date"], spec["date"], same_offset):
        nozone_utc = spec["date"].tzinfo is None and c["date"] == spec["date"].isoformat() + "+00:00"
        ctx.finding(f"{fmt}:date:no-zone-reported-as-utc" if nozone_utc else f"{fmt}:date:{tag}:{spec.get('date_style')}",
                    f"{fmt}: date {c['date']!r} instead of {spec['date'].isoformat()!r}"
                    + (" (the Date header carries no zone information, '-0000')" if nozone_utc else ""),
                    rep("date", c["date"], spec["date"].isoformat()))
    if c["msgid"] != spec["msgid"]:
        ctx.finding(f"{fmt}:msgid:{tag}", f"{fmt}: message id {c['msgid']!r} instead of {spec['msgid']!r}", rep("msgid", c["msgid"], spec["msgid"]))
    want_plain = spec["plain"] if spec["layout"] != "html" else ""
    want_html = spec["html"] if spec["layout"] != "plain" else ""
    if spec.get("forwarded") and spec["layout"] == "html":
        pass
    for field, got, want in (("plain", c["plain"], want_plain), ("html", c["html"], want_html)):
        if nl(got) != nl(want):
            if spec.get("forwarded") and field == "plain" and want == "" and got:
                key, extra = "body-from-attached-message", " (the text of the ATTACHED message)"
            elif quoted and has_from_line(raw) and got != want and \
                    re.sub(r">+From ", "From ", nl(got)) == re.sub(r">+From ", "From ", nl(want)):
                key, extra = "mbox-from-quoting-not-undone", " ('>From ' quoting left in the body)"
            elif fmt == "eml" and spec["charset"] in ("iso-2022-jp", "shift_jis", "euc-jp") and "\x1b" in got:
                key, extra = "eml:body:iso-2022-jp-not-decoded", " (ISO-2022-JP escape sequences left undecoded)"
            else:
                key, extra = f"{fmt}:{field}:{tag}:{spec['cte']}", ""
            ctx.finding(key, f"{fmt}: {field} body {got[:80]!r} instead of {want[:80]!r}{extra}", rep(field, got, want))
    if atts:
        got = [a[:3] for a in c["att"] if a[1] != "image/gif"]
        want = [(f, t, hashlib.sha256(d).hexdigest()) for f, t, d in spec["attachments"]]
        if spec.get("forwarded"):
            got = [a for a in got if a[1] != "message/rfc822"]
        if len(got) == len(want):         # an attachment without file name gets an invented one: not compared
            got = [((None,) + tuple(g[1:])) if w[0] is None else g for g, w in zip(got, want)]
        if fmt == "mbox" and want and not got:
            ctx.finding("mbox-no-attachments", "mbox: the result carries no attachments", rep("attachments", got, want))
        elif got != want:
            empty = [f for f, _, d in spec["attachments"] if len(d) == 0]
            key = (f"{fmt}:attachments:count:{'zero-byte' if empty else 'nonempty'}" if len(got) != len(want)
                   else f"{fmt}:attachments:{tag}:{spec['att_name_style']}")
            ctx.finding(key, (f"{fmt}: {len(got)} attachment(s) instead of {len(want)}" if len(got) != len(want) else
                              f"{fmt}: attachment name/type/bytes differ at position {next(i for i, (g_, w_) in enumerate(zip(got, want)) if g_ != w_) + 1}")
                        + (f" (zero-byte attachment(s) {empty})" if empty and len(got) != len(want) else "") + f": {got!r} instead of {want!r}",
                        rep("attachments", got, want))
        # each supported attachment vs the same bytes alone
        if got == want:
            try:
                via = [(type(r).__name__, r.get_full_text()) for r in m.iterate_supported_attachments()]
                err = None
            except Exception as e:  # noqa
                via, err = [], repr(e)
            exp = []
            for a in m.attachments:
                if a.mime_type in ("image/gif", "message/rfc822"):
                    r = alone_extract(a.filename, a.mime_type, a.data.getvalue())
                else:
                    r = alone_extract(a.filename, a.mime_type, a.data.getvalue())
                exp += r or []
            if err or via != exp:
                missing = [a.filename for a in m.attachments if not a.is_supported_mime_type
                           and alone_extract(a.filename, a.mime_type, a.data.getvalue())]
                key = "attachment-supported-name-unlisted-mime" if missing and not err and len(via) < len(exp) else f"attachment-not-as-alone:{tag}"
                ctx.finding(key, f"iterate_supported_attachments gives {len(via)} result(s), the attached files on their own "
                            f"{len(exp)}" + (f"; skipped although supported by name: {missing}" if missing else "") + (f"; {err}" if err else ""),
                            rep("iterate_supported_attachments", via, exp))


# ------------------------------------------------------------------------------------------ correspondence recorders
def c_pairs(l):
    return coq_list([pair(coq_str(a), coq_str(b)) for a, b in l])


def record_tree(part, dhv):
    ct = part.get_content_type()
    disp = str(part.get("Content-Disposition", ""))
    fn = part.get_filename()
    payload = part.get_payload(decode=True)
    text = ""
    if payload:
        cs = part.get_content_charset() or "utf-8"
        try:
            text = payload.decode(cs, errors="replace")
        except (LookupError, UnicodeDecodeError):
            text = payload.decode("utf-8", errors="replace")
    kids = [record_tree(k, dhv) for k in part.get_payload()] if part.is_multipart() else []
    return (f"(Part {coq_str(ct)} {coq_str(disp)} {coq_str(fn or '')} {coq_str(dhv(fn) if fn else '')} {coq_bool(part.is_multipart())} "
            f"{coq_bool(bool(payload))} {coq_str(text)} {coq_list(kids)})")


def body_case_term(MB, msg):
    bp, bh = MB.get_body_content(msg)
    return f"({record_tree(msg, MB.decode_header_value)}, ({coq_str(bp)}, {coq_str(bh)}))"


class Spy:
    """Record email.header.decode_header / email.utils.getaddresses as called by the implementation."""

    def __enter__(self):
        self.dh, self.ga = [], []
        self._dh, self._ga = email.header.decode_header, email.utils.getaddresses

        def dh(v):
            r = self._dh(v)
            self.dh.append((v, r))
            return r

        def ga(l, *a, **k):
            r = self._ga(l, *a, **k)
            self.ga.append((l, r))
            return r
        email.header.decode_header, email.utils.getaddresses = dh, ga
        return self

    def __exit__(self, *a):
        email.header.decode_header, email.utils.getaddresses = self._dh, self._ga


def oracle_tables(dh_calls):
    """Coq terms for the recorded decode_header calls and the bytes.decode results of their parts."""
    dh_rows, dec_rows, u8_rows, ok = [], [], [], True
    for v, parts in dh_calls:
        if not isinstance(v, str):
            ok = False
            continue
        ps = []
        for p, cs in parts:
            if isinstance(p, bytes):
                ps.append(f"(HBytes {coq_bytes(p)} {coq_opt(cs, coq_str)})")
                use = cs or "utf-8"
                try:
                    r = f"(DOk {coq_str(p.decode(use, errors='replace'))})"
                except LookupError:
                    r = "DLookupError"
                except UnicodeDecodeError:
                    r = "DUnicodeError"
                dec_rows.append(pair(coq_bytes(p), pair(coq_str(use), r)))
                u8_rows.append(pair(coq_bytes(p), coq_str(p.decode("utf-8", errors="replace"))))
            else:
                ps.append(f"(HStr {coq_str(p)})")
        dh_rows.append(pair(coq_str(v), coq_list(ps)))
    return coq_list(dh_rows), coq_list(dec_rows), coq_list(u8_rows), ok


FROM_LINES = [b"From a@b.c Mon Jan  1 00:00:00 2024", b"From - Mon Jan 01 00:00:00 2024", b"From a@b.c Mon Jan  1 00:00:00 +0100 2024",
              b"From a@b.c Mon Jan  1 00:00:00 2024 remote from host", b"From MAILER-DAEMON Mon Jan  1 00:00:00 2024 ", b"From a 2024", b"From  a 2024", b"From a 202", b"From 2024", b"From 12024",
              b"From a@b.c 2024 ", b"From a@b.c 2024\r", b"From a@b.c 2024\r\r", b">From a 2024", b" From a 2024", b"from a 2024",
              b"From\ta 2024", b"From \ta 2024", b"From a\t2024", b"From a 20245", b"From a x2024", b"From a 2024x", b"From: a@b.c 2024",
              b"From \x0ba 2024", b"From \xa0a 2024", b"From a \xb2024", b"From a 2024\x0c", b"FROM a 2024", b"From a 1999\r",
              b"From me to you", b"Subject: From a 2024", b"", b"From ", b"From a", b"Fro", b"From a@b Thu Feb 30 99:99:99 0000"]


def gen_line(rng):
    r = rng.random()
    if r < 0.5:
        l = rng.choice(FROM_LINES)
    else:
        l = bytes(rng.choice(b"From  a2024\r\t>:x0") for _ in range(rng.randrange(0, 14)))
        if rng.random() < 0.5:
            l = b"From " + l
        if rng.random() < 0.5:
            l = l + bytes(rng.choice(b"0123456789") for _ in range(rng.choice([3, 4, 4, 5])))
    return l


def gen_small_mbox(rng):
    n = rng.randrange(0, 5)
    eol = rng.choice([b"\n", b"\r\n"])
    out = b""
    if rng.random() < 0.2:
        out += rng.choice([b"garbage before\n", b"\n", b"\r\n\r\n", b"X: y\n\n"])
    for i in range(n):
        out += (rng.choice(FROM_LINES[:3] + [b"From u%d@x.test Fri Feb  2 12:34:56 +0000 2018" % i]) + eol)
        for _ in range(rng.randrange(0, 6)):
            out += gen_line(rng) if rng.random() < 0.4 else rng.choice([b"Subject: s", b"", b"body text", b"Date: x", b"\r", b" cont"])
            out += rng.choice([eol, eol, eol, b"\n", b"\r\n", b""])
        out += rng.choice([eol, eol + eol, b"", b"\r\n\n\r"])
    return out


def gen_tree_message(rng, depth=0):
    """A random MIME tree (legacy classes): several text/plain and text/html leaves, attachments, empty payloads."""
    from email.mime.multipart import MIMEMultipart
    from email.mime.text import MIMEText
    from email.mime.application import MIMEApplication
    if depth < 3 and (depth == 0 or rng.random() < 0.35):
        m = MIMEMultipart(rng.choice(["mixed", "alternative", "related", "digest"]))
        for _ in range(rng.randrange(1, 5)):
            m.attach(gen_tree_message(rng, depth + 1))
    else:
        k = rng.random()
        txt = rng.choice(["", "", "body %d" % rng.randrange(1000), "caf\xe9 %d" % rng.randrange(100), "<p>h %d</p>" % rng.randrange(1000), " "])
        if k < 0.4:
            m = MIMEText(txt, "plain", rng.choice(["utf-8", "iso-8859-1", "us-ascii"]) if txt.isascii() else "utf-8")
        elif k < 0.8:
            m = MIMEText(txt, "html", "utf-8")
        else:
            m = MIMEApplication(txt.encode("utf-8"), "octet-stream")
    d = rng.random()
    if d < 0.25:
        m["Content-Disposition"] = rng.choice(['attachment; filename="a.txt"', "attachment", 'inline; filename="attachment.txt"', "inline",
                                              'ATTACHMENT; filename="b.html"', 'inline; filename="my attachments.html"'])
    return m


def py_first_text(msg, ctype):
    """The specification of C16_body_selection_spec evaluated in Python on the parsed message."""
    for part in msg.walk():
        if "attachment" in str(part.get("Content-Disposition", "")) or part.get_content_type() != ctype:
            continue
        payload = part.get_payload(decode=True)
        if not payload:
            continue
        cs = part.get_content_charset() or "utf-8"
        try:
            text = payload.decode(cs, errors="replace")
        except (LookupError, UnicodeDecodeError):
            text = payload.decode("utf-8", errors="replace")
        if text:
            return text
    return ""


# ------------------------------------------------------------------------------------------ run
def run(ctx):
    import logging
    logging.disable(logging.CRITICAL)
    from sharepoint2text.parsing import router
    from sharepoint2text.parsing.mime_types import MIME_TYPE_MAPPING, is_supported_mime_type
    from sharepoint2text.parsing.exceptions import ExtractionFileFormatNotSupportedError
    from sharepoint2text.parsing.extractors.mail import mbox_email_extractor as MB
    from sharepoint2text.parsing.extractors.mail import eml_email_extractor as EM
    from sharepoint2text.parsing.extractors.data_types import EmailAddress, EmailAttachment, EmailContent
    rng = ctx.rng
    ctx.rule = ("messages from specs (random header sets, charsets, RFC 2047 Q/B, folded and hand-refolded headers, display names "
                "with quoted commas, zones, alternative/related/mixed nestings, base64/QP/8bit, 0..3 attachments) as .eml LF/CRLF "
                "and as mailboxes of 0..N messages; non-trivial = multipart or a non-ASCII (encoded) header")
    ctx.trusted += [
        "G-dump: tools/props/c16.py prints the router tables, MIME_TYPE_MAPPING, MBOX_FROM_PATTERN/_HEADER_FOLD_PATTERN source "
        "and flags, and two literals of _read_eml_format as Coq terms",
        "oracles (universally quantified in the theorems, recorded in the correspondence): email.header.decode_header, "
        "bytes.decode, email.utils.getaddresses/parseaddr, parsedate_to_datetime, the parsed MIME tree (email.message_from_bytes, "
        "get_payload(decode=True), charsets), mailparser.parse_from_bytes (all .eml header/body/attachment decoding), "
        "msg_parser/olefile (.msg), str.lower, mimetypes.guess_type, every document extractor",
        "re-used models: C03.Extract (is_from_line, split_mbox_messages), C07.Model (router)",
        "ground truth of the property oracle: the message spec handed to the stdlib generator; specs the stdlib's own modern "
        "parser does not get back from the bytes are discarded (generator lossy), this filter is trusted",
    ]
    ctx.assumptions += ["mbox writers end every message with a line end and a blank line", "CPython 3.12 email package"]
    gen_tables(ctx)

    # ---- proofs
    # the expected theorems are about the code at HEAD; C16_alt_* (stated over split_mbox_messages_rd / *_joined) are extra
    ctx.prove("C16/Props.v", ["C16/ProofsMbox.vo", "C16/ProofsMail.vo", "C16/ProofsMsg.vo", "C16/Loop.vo"], expected=[
        "C16_mbox_roundtrip", "C16_mbox_boundaries_only_at_separators", "C16_mbox_unescaped_From_splits_refuted",
        "C16_mbox_escaped_one_per_message", "C16_mbox_quoting_undone_refuted", "C16_body_selection_spec",
        "C16_body_is_no_attachment", "C16_body_single_part", "C16_body_outside_attachments_refuted", "C16_body_several_inline_parts",
        "C16_unfold_inverts_folding", "C16_decode_fallback", "C16_address_list",
        "C16_full_text_plain_else_html", "C16_attachment_routing", "C16_attachment_same_as_alone", "C16_attachments_independent",
        "C16_attachment_contribution_context_free", "C16_msg_recipient_angle", "C16_msg_recipients_split", "C16_msg_quoted_comma_refuted",
        "C16_msg_body_mapping", "C16_eml_attachments_count", "C16_mbox_date_field",
        "C16_from_line_sound", "C16_from_line_complete", "C16_mbox_any_quoting_one_per_message", "C16_mboxo_one_per_message",
        "C16_mbox_mmdf_delimiters_kept_refuted", "C16_eml_loop_one_per_record", "C16_eml_attachment_bytes_exact",
        "C16_eml_attachment_bytes_passthrough"])
    ctx.prove("C16/Inst.v", ["Gen/C16Tables.vo", "C16/Corr.vo"], expected=[
        "C16_tables_wf", "C16_mime_fallback_ok", "C16_fallback_paths_lower_case", "C16_from_pattern_is_modelled",
        "C16_fold_pattern_is_modelled", "C16_literals", "C16_eml_attachment_loop_appends_once"])

    pre = ("From Coq Require Import ZArith List Bool.\nFrom S2T Require Import Lib.PyStr C03.Lib C03.Extract C16.Model C16.Corr Gen.C16Tables.\n"
           "From S2T Require C07.Model.\nImport ListNotations.\nOpen Scope N_scope.\n")

    def corr(name, fn, cases, infos, ty, shard=300):
        ok, failing, log = coq_eval_shards(ctx, name, pre, fn, cases, shard=shard, ty=ty)
        ctx.traces += len(cases)
        ctx.disagreements += len(failing)
        ctx.obligation(f"correspondence:{name}", ok and not failing and len(cases) > 0,
                       (f"{len(cases)} cases, {len(failing)} disagreements, first: {infos[failing[0]]!r:.600} " if failing else f"{len(cases)} cases ") + log[:600])
        ctx.extra[f"corr_{name}"] = len(cases)
        return failing

    # ---- D1: MBOX_FROM_PATTERN on single lines; _split_mbox_messages on small mailboxes
    lines, seen = [], set()
    for l in FROM_LINES:
        for e in (b"\n", b"\r\n", b""):
            lines.append(l + e)
    for _ in range(ctx.n(1500, 12000)):
        lines.append(gen_line(rng) + rng.choice([b"\n", b"\n", b"\r\n", b""]))
    lines = [l for l in lines if b"\n" not in l[:-1] and not (l in seen or seen.add(l))]
    lc = []
    for l in lines:
        m = MB.MBOX_FROM_PATTERN.match(l)
        got = m is not None and m.end() == len(l)
        lc.append(pair(coq_bytes(l), coq_bool(got)))
        ctx.case(("line", l), l.startswith(b"From "), kind="from-line:" + ("match" if got else "no"))
    corr("from_line", "from_line_case", lc, lines, "str * bool", shard=500)
    boxes = [b"", b"\n", b"From a 2024", b"From a 2024\n", b"From a 2024\n\n\n", b"x\nFrom a 2024\nbody\n"]
    boxes += [gen_small_mbox(rng) for _ in range(ctx.n(400, 4000))]
    bc = []
    for b in boxes:
        got = MB._split_mbox_messages(b)
        bc.append(pair(coq_bytes(b), coq_list([coq_bytes(x) for x in got])))
        ctx.case(("mbox", b), len(got) >= 1, kind=f"split:{min(len(got), 4)}")
        # property oracle at this level: never more messages than separator lines
        nsep = len(MB.MBOX_FROM_PATTERN.findall(b))
        if len(got) > nsep:
            ctx.finding("split-more-messages-than-separators", f"{len(got)} messages from {nsep} separator lines", {"mbox": b})
    mm = b"".join(b"\x01\x01\x01\x01\nFrom a@b Mon Jan  1 00:00:00 2024\nSubject: %d\n\nbody %d\n\x01\x01\x01\x01\n" % (i, i) for i in range(2))
    got_mm = MB._split_mbox_messages(mm)
    boxes.append(mm)
    bc.append(pair(coq_bytes(mm), coq_list([coq_bytes(x) for x in got_mm])))
    ctx.case(("mbox", "mmdf"), True, kind="split:mmdf")
    ctx.extra["mmdf_delimiters_come_back_inside_messages"] = all(b"\x01" in x for x in got_mm)   # theorem C16_mbox_mmdf_delimiters_kept_refuted on the real code (MMDF is not the mbox format: no finding)
    corr("mbox_split", "split_case", bc, boxes, "str * list str", shard=250)

    # ---- D2: _unfold_header
    unf = getattr(MB, "_unfold_header", None)
    vals = ["", "a", "a\n b", "a\r\n b", "a\n\tb", "a\nb", "a\r\nb", "a\n\n b", "a\r\r\n b", "a\n \n b", "a\r", "a\n", "a\r\n", "\n a", "a\n b\r\n\tc\n d",
            "=?utf-8?q?x?=\n =?utf-8?q?y?=", "a\r \n b"]
    for _ in range(ctx.n(300, 3000)):
        vals.append("".join(rng.choice(["a", " ", "\t", "\n", "\r", "\r\n", "\n ", "b"]) for _ in range(rng.randrange(0, 10))))
    if unf is not None:
        corr("unfold", "unfold_case", [pair(coq_str(v), coq_str(unf(v))) for v in vals], vals, "str * str", shard=600)
    else:
        ctx.obligation("correspondence:unfold", False, "mbox_email_extractor._unfold_header does not exist (headers are not unfolded)")

    # ---- generated messages: property oracle + recorded correspondences
    fixture = (REPO / "sharepoint2text/tests/resources/modern_ms/headings.docx").read_bytes()
    n_specs = ctx.n(160, 1500)
    specs, lossy = [], 0
    for _ in range(ctx.n(30, 250)):
        tm_ = G.tiny_attachment_message(rng)
        if tm_ is not None:
            specs.append(tm_)
    while len(specs) < n_specs and lossy < 5 * n_specs:
        sp = G.gen_spec(rng, fixture)
        if rng.random() < 0.06:
            sp["no_date"] = True
        try:
            raw = G.build(sp)
        except Exception:  # noqa  (the generator cannot express this combination)
            lossy += 1
            continue
        if not G.lossless(sp, raw):
            lossy += 1
            continue
        if sp.get("no_date"):
            raw = re.sub(rb"(?m)^Date: .*\n", b"", raw, count=1)
            sp["date"] = None
        if rng.random() < 0.05:          # Subject is optional in RFC 5322
            raw = re.sub(rb"(?m)^Subject:.*\n(?:[ \t].*\n)*", b"", raw, count=1)
            sp["subject"] = ""
        if rng.random() < 0.35:          # other writers' spellings of the header NAMES (Message-Id, CC, SUBJECT, date, ...)
            raw2_ = G.recase_header_names(raw, rng)
            if sp["date"] is None or G.lossless(sp, raw2_, headers_only=True):
                raw = raw2_
                sp["recased"] = True
        specs.append((sp, raw))
    ctx.extra["generator_lossy_discarded"] = lossy
    # a forwarded message attached as message/rfc822 below an HTML-only body
    for k in range(ctx.n(3, 20)):
        inner = G.gen_spec(rng, None, max_att=0)
        inner["layout"], inner["html"], inner["api"], inner["refold"] = "plain", None, "modern", None
        outer = G.gen_spec(rng, None, max_att=0)
        outer.update(layout="html", api="modern", refold=None, attachments=[], html="<html><body><p>see attached</p></body></html>")
        try:
            om = email.message_from_bytes(G.build(outer), policy=email.policy.default)
            om.make_mixed()
            om.add_attachment(email.message_from_bytes(G.build(inner), policy=email.policy.default))
            outer["forwarded"] = inner
            raw = om.as_bytes().replace(b"\r\n", b"\n")
            if G.lossless(outer, raw, headers_only=True):
                specs.append((outer, raw))
        except Exception:  # noqa
            pass

    path_sample, box_sample = [], []
    body_cases, body_info, hdr_cases, hdr_info, addr_cases, addr_info = [], [], [], [], [], []
    eml_cases, eml_info, mail_cases, mail_info = [], [], [], []
    for sp, raw in specs:
        nontriv = sp["layout"] in ("alt", "related") or bool(sp["attachments"]) or not sp["subject"].isascii()
        for eol in (b"\n", b"\r\n"):
            r2 = raw.replace(b"\n", eol)
            ms, err = run_eml(r2)
            ctx.case(("eml", r2), nontriv, kind=f"eml:{sp['layout']}:{sp['charset']}")
            if err or len(ms) != 1:
                ctx.finding(f"eml:fails:{sp['charset']}/{sp['api']}/{sp['layout']}", f"eml: extraction fails: {err}", {"message": r2})
            else:
                check_message(ctx, "eml", sp, r2, ms[0], same_offset=False)
                # (mailparser invents a new random name for a nameless attachment on every parse: not comparable)
                if eol == b"\n" and len(path_sample) < ctx.n(25, 200) and all(f is not None for f, _, _ in sp["attachments"]) and not sp.get("forwarded"):
                    path_sample.append(r2)
                    check_path_invariance(ctx, "eml", r2, ms, "/no/such/dir/message %d.eml" % len(path_sample))
        # mailparser record -> fields (correspondence of _read_eml_format)
        if len(eml_cases) < ctx.n(120, 600):
            try:
                from mailparser import parse_from_bytes
                mp = parse_from_bytes(raw)
                em = EM._read_eml_format(raw)
                tl = lambda l: [(str(t[0]), str(t[1])) for t in l]
                tp = mp.text_plain if isinstance(mp.text_plain, list) else [str(mp.text_plain)]
                th = mp.text_html if isinstance(mp.text_html, list) else [str(mp.text_html)]
                al = [(a.get("filename") or "", a.get("mail_content_type") or "") for a in mp.attachments]
                if all(isinstance(t, (tuple, list)) and len(t) > 1 for t in list(mp.to) + list(mp.cc)) and "ikutdoazgs" not in str(al):
                    exp = (c_pairs([(a.name, a.address) for a in em.to_emails]) + ", " + c_pairs([(a.name, a.address) for a in em.to_cc]) + ", "
                           + coq_str(em.body_plain) + ", " + coq_str(em.body_html) + ", "
                           + coq_list([f"({coq_str(a.filename)}, {coq_str(a.mime_type)}, {coq_bool(a.is_supported_mime_type)})" for a in em.attachments]))
                    # mailparser invents random names for nameless attachments on every parse: compare names only when given
                    if all(f for f, _ in al) and all(f is not None for f, _, _ in sp["attachments"]):
                        eml_cases.append(f"({c_pairs(tl(mp.to))}, {c_pairs(tl(mp.cc))}, {coq_list([coq_str(x) for x in tp])}, "
                                         f"{coq_list([coq_str(x) for x in th])}, {c_pairs(al)}, ({exp}))")
                        eml_info.append(raw[:300])
            except Exception:  # noqa
                pass
        # recorded MIME tree / headers of the stdlib parser (what the mbox path sees)
        msg = email.message_from_bytes(raw)
        if len(body_cases) < ctx.n(200, 1500):
            body_cases.append(body_case_term(MB, msg))
            body_info.append(raw[:300])
        if len(hdr_cases) < ctx.n(200, 1500):
            for h in ("Subject", "Message-ID"):
                v = msg.get(h)
                if isinstance(v, str):
                    with Spy() as spy:
                        got = MB.decode_header_value(v)
                    dh, dc, u8, ok = oracle_tables(spy.dh)
                    if ok:
                        hdr_cases.append(f"({dh}, {dc}, {u8}, {coq_str(v)}, {coq_str(got)})")
                        hdr_info.append(v)
            for h in ("To", "Cc"):
                v = msg.get(h)
                if isinstance(v, str):
                    with Spy() as spy:
                        got = MB.parse_email_addresses(v)
                    dh, dc, u8, ok = oracle_tables(spy.dh)
                    if ok and len(spy.ga) == 1:
                        addr_cases.append(f"({dh}, {dc}, {u8}, {coq_str(v)}, {c_pairs(spy.ga[0][1])}, {c_pairs([(a.name, a.address) for a in got])})")
                        addr_info.append(v)

    # random MIME trees: several candidate parts, attachments, nested multiparts, empty payloads
    for _ in range(ctx.n(150, 1500)):
        tm = gen_tree_message(rng)
        msg = email.message_from_bytes(tm.as_bytes())
        bp, bh = MB.get_body_content(msg)
        body_cases.append(body_case_term(MB, msg))
        body_info.append(tm.as_bytes()[:400])
        ctx.case(("tree", tm.as_bytes()), True, kind="mime-tree")
        if msg.is_multipart() and (bp, bh) != (py_first_text(msg, "text/plain"), py_first_text(msg, "text/html")):
            ctx.finding("body-not-first-eligible-part", f"get_body_content returns {(bp[:40], bh[:40])!r}, the first eligible parts are "
                        f"{(py_first_text(msg, 'text/plain')[:40], py_first_text(msg, 'text/html')[:40])!r}", {"message": tm.as_bytes()})
    # several inline text parts through the .eml mapping (text_plain / text_html lists with more than one element)
    for _ in range(ctx.n(12, 60)):
        mm_ = email.message.EmailMessage()
        mm_["Subject"], mm_["From"], mm_["To"], mm_["Date"] = "Parts", "a@b.c", "d@e.f", "Mon, 01 Jan 2024 12:00:00 -0500"
        mm_.set_content("part one %d" % rng.randrange(100))
        mm_.make_mixed()
        for j in range(rng.randrange(1, 4)):
            if rng.random() < 0.4:
                mm_.add_attachment(b"%PDF-1.4 fake", maintype="application", subtype="pdf", filename="between%d.pdf" % j)
            pj = email.message.EmailMessage()
            if rng.random() < 0.5:
                pj.set_content("more text %d" % j)
            else:
                pj.set_content("<p>html %d</p>" % j, subtype="html")
            mm_.attach(pj)
        specs_extra_raw = mm_.as_bytes()
        # property oracle: nothing of the inline text parts is lost (every part's text is in its body, in order)
        e_x, err_x = run_eml(specs_extra_raw)
        if e_x:
            texts = [(p_.get_content_type(), p_.get_content().strip()) for p_ in mm_.iter_parts()]
            for ctype_, fld in (("text/plain", "body_plain"), ("text/html", "body_html")):
                got_b = getattr(e_x[0], fld)
                pos, lost = 0, None
                for ct_, tx_ in texts:
                    if ct_ == ctype_:
                        at = got_b.find(tx_, pos)
                        if at < 0:
                            lost = tx_
                            break
                        pos = at + len(tx_)
                if lost is not None:
                    ctx.finding(f"eml:body:inline-part-dropped:{ctype_}", f"eml: the inline {ctype_} part {lost!r} is missing from {fld} "
                                f"({got_b!r:.120}); parts: {texts!r:.200}", {"message_b64": base64.b64encode(specs_extra_raw).decode("ascii"), "format": "eml", "field": fld})
        try:
            from mailparser import parse_from_bytes
            mp = parse_from_bytes(specs_extra_raw)
            em = EM._read_eml_format(specs_extra_raw)
            tl = lambda l: [(str(x[0]), str(x[1])) for x in l]
            exp = (c_pairs([(a.name, a.address) for a in em.to_emails]) + ", " + c_pairs([(a.name, a.address) for a in em.to_cc]) + ", "
                   + coq_str(em.body_plain) + ", " + coq_str(em.body_html) + ", []")
            eml_cases.append(f"({c_pairs(tl(mp.to))}, {c_pairs(tl(mp.cc))}, {coq_list([coq_str(x) for x in mp.text_plain])}, "
                             f"{coq_list([coq_str(x) for x in mp.text_html])}, [], ({exp}))")
            eml_info.append(specs_extra_raw[:300])
            ctx.case(("eml-parts", specs_extra_raw), True, kind="eml:several-inline-parts")
        except Exception:  # noqa
            pass

    # ---- mailboxes of 0..N messages
    n_boxes = ctx.n(60, 500)
    for k in range(n_boxes):
        n = rng.choice([0, 1, 1, 2, 3, 5])
        chosen = [specs[rng.randrange(len(specs))] for _ in range(n)]
        eol = rng.choice([b"\n", b"\r\n"])
        mode = rng.choice(["mboxrd", "mboxrd", "mboxo"])
        if mode == "mboxo" and any(re.search(rb"(?m)^>+From ", r) for _, r in chosen):
            mode = "mboxrd"       # mboxo cannot represent a body line that already starts with ">From " (ambiguous on reading)
        box = G.mbox_bytes([r for _, r in chosen], eol, mode, rng)
        ms, err = run_mbox(box)
        ctx.case(("mbox", box), n >= 2, kind=f"mbox:{n}:{len(eol)}:{mode}")
        nodate = any(sp.get("date") is None for sp, _ in chosen)
        if err:
            key = "mbox-missing-date-fails-mailbox" if nodate and "date" in err.lower() else f"mbox:fails:{mode}"
            ctx.finding(key, f"mbox of {n} messages: extraction fails after {len(ms)} results: {err}", {"mbox": box, "messages": n})
            continue
        if len(ms) != n:
            ctx.finding(f"mbox:count:{mode}", f"mbox of {n} messages gives {len(ms)} results", {"mbox": box, "messages": n})
            continue
        check_path_invariance(ctx, "mbox", box, ms, rng.choice(["/no/such/dir/archive.mbox", "relative/inbox.mbox", "Inbox.MBOX"]))
        if n >= 1 and len(box) < 60000 and len(box_sample) < 12:
            box_sample.append(box)
        for (sp, raw), m in zip(chosen, ms):
            check_message(ctx, "mbox", sp, raw.replace(b"\n", eol), m, same_offset=True, quoted=mode)
            # .eml and .mbox parsers against each other on what both are expected to deliver
            e1, err1 = run_eml(raw)
            if e1 and not has_from_line(raw):
                a, b = nfc_mail(canon_mail(e1[0])), nfc_mail(canon_mail(m))      # up to canonical equivalence
                for f in ("subject", "from", "to", "cc", "msgid"):
                    if a[f] != b[f]:
                        folded = header_is_folded(raw, {"subject": b"Subject", "from": b"From", "to": b"To", "cc": b"Cc"}.get(f, b"Message-ID"))
                        ctx.finding((f"eml:{'subject' if f == 'subject' else 'address'}:folded-header") if folded else f"eml-vs-mbox:{f}:{sp['charset']}/{sp['api']}",
                                    f".eml and .mbox disagree on {f}: {a[f]!r} vs {b[f]!r}", {"message": raw, "field": f, "eml": a[f], "mbox": b[f]})
                for f in ("plain", "html"):
                    if nl(a[f]) != nl(b[f]):
                        jp = "\x1b" in a[f]
                        fw = bool(sp.get("forwarded")) and f == "plain" and not nl(b[f])
                        ctx.finding("eml:body:iso-2022-jp-not-decoded" if jp else "body-from-attached-message" if fw else f"eml-vs-mbox:{f}:{sp['charset']}/{sp['api']}",
                                    f".eml and .mbox disagree on the {f} body", {"message": raw, "field": f, "eml": a[f], "mbox": b[f]})

    # display names that are not in Unicode NFC (decomposed accent, ANGSTROM SIGN, CJK compatibility ideograph): exact on every path
    nm_ = "Ame\u0301lie \u212bngstro\u0308m \ufa1e"
    nfm = email.message.EmailMessage()
    nfm["Subject"], nfm["Date"] = "names", "Mon, 01 Jan 2024 12:00:00 +0000"
    nfm["From"] = G._modern_addr((nm_, "amelie@x.test"))
    nfm["To"] = G._modern_addr((nm_, "to@x.test"))
    nfm.set_content("body")
    rawn = nfm.as_bytes()
    ctx.case(("non-nfc-names", rawn), True, kind="special:non-nfc-display-name")
    for fmt_, res_ in (("eml", run_eml(rawn)[0]), ("mbox", run_mbox(G.mbox_bytes([rawn], b"\n", "mboxrd"))[0])):
        if res_:
            gotn = (res_[0].from_email.name, [a.name for a in res_[0].to_emails])
            if gotn != (nm_, [nm_]):
                import unicodedata
                eq = unicodedata.normalize("NFC", repr(gotn)) == unicodedata.normalize("NFC", repr((nm_, [nm_])))
                ctx.finding("eml:display-name:nfc-normalised" if fmt_ == "eml" and eq else f"{fmt_}:display-name:non-nfc",
                            f"{fmt_}: display name {nm_!r} comes back as {gotn!r}" + (" (Unicode NFC applied)" if eq else ""),
                            {"message_b64": base64.b64encode(rawn).decode("ascii"), "format": fmt_, "field": "from", "got": gotn, "want": nm_})

    # two inline text/plain parts: the two parsers must agree (they do not: first part vs all parts)
    two = email.message.EmailMessage()
    two["Subject"], two["From"], two["To"], two["Date"] = "Two", "a@b.c", "d@e.f", "Mon, 01 Jan 2024 12:00:00 -0500"
    two.set_content("first part")
    two.make_mixed()
    p2 = email.message.EmailMessage()
    p2.set_content("second inline part")
    two.attach(p2)
    raw2 = two.as_bytes()
    e2, _ = run_eml(raw2)
    m2, _ = run_mbox(G.mbox_bytes([raw2], b"\n", "mboxrd"))
    ctx.case(("two-inline", raw2), True, kind="special:two-inline-text")
    if e2 and m2 and nl(e2[0].body_plain) != nl(m2[0].body_plain):
        ctx.finding("eml-vs-mbox:several-inline-text-parts", f".eml joins all inline text/plain parts ({e2[0].body_plain!r}), .mbox takes the first "
                    f"({m2[0].body_plain!r})", {"message": raw2, "eml": e2[0].body_plain, "mbox": m2[0].body_plain})

    # ---- the public entry point on real files (path given, as the CLI does) for a few mailboxes and messages
    import tempfile
    import sharepoint2text
    with tempfile.TemporaryDirectory(dir="/var/tmp") as td:
        for i, box in enumerate(box_sample[:6]):
            fp = f"{td}/box{i}.mbox"
            open(fp, "wb").write(box)
            base_ms, _ = run_mbox(box)
            try:
                via = list(sharepoint2text.read_file(fp))
            except Exception as ex:  # noqa
                ctx.finding("read_file:mbox:fails", f"read_file fails on a mailbox the extractor reads: {ex!r}", {"mbox": box})
                continue
            ctx.case(("read_file-mbox", i), True, kind="read_file:mbox")
            if [canon_mail(m) for m in via] != [canon_mail(m) for m in base_ms]:
                a_, b_ = [canon_mail(m) for m in base_ms], [canon_mail(m) for m in via]
                k_ = next((j for j in range(min(len(a_), len(b_))) if a_[j] != b_[j]), 0)
                ctx.finding("mbox:path-argument:changes-result", f"read_file({fp.rsplit('/', 1)[-1]!r}): message {k_ + 1} differs from the extractor's result on the same bytes: "
                            f"{ {f: b_[k_][f] for f in b_[k_] if k_ < len(a_) and a_[k_][f] != b_[k_][f]}!r:.300}", {"input_b64": base64.b64encode(box).decode("ascii")})

    # ---- environment sweep: DEBUG logging, worker thread, time zones, cwd must not change any field
    import common
    def env_fn(case):
        kind, data = case
        ms_, err_ = (run_eml(data) if kind == "eml" else run_mbox(data))
        return (err_ and err_[:60], [sorted((k_, repr(v_)) for k_, v_ in canon_mail(m).items()) for m in (ms_ or [])])
    env_cases = [("eml", r) for r in path_sample[:ctx.n(20, 120)]] + [("mbox", b_) for b_ in box_sample[:ctx.n(6, 12)]]
    common.env_sweep(ctx, "mail-extraction", env_fn, env_cases, describe=lambda c: f"{c[0]} of {len(c[1])} bytes")

    # ---- fixtures: .msg field mapping against the .eml twin; basic fixtures
    from sharepoint2text.parsing.extractors.mail.msg_email_extractor import read_msg_format_mail
    res = REPO / "sharepoint2text/tests/resources/mails"
    try:
        mm = list(read_msg_format_mail(io.BytesIO((res / "msg_with_attachment.msg").read_bytes())))[0]
        ee = run_eml((res / "msg_with_attachment.eml").read_bytes())[0][0]
        a, b = canon_mail(mm), canon_mail(ee)
        ctx.case(("msg-fixture", "msg_with_attachment"), True, kind="msg-fixture")
        for f in ("subject", "msgid"):
            if a[f] != b[f]:
                ctx.finding(f"msg-vs-eml:{f}", f".msg and its .eml twin disagree on {f}: {a[f]!r} vs {b[f]!r}", {"msg": a[f], "eml": b[f]})
        if not iso_equal(a["date"], datetime.datetime.fromisoformat(b["date"]), False):
            ctx.finding("msg-vs-eml:date", f".msg date {a['date']!r} vs .eml {b['date']!r}", {"msg": a["date"], "eml": b["date"]})
        if sorted(x[2] for x in a["att"]) != sorted(x[2] for x in b["att"]) or sorted(x[0] for x in a["att"]) != sorted(x[0] for x in b["att"]):
            ctx.finding("msg-vs-eml:attachments", ".msg and its .eml twin disagree on attachment names/bytes", {"msg": a["att"], "eml": b["att"]})
        via = [(type(r).__name__, r.get_full_text()) for r in mm.iterate_supported_attachments()]
        exp = []
        for at in mm.attachments:
            exp += alone_extract(at.filename, at.mime_type, at.data.getvalue()) or []
        if via != exp:
            ctx.finding("msg:attachment-not-as-alone", ".msg attachments do not extract like the files alone", {"via": len(via), "alone": len(exp)})
        b1 = list(read_msg_format_mail(io.BytesIO((res / "basic_email.msg").read_bytes())))[0]
        ctx.case(("msg-fixture", "basic"), True, kind="msg-fixture")
        if not b1.subject or not b1.from_email.address or not b1.metadata.date:
            ctx.finding("msg:basic-fixture", "basic_email.msg: subject/sender/date missing", {"got": canon_mail(b1)})
    except Exception as e:  # noqa
        ctx.finding("msg:fixtures-fail", f".msg fixtures fail: {e!r}", {"error": repr(e)})

    # ---- D2b: the Date header in all its forms (mbox path): parsedate_to_datetime is the oracle, "" when it refuses
    from email.utils import parsedate_to_datetime
    dvals = ["", "garbage", "Mon, 32 Jan 2024 12:00:00 +0000", "Mon, 01 Jan 2024 25:00:00 +0000", "Mon, 01 Jan 2024 12:00:00 +9999",
             "Mon, 01 Jan 99999 12:00:00 +0000", "Mon, 01 Jan 2024 12:00:00", "1 Jan 2024 12:00:00 Z", "Mon, 01 Jan 2024 12:00:00 -2359",
             "Mon, 01 Jan 2024 12:00:60 +0000", "Mon, 01 Jan 2024 12:00:00 +0000 (UTC)", "=?utf-8?q?Mon=2C_01_Jan_2024_12=3A00=3A00_+0100?="]
    for _ in range(ctx.n(120, 1200)):
        dsp = {"date": datetime.datetime(rng.randrange(1990, 2049), rng.randrange(1, 13), rng.randrange(1, 29), rng.randrange(24), rng.randrange(60),
                                         rng.choice([0, 0, rng.randrange(60)]),
                                         tzinfo=datetime.timezone(datetime.timedelta(minutes=rng.choice(G.ZONES + [-480, -360, -420, -240, 0, 0]))))}
        sv = G.style_date(dsp, rng.choice(["nozone", "nozone", "named", "noweekday", "comment", "year2", "noseconds"]))
        dvals.append(sv if sv is not None else email.utils.format_datetime(dsp["date"]))
    dcases, dinfo = [], []
    for v in dvals:
        dm = email.message_from_bytes(("Date: %s\nFrom: a@b.c\nSubject: s\n\nbody\n" % v).encode("ascii"))
        try:
            want_iso = parsedate_to_datetime(MB.decode_header_value(dm.get("Date"))).isoformat()
        except (TypeError, ValueError):
            want_iso = None
        try:
            got_iso = MB.parse_email_message(dm).metadata.date
        except Exception as ex:  # noqa
            ctx.finding("mbox:date:raises", f"mbox: Date header {v!r} makes parse_email_message raise {ex!r}", {"date_header": v})
            continue
        ctx.case(("date", v), True, kind="date:" + ("none" if want_iso is None else "naive" if "+" not in want_iso[10:] and "-" not in want_iso[10:] else "aware"))
        dcases.append(pair(coq_opt(want_iso, coq_str), coq_str(got_iso)))
        dinfo.append(v)
        if got_iso != (want_iso or ""):
            ctx.finding("mbox:date:header-form", f"mbox: Date header {v!r} is reported as {got_iso!r}, the date it denotes is {(want_iso or '')!r}"
                        + (" (no zone information must not become UTC)" if want_iso and got_iso == want_iso + "+00:00" else ""),
                        {"date_header": v, "got": got_iso, "want": want_iso or "", "message": dm.as_bytes()})
    corr("date", "date_case", dcases, dinfo, "option str * str", shard=800)

    # ---- D2c: the address dataclass keeps what it is given (display names are decoded by the parsers, nothing else may
    #      touch them: quotation marks, apostrophes, white space at the ends are part of the value)
    ends = ["'", "\"", " ", "(", ")", ".", "\\", "\t", "’", "«"]
    for _ in range(ctx.n(150, 1500)):
        nm = rng.choice(ends + ["", ""]) + rng.choice(G.NAMES) + rng.choice(ends + ["", ""])
        ad = rng.choice(["", " ", "a@b.c", " a@b.c ", "'a@b.c'", "\"x\"@y.z"])
        ea = EmailAddress(name=nm, address=ad)
        ctx.case(("emailaddress", nm, ad), bool(nm), kind="emailaddress")
        if (ea.name, ea.address) != (nm, ad):
            ctx.finding("emailaddress-not-verbatim", f"EmailAddress(name={nm!r}, address={ad!r}) holds ({ea.name!r}, {ea.address!r}): every "
                        f"extractor's display names / addresses are altered", {"name": nm, "address": ad, "got": [ea.name, ea.address]})

    # ---- D3: EmailContent construction / units / full text
    texts = ["", " ", "\n", "x", " x ", " x ", "a\nb", "\t\n", "<p>h</p>", " <p>h</p>\n", "\x1c", "x\x1f", "​", "﻿x"]
    for _ in range(ctx.n(150, 1500)):
        sj, pl, ht = rng.choice(texts), rng.choice(texts), rng.choice(texts)
        if rng.random() < 0.4:
            pl = "".join(rng.choice([" ", "\n", "a", "　", "\x85", "b", "\t"]) for _ in range(rng.randrange(0, 7)))
        e = EmailContent(from_email=EmailAddress(), subject=sj, body_plain=pl, body_html=ht)
        us = [(u.get_text(), u.get_metadata().body_type) for u in e.iterate_units()]
        mail_cases.append(f"({coq_str(sj)}, {coq_str(pl)}, {coq_str(ht)}, ({coq_str(e.subject)}, {coq_str(e.body_plain)}, {c_pairs(us)}, {coq_str(e.get_full_text())}))")
        mail_info.append((sj, pl, ht))
        ctx.case(("email", sj, pl, ht), bool(pl.strip() or ht.strip()), kind="emailcontent")
        # property oracle: plain else html, one unit
        want = pl.strip() if pl.strip() else ht.strip()
        if e.get_full_text() != want or len(us) != 1:
            ctx.finding("emailcontent:full-text", f"get_full_text {e.get_full_text()!r} for plain {pl!r} html {ht!r}", {"plain": pl, "html": ht})

    # ---- D4: attachment routing (spy on the router; stub extractors)
    names = ["x.txt", "X.TXT", "report.docx", "a.pdf", "noext", "", "a.unknownext", "archive.tar.gz", "a.TGZ", ".docx", "d/.pdf", "a.eml", "a.mbox",
             "résumé.DOCX", "İ.TXT", "a.b.csv", "attachment", "attachment.", "x.bin", "x.gif", "x.json5", "page.HTM", "p.mhtml"]
    mimes = list(MIME_TYPE_MAPPING) + ["application/octet-stream", "", "image/gif", "TEXT/PLAIN", "text/plain; charset=utf-8", "application/x-custom-binary"]
    att_cases, att_info = [], []
    orig_get = router.get_extractor
    for k in range(ctx.n(250, 2500)):
        name, mt = rng.choice(names), rng.choice(mimes)
        for flag in ((is_supported_mime_type(mt),) if k % 5 else (True, False)):
            calls, ran = [], []

            def spy(path, _c=calls, _r=ran):
                f = orig_get(path)
                _c.append((path, (f.__module__, f.__name__)))

                def stub(data, fn, _f=f):
                    _r.append((_f.__module__, _f.__name__))
                    return iter(())
                return stub
            router.get_extractor = spy
            try:
                e = EmailContent(from_email=EmailAddress(), attachments=[EmailAttachment(name, mt, io.BytesIO(b"x"), flag)])
                try:
                    list(e.iterate_supported_attachments())
                    obs = f"(Some {coq_opt(ran[0] if ran else None, lambda g: pair(coq_str(g[0]), coq_str(g[1])))})"
                except ExtractionFileFormatNotSupportedError as ex:
                    obs = "None"
                    ctx.finding(f"attachment-mime-fallback-raises:{mt}", f"iterate_supported_attachments raises {ex!r} for attachment "
                                f"{name!r} of type {mt!r} (MIME_TYPE_MAPPING entry without extractor)", {"filename": name, "mime_type": mt})
            finally:
                router.get_extractor = orig_get
            paths = [name] + [f"attachment.{v}" for v in set(MIME_TYPE_MAPPING.values())]
            lt = coq_list([pair(coq_str(p), coq_str(p.lower())) for p in [name, f"attachment.{MIME_TYPE_MAPPING.get(mt, 'zz')}"]])
            mtab = coq_list([pair(coq_str(p.lower()), coq_opt(mimetypes.guess_type(p.lower())[0], coq_str))
                             for p in [name, f"attachment.{MIME_TYPE_MAPPING.get(mt, 'zz')}"]])
            att_cases.append(f"({lt}, {mtab}, ({coq_str(name)}, {coq_str(mt)}, {coq_bool(flag)}), {obs})")
            att_info.append((name, mt, flag, obs))
            ctx.case(("att", name, mt, flag), bool(ran), kind="route:" + ("ran" if ran else "skip"))

    # ---- D4b: whole messages of 2-4 attachments sharing ONE declared MIME type but of different file types, in varying
    #      order: (a) the spy-router sequence of (extractor, file name) runs against the model's iteration, (b) with the
    #      real extractors, every attachment's results (type and text) against the same bytes extracted alone
    docs = {"notes.txt": b"plain notes\nline two\n", "report.html": b"<html><body><h1>Report</h1><p>para <b>bold</b></p></body></html>",
            "data.csv": b"a,b\n1,2\n", "conf.json": b'{"k": "v"}', "readme.md": b"# Title\n\ntext\n", "page.HTM": b"<p>upper <i>case</i> ext</p>",
            "paper.docx": G.tiny_docx("docx paragraph\nsecond"), "table.tsv": b"a\tb\n1\t2\n", "noext": b"no extension here",
            "blob.bin": b"\x00\x01\x02", "NOTES2.TXT": b"second text file\n", "mail.eml": b"From: a@b.c\nSubject: inner\nDate: Mon, 01 Jan 2024 12:00:00 +0000\n\ninner body\n"}
    shared_mimes = ["application/octet-stream", "text/plain", "application/pdf", "text/html", G.DOCX_MT, "application/x-custom-binary", "text/csv"]
    list_cases, list_info = [], []
    for k in range(ctx.n(90, 700)):
        mt = shared_mimes[k % len(shared_mimes)] if k % 4 else rng.choice(mimes)
        chosen = rng.sample(sorted(docs), rng.randrange(2, 5))
        if rng.random() < 0.3:
            chosen.append(rng.choice(chosen))           # the same file twice
        flag = is_supported_mime_type(mt)
        mk = lambda: EmailContent(from_email=EmailAddress(), attachments=[EmailAttachment(n, mt, io.BytesIO(docs[n]), flag) for n in chosen])
        # (a) spy
        ran = []

        def spy2(path, _r=ran):
            f = orig_get(path)

            def stub(data, fn, _f=f):
                _r.append(((_f.__module__, _f.__name__), fn))
                return iter(())
            return stub
        router.get_extractor = spy2
        try:
            try:
                list(mk().iterate_supported_attachments())
                obs = "(Some " + coq_list([pair(pair(coq_str(e[0]), coq_str(e[1])), coq_str(fn)) for e, fn in ran]) + ")"
            except ExtractionFileFormatNotSupportedError:
                obs = "None"
        finally:
            router.get_extractor = orig_get
        paths = sorted(set(chosen)) + [f"attachment.{MIME_TYPE_MAPPING.get(mt, 'zz')}"]
        lt = coq_list([pair(coq_str(p_), coq_str(p_.lower())) for p_ in paths])
        mtab = coq_list([pair(coq_str(p_.lower()), coq_opt(mimetypes.guess_type(p_.lower())[0], coq_str)) for p_ in paths])
        list_cases.append(f"({lt}, {mtab}, {coq_list([f'({coq_str(n)}, {coq_str(mt)}, {coq_bool(flag)})' for n in chosen])}, {obs})")
        list_info.append((mt, chosen, obs[:300]))
        ctx.case(("att-list", mt, tuple(chosen)), True, kind=f"route-list:{len(chosen)}")
        # (b) real extractors: per attachment, in context == alone
        if k < ctx.n(45, 300):
            try:
                via = [(type(r).__name__, r.get_full_text()) for r in mk().iterate_supported_attachments()]
                err = None
            except Exception as ex:  # noqa
                via, err = [], repr(ex)
            per = [alone_extract(n, mt, docs[n]) or [] for n in chosen]
            exp = [x for r in per for x in r]
            if err or via != exp:
                # name the first attachment whose contribution differs
                pos, bad = 0, None
                for n, r in zip(chosen, per):
                    if via[pos:pos + len(r)] != r:
                        bad = (n, via[pos:pos + len(r)], r)
                        break
                    pos += len(r)
                ctx.finding(f"attachment-depends-on-neighbours:{mt}", f"attachments {chosen} all declared {mt!r}: {bad[0] if bad else '?'} comes out as "
                            f"{[(x[0], x[1][:40]) for x in (bad[1] if bad else via)]!r} in the message but as {[(x[0], x[1][:40]) for x in (bad[2] if bad else exp)]!r} "
                            f"on its own" + (f"; {err}" if err else ""),
                            {"mime_type": mt, "filenames": chosen, "files_b64": {n: base64.b64encode(docs[n]).decode() for n in set(chosen)},
                             "in_message": via, "alone": exp})

    # ---- D5: .msg - recipient parsing, HTML detection, field mapping over the msg_parser/olefile record of the fixtures
    from sharepoint2text.parsing.extractors.mail import msg_email_extractor as MS
    atoms = ["John Doe", "Doe", "j@x.test", "<j@x.test>", "<", ">", "<>", "\"", "'", " ", "  ", ",", ";", "@", "a@b", "\t", "\u00a0", "\n",
             "Jane <jane@x.test>", "\"Doe, John\" <j@x.test>", "<a@b> ", "x<y>z", "<<a>>", "a>b<c>", "Müller", "/O=EXCH/CN=USER", ""]
    singles, seen_s = [], set()
    for _ in range(ctx.n(300, 3000)):
        x = "".join(rng.choice(atoms) for _ in range(rng.randrange(0, 5)))
        if x not in seen_s:
            seen_s.add(x)
            singles.append(x)
    sc = []
    for x in singles:
        r = MS._parse_single_recipient(x)
        sc.append(pair(coq_str(x), coq_opt(r, lambda e: pair(coq_str(e.name), coq_str(e.address)))))
        ctx.case(("msg-single", x), "<" in x or "@" in x, kind="msg:single")
    corr("msg_single_recipient", "msg_single_case", sc, singles, "str * option (str * str)", shard=600)
    mc, minfo = [], []
    for _ in range(ctx.n(150, 1500)):
        l = [rng.choice(singles) for _ in range(rng.randrange(0, 4))]
        r = MS._parse_multi_recipients(l if rng.random() < 0.7 or len(l) != 1 else l[0])
        mc.append(pair(coq_list([coq_str(x) for x in l]), c_pairs([(e.name, e.address) for e in r])))
        minfo.append(l)
        ctx.case(("msg-multi", tuple(l)), len(l) >= 1, kind="msg:multi")
    corr("msg_multi_recipients", "msg_multi_case", mc, minfo, "list str * list (str * str)", shard=400)
    q = MS._parse_multi_recipients(['"Doe, John" <j@x.test>'])
    ctx.case(("msg-quoted-comma",), True, kind="msg:quoted-comma")
    if [(e.name, e.address) for e in q] != [("Doe, John", "j@x.test")]:
        ctx.finding("msg-recipient-quoted-comma", f".msg recipient '\"Doe, John\" <j@x.test>' is parsed as {[(e.name, e.address) for e in q]!r}",
                    {"recipient": '"Doe, John" <j@x.test>', "got": [(e.name, e.address) for e in q]})
    hatoms = ["<!DOCTYPE html>", "<html", "<HTML>", "<body", "<p>", "<P class=x>", "<pre>", "<b>", "x < y", "<br/>", "<br>", "<Br\n>", "< p>", "<span\t",
              "<tdx>", "<td>", "<TD\u00a0>", "<p", "<div>", "text", " ", "\n", "<script\x1f", "<style>", "<table\u3000", "İ", "ß", "<Tr>", "<head >", "<!doctype"]
    hc, hinfo = [], []
    for _ in range(ctx.n(250, 2500)):
        x = "".join(rng.choice(hatoms) for _ in range(rng.randrange(0, 4)))
        hc.append(f"({coq_str(x)}, {coq_str(x.lstrip().lower())}, {coq_bool(MS._looks_like_html(x))})")
        hinfo.append(x)
        ctx.case(("msg-html", x), "<" in x, kind="msg:html-hint")
    corr("msg_looks_like_html", "msg_html_case", hc, hinfo, "str * str * bool", shard=600)
    fc, finfo = [], []
    try:
        from msg_parser import MsOxMessage
        from olefile import OleFileIO
        for fx in ("basic_email.msg", "msg_with_attachment.msg"):
            fb = (res / fx).read_bytes()
            rec = MsOxMessage(io.BytesIO(fb))
            out = list(MS.read_msg_format_mail(io.BytesIO(fb)))[0]
            aslist = lambda v: [] if not v else (list(v) if isinstance(v, list) else [v])
            arec = []
            with OleFileIO(io.BytesIO(fb)) as ole:
                sts = [s_[0] for s_ in ole.listdir(streams=False, storages=True) if len(s_) == 1 and s_[0].startswith("__attach_version1.0_")]
                for i, st in enumerate(sts, start=1):
                    try:
                        ole.openstream([st, "__substg1.0_37010102"]).read()
                    except Exception:  # noqa
                        continue
                    arec.append((MS._read_ole_string(ole, st, "__substg1.0_3707001F"), MS._read_ole_string(ole, st, "__substg1.0_3704001F"),
                                 MS._read_ole_string(ole, st, "__substg1.0_370E001F"), str(i)))
            body = rec.body or ""
            if all(isinstance(x, str) for x in aslist(rec.sender) + aslist(rec.to)):
                fc.append(f"({coq_list([coq_str(x) for x in aslist(rec.sender)])}, {coq_list([coq_str(x) for x in aslist(rec.to)])}, {coq_str(body)}, "
                          f"{coq_str(body.lstrip().lower())}, {coq_str(MS._html_to_text(body))}, "
                          f"{coq_list(['(' + ', '.join(coq_str(z) for z in a) + ')' for a in arec])}, "
                          f"({pair(coq_str(out.from_email.name), coq_str(out.from_email.address))}, {c_pairs([(e.name, e.address) for e in out.to_emails])}, "
                          f"{coq_str(out.body_plain)}, {coq_str(out.body_html)}, {c_pairs([(a.filename, a.mime_type) for a in out.attachments])}))")
                finfo.append(fx)
                ctx.case(("msg-fixture-record", fx), True, kind="msg:fixture-record")
    except Exception as e:  # noqa
        ctx.obligation("msg-fixture-record", False, repr(e))
    # generated .msg files (root-level property streams written with the CFB writer): field oracle + the same record mapping
    def msg_record_case(fb, label):
        rec = MsOxMessage(io.BytesIO(fb))
        out = list(MS.read_msg_format_mail(io.BytesIO(fb)))[0]
        aslist = lambda v: [] if not v else (list(v) if isinstance(v, list) else [v])
        body = rec.body or ""
        if all(isinstance(x, str) for x in aslist(rec.sender) + aslist(rec.to)) and not out.attachments:
            fc.append(f"({coq_list([coq_str(x) for x in aslist(rec.sender)])}, {coq_list([coq_str(x) for x in aslist(rec.to)])}, {coq_str(body)}, "
                      f"{coq_str(body.lstrip().lower())}, {coq_str(MS._html_to_text(body))}, [], "
                      f"({pair(coq_str(out.from_email.name), coq_str(out.from_email.address))}, {c_pairs([(e.name, e.address) for e in out.to_emails])}, "
                      f"{coq_str(out.body_plain)}, {coq_str(out.body_html)}, []))")
            finfo.append(label)
        return out

    for k in range(ctx.n(40, 400)):
        try:
            msp, mraw = G.gen_msg_spec(rng)
        except Exception:  # noqa
            continue
        ctx.case(("msg-generated", mraw[:64], k), True, kind="msg:generated")
        mrep = lambda field, got, want: {"format": "msg", "field": field, "got": got, "want": want, "msg_b64": base64.b64encode(mraw).decode("ascii")}
        try:
            out = msg_record_case(mraw, f"generated-{k}")
        except Exception as ex:  # noqa
            why = repr(getattr(ex, "__cause__", None) or ex)
            key = ("msg:missing-subject-fails" if msp["no_subject"] and "strip" in why else
                   "msg:missing-date-fails" if msp["no_date"] and "date" in why.lower() else f"msg:fails:{msp['charset']}")
            ctx.finding(key, f".msg extraction fails ({why}) for a message " + ("without Subject" if msp["no_subject"] else "without Date header" if msp["no_date"] else ""),
                        mrep("extract", why, "an EmailContent"))
            continue
        cm = canon_mail(out)
        if cm["subject"] != ("" if msp["no_subject"] else msp["subject"].strip()):
            ctx.finding(f"msg:subject:{msp['charset']}", f"msg: subject {cm['subject']!r} instead of {msp['subject']!r}", mrep("subject", cm["subject"], msp["subject"]))
        if (cm["msgid"] or "") != ("" if msp["no_msgid"] else msp["msgid"]):
            ctx.finding("msg:msgid", f"msg: message id {cm['msgid']!r} instead of {msp['msgid']!r}", mrep("msgid", cm["msgid"], msp["msgid"]))
        if msp["date"] is not None and not iso_equal(cm["date"], msp["date"], True):
            ctx.finding(f"msg:date:{msp.get('date_style')}", f"msg: date {cm['date']!r} instead of {msp['date'].isoformat()!r}", mrep("date", cm["date"], msp["date"].isoformat()))
        for field, got, want in (("from", [tuple(cm["from"])], [tuple(msp["from"])]), ("cc", [tuple(x) for x in cm["cc"]], [tuple(x) for x in msp["cc"]])):
            if got != want:
                torn = any(("," in n or ";" in n) for n, _ in want)
                ctx.finding("msg-recipient-quoted-comma" if torn else f"msg:{field}", f"msg: {field} {got!r} instead of {want!r}"
                            + (" (display name with a comma / semicolon is cut apart)" if torn else ""), mrep(field, got, want))
        if [n for n, _ in cm["to"]] != msp["display_to"]:
            ctx.finding("msg:display-to", f"msg: to names {[n for n, _ in cm['to']]!r} instead of {msp['display_to']!r}", mrep("to", cm["to"], msp["display_to"]))
        if msp["msg_html"]:
            if cm["html"] != msp["html"] or not cm["plain"]:
                ctx.finding("msg:html-body", f"msg: HTML body {cm['html'][:60]!r} / text {cm['plain'][:40]!r} for {msp['html'][:60]!r}", mrep("html", cm["html"], msp["html"]))
        elif nl(cm["plain"]) != nl(msp["plain"]) or cm["html"]:
            looks = MS._looks_like_html(msp["plain"])
            ctx.finding("msg:plain-body-taken-for-html" if looks else "msg:plain-body", f"msg: plain body {cm['plain'][:60]!r} (html {cm['html'][:30]!r}) instead of {msp['plain'][:60]!r}",
                        mrep("plain", cm["plain"], msp["plain"]))

    corr("msg_mapping", "msg_case", fc, finfo,
         "list str * list str * str * str * str * list (str * str * str * str) * ((str * str) * list (str * str) * str * str * list (str * str))", shard=60)

    # ---- D6: _read_eml_format over ARBITRARY mailparser records (parse_from_bytes stubbed): names, types, flags and data of
    #      every attachment, one per record - binary and text records, str / bytes / missing payloads, empty ones included
    import types
    import binascii
    rec_cases, rec_info = [], []
    real_parse = EM.parse_from_bytes
    for k in range(ctx.n(120, 1200)):
        recs = []
        for _ in range(rng.randrange(0, 5)):
            data = rng.choice([b"", b"", b"x", b"hello bytes", b"\x00\xff", "caf\u00e9".encode("utf-8"), b" ", b"\n"])
            binary = rng.random() < 0.6
            kind = rng.choice(["str", "bytes", "none"])
            if kind == "none":
                payload = rng.choice([None, "", b""])
            elif binary:
                payload = base64.b64encode(data).decode("ascii") if kind == "str" else base64.b64encode(data)
            else:
                payload = rng.choice(["text caf\u00e9", "", "a\udcffb", "plain"]) if kind == "str" else data
            rec = {"filename": rng.choice(["a.txt", "", None, "r\u00e9sum\u00e9.pdf", "attachment"]),
                   "mail_content_type": rng.choice(["text/plain", "", None, "application/pdf", "application/x-unknown"]),
                   "payload": payload, "binary": rng.choice([True, 1]) if binary else rng.choice([False, None, 0])}
            if rng.random() < 0.1:
                del rec["payload"]
            recs.append(rec)
        fake = types.SimpleNamespace(from_=[("N", "a@b.c")], to=[], cc=[], bcc=[], reply_to=[], date=None, message_id="<i@x>", subject="s",
                                     in_reply_to="", text_plain=["b"], text_html=[], attachments=recs)
        EM.parse_from_bytes = lambda payload, _f=fake: _f
        try:
            try:
                out = EM._read_eml_format(b"ignored")
            except (binascii.Error, ValueError, TypeError) as ex:
                continue              # an undecodable base64 payload raises in HEAD as well as in the model's oracle: not a case
        finally:
            EM.parse_from_bytes = real_parse
        ctx.case(("eml-record", k), bool(recs), kind=f"eml-record:{min(len(recs), 4)}")
        if len(out.attachments) != len(recs):
            ctx.finding("eml:attachments:record-dropped", f"eml: {len(recs)} mailparser attachment records give {len(out.attachments)} EmailAttachments",
                        {"records": [{k_: (v_ if not isinstance(v_, bytes) else v_.hex()) for k_, v_ in r.items()} for r in recs]})
        b64t, u8t, rterms = {}, {}, []
        for r in recs:
            pl = r.get("payload")
            eff = pl or b""
            if r.get("binary"):
                b64t[eff if isinstance(eff, bytes) else eff.encode("latin-1", "replace")] = base64.b64decode(eff)
            elif isinstance(eff, str):
                u8t[eff] = eff.encode("utf-8", errors="ignore")
            pterm = "PNone" if pl is None else f"(PStr {coq_str(pl)})" if isinstance(pl, str) else f"(PBytes {coq_bytes(pl)})"
            rterms.append(f"({coq_str(r.get('filename') or '')}, {coq_str(r.get('mail_content_type') or '')}, {coq_bool(bool(r.get('binary')))}, {pterm})")
        b64rows = coq_list([pair(coq_bytes(k_), coq_bytes(v_)) for k_, v_ in b64t.items()])
        u8rows = coq_list([pair(coq_str(k_), coq_bytes(v_)) for k_, v_ in u8t.items()])
        exp = coq_list([f"({coq_str(a.filename)}, {coq_str(a.mime_type)}, {coq_bool(a.is_supported_mime_type)}, {coq_bytes(a.data.getvalue())})" for a in out.attachments])
        rec_cases.append(f"({b64rows}, {u8rows}, {coq_list(rterms)}, {exp})")
        rec_info.append([(r.get("filename"), r.get("binary"), type(r.get("payload")).__name__) for r in recs])
    corr("eml_records", "(eml_record_case T)", rec_cases, rec_info,
         "list (str * str) * list (str * str) * list (str * str * bool * mp_payload) * list (str * str * bool * str)", shard=300)

    # ---- D7: the single-part body: declared charset -> codec, UTF-8 fallback for unknown names and refusing codecs
    labels = ["utf-8", "UTF-8", "us-ascii", "iso-8859-1", "latin1", "windows-1252", "koi8-r", "shift_jis", "gb2312", "x-unknown", "utf-9", "", None,
              "unknown-8bit", "utf-16", "utf_7", "rot13", "idna", "undefined", "hex", "ISO-8859-15", "cp437", "big5", "punycode", "unicode_escape"]
    datas = [b"plain ascii", "caf\u00e9 \u4f1a\u8b70".encode("utf-8"), b"caf\xe9", b"\xff\xfe\x00", b"\x81\x60 \x81\x7c", b"\xa1\xa4", b"+AGE-", b"68656c6c6f", b"x" * 3, b"\x80\x9f"]
    pay_cases, pay_info = [], []
    for k in range(ctx.n(150, 1500)):
        lab, data = rng.choice(labels), rng.choice(datas)
        head = b"From: a@b.c\nSubject: s\nDate: Mon, 01 Jan 2024 12:00:00 +0000\nMIME-Version: 1.0\nContent-Transfer-Encoding: base64\n"
        head += b"Content-Type: text/plain" + (b"" if lab is None else b'; charset="' + lab.encode("ascii") + b'"') + b"\n\n"
        pm = email.message_from_bytes(head + base64.encodebytes(data))
        try:
            got_p = MB.get_body_content(pm)[0]
        except Exception as ex:  # noqa
            ctx.finding("mbox:charset-label:unicodeerror-not-caught" if isinstance(ex, UnicodeError) else f"mbox:body:charset-label-raises:{lab}",
                        f"mbox: a text part labelled charset={lab!r} makes get_body_content raise {ex!r} (the UTF-8 fallback catches only LookupError / UnicodeDecodeError)",
                        {"message": pm.as_bytes(), "charset": lab})
            continue
        cs = pm.get_content_charset()
        use = cs or "utf-8"
        try:
            r_ = f"(DOk {coq_str(data.decode(use, errors='replace'))})"
        except LookupError:
            r_ = "DLookupError"
        except UnicodeDecodeError:
            r_ = "DUnicodeError"
        except Exception as ex:  # noqa  (codecs that are not text codecs raise other things: outside the modelled fallback)
            continue
        pay_cases.append(f"({coq_list([pair(coq_bytes(data), pair(coq_str(use), r_))])}, {coq_list([pair(coq_bytes(data), coq_str(data.decode('utf-8', errors='replace')))])}, "
                         f"{coq_bytes(data)}, {coq_opt(cs, coq_str)}, {coq_str(got_p)})")
        pay_info.append((lab, data))
        ctx.case(("payload", lab, data), True, kind="payload:" + ("fallback" if r_ != "" and not r_.startswith("(DOk") else "declared"))
    corr("payload_decode", "payload_case", pay_cases, pay_info, "dec_table * u8_table * str * option str * str", shard=500)

    corr("attachment_lists", "(att_list_case T)", list_cases, list_info,
         "list (str * str) * list (str * option str) * list (str * str * bool) * option (list (C07.Model.extractor * str))", shard=200)
    corr("body", "body_case", body_cases, body_info, "part * (str * str)", shard=120)
    corr("header", "header_case", hdr_cases, hdr_info, "dh_table * dec_table * u8_table * str * str", shard=200)
    corr("address", "addr_case", addr_cases, addr_info, "dh_table * dec_table * u8_table * str * list (str * str) * list (str * str)", shard=200)
    corr("emailcontent", "email_case", mail_cases, mail_info, "str * str * str * (str * str * list (str * str) * str)", shard=400)
    corr("attachment_routing", "(att_case T)", att_cases, att_info,
         "list (str * str) * list (str * option str) * (str * str * bool) * option (option (str * str))", shard=300)
    corr("eml_mapping", "(eml_case T)", eml_cases, eml_info,
         "list (str * str) * list (str * str) * list str * list str * list (str * str) * "
         "(list (str * str) * list (str * str) * str * str * list (str * str * bool))", shard=100)


def replay(ctx, rp):
    """Re-run the stored input through the extractor and show the field again; re-raises the finding when it still differs."""
    import logging
    logging.disable(logging.CRITICAL)
    from common import _jsonable
    if "message_b64" in rp:
        raw = base64.b64decode(rp["message_b64"])
        fmt, field = rp.get("format"), rp.get("field")
        if fmt == "mbox":
            ms, err = run_mbox(G.mbox_bytes([raw.replace(b"\r\n", b"\n")], b"\r\n" if b"\r\n" in raw else b"\n", rp.get("quoted") or "mboxrd"))
        else:
            ms, err = run_eml(raw)
        got = None
        if ms:
            c = canon_mail(ms[0])
            got = c.get({"attachments": "att"}.get(field, field))
            if field == "iterate_supported_attachments":
                got = [(type(r).__name__, r.get_full_text()) for r in ms[0].iterate_supported_attachments()]
        print(f"replay {rp.get('key')}: format={fmt} field={field}\n  got  now: {got!r:.400}\n  got then: {rp.get('got')!r:.400}\n  wanted:   {rp.get('want')!r:.400}\n  error: {err}")
        same = _jsonable(got) == rp.get("want") or (isinstance(got, str) and isinstance(rp.get("want"), str) and nl(got) == nl(rp["want"]))
        if field == "att" or field == "attachments":
            same = _jsonable([a[:3] for a in (got or [])]) == rp.get("want")
        if field == "date" and isinstance(got, str) and rp.get("want"):
            same = iso_equal(got, datetime.datetime.fromisoformat(rp["want"]), fmt == "mbox")
        ctx.case(("replay", rp.get("key")), True, kind="replay")
        if not same:
            ctx.finding(rp.get("key", "replay"), rp.get("what", "replayed input still fails"), {k: v for k, v in rp.items() if k not in ("property", "key", "what")})
    else:
        run(ctx)


META = {
    "technique": "Coq proof (mbox splitting at byte level, body selection over an abstract MIME tree, header unfolding, "
                 "decode/address fallback structure, EmailContent units, attachment routing through the C07 router model; "
                 "parametric in all stdlib/mailparser oracles) + kernel-decided obligations over tables and regex sources "
                 "dumped from the live modules + vm_compute differential correspondence + generator-based property oracle",
    "design_ref": "DESIGN.md §5 C16",
    "level_text": "Kernel-checked theorems over an executable model of the repository's own e-mail logic: split(concat(msgs)) = "
                  "msgs for LF and CRLF mailboxes when no message line matches MBOX_FROM_PATTERN, never more results than "
                  "separator lines for any bytes, every mboxrd-quoted mailbox splits one-per-message (quoting not undone and an "
                  "unescaped From_ line splitting a message are proved as refutations); get_body_content = first eligible "
                  "text/plain / text/html part in document order with attachments skipped (text inside an attached message "
                  "is not: refutation); unfolding inverts folding; charset fallback; address lists = entries with an address, in "
                  "order; get_full_text = plain else html, one unit; attachment routing = router decision on the name then the MIME "
                  "type, a supported attachment extracts like the file alone and independently of its neighbours. RFC 2047, "
                  "charsets, base64/QP, address and MIME parsing (stdlib email, mailparser, msg_parser) are oracles: exercised by "
                  "generated messages compared field by field with the generator's specs, .eml against .mbox, not proved.",
    "level_note": "Trusted: Coq kernel+VM; the G-dump printer; the hand-written models (validated differentially on recorded "
                  "oracle values); the stdlib generator and the lossless filter as source of ground truth; .msg only through "
                  "the two fixtures plus generated files with root-level property streams (subject, transport headers, message id, "
                  "body/HTML, DisplayTo). Outside the machinery: .msg attachments, recipient tables and the DeliverTime property "
                  "(nested storages / fixed-size property entries are not produced by the CFB writer: fixtures only); all decoding "
                  "done inside mailparser (.eml) and msg_parser (mailparser returns headers and some bodies in Unicode NFC: .eml text is "
                  "compared up to canonical equivalence - subject, message id and bodies only; display names and addresses are compared code "
                  "point by code point on every path (known finding eml:display-name:nfc-normalised) - .mbox/.msg code point by code point; counted as eml:text-returned-in-NFC); re.IGNORECASE of the HTML hint regex beyond ASCII case folding; MMDF "
                  "mailboxes are not the mbox format (theorem C16_mbox_mmdf_delimiters_kept_refuted states what happens to them).",
}
