"""C01 — stable failure surface, termination, CLI outcome.

X: skeletons of every extractor generator (ast -> C01.Exn.stmt) regenerated each run; obligations
   `contained`/`silent` re-decided by the kernel; inventory of `while` loops (fail closed on a new loop).
D: mutation-style inputs through every extractor / read_file / CLI in sandboxed workers (fuzzing — labelled as such).
"""
from __future__ import annotations

import importlib
import json
import os
import subprocess
import sys
import tempfile
import time
from pathlib import Path

import common
import skeleton

EXTRA_CONTAINED = [("sharepoint2text", "read_file", "with-body")]
SILENT = [("sharepoint2text.parsing.extractors.archive_extractor", "_process_archive_entry", None),
          ("sharepoint2text.cli", "main", "last-try")]

# every hand-written `while` of the library, classified.  A loop that is not listed makes the
# inventory obligation fail (closed): someone has to state why it terminates.
#   measure: why each iteration makes strict progress towards the guard
LOOPS = {
    ("data_types", "DocContent.iterate_units"): "pops a non-empty stack",
    ("data_types", "DocxContent.iterate_units"): "pops a non-empty stack",
    ("data_types", "OdtContent.iterate_units"): "pops a non-empty stack",
    ("doc_extractor", "_DocReader._extract_images_from_word_document"): "i increases by >=1 up to data_len",
    ("doc_extractor", "_DocReader._extract_png_images_from_bytes"): "outer: offset = start+1 > previous start (find from offset); inner: pos += 12+length",
    ("ppt_extractor", "_iter_records"): "offset += 1 | 8 | 8+rec_len  (modelled: C01/Loops.v iter_records)",
    ("ppt_extractor", "_parse_containers"): "pops a non-empty stack",
    ("rtf_extractor", "_RtfParser._remove_ignorable_groups"): "i increases by >=1 up to n",
    ("rtf_extractor", "_RtfParser._strip_rtf_full_with_pages"): "i/j increase by >=1 up to n; k decreases to 0",
    ("xls_extractor", "_extract_images_from_workbook"): "offset += 1 | 8+rec_len with rec_len > 0  (modelled: C01/LoopsXls.v xls_blips)",
    ("docx_extractor", "_get_image_pixel_dimensions"): "i += 2+seg_len or 1 (same walk as C01/Loops.v jpeg_dims)",
    ("pptx_extractor", "_get_image_pixel_dimensions"): "i += 2+seg_len or 1",
    ("xlsx_extractor", "_get_image_pixel_dimensions"): "i += 2+seg_len or 1",
    ("ods_extractor", "_extract_sheet"): "pops a non-empty list",
    ("_pypdf_aes_fallback", "_gf_mul"): "b >>= 1 on a byte",
    ("pdf_extractor", "_TableExtractor._extract"): "idx increases",
    ("pdf_extractor", "_TableExtractor._extract_row"): "idx decreases to -1",
    ("pdf_extractor", "_TableExtractor._normalize_values"): "len(merged) decreases",
    ("pdf_extractor", "_TableExtractor._extract_word_date_header"): "look_idx increases",
    ("encryption", "is_xls_encrypted"): "offset += 4+record_len",
    ("image_utils", "get_jpeg_dimensions"): "offset += 1 | 2+segment_len  (modelled: C01/Loops.v jpeg_dims)",
    ("sevenzip", "SevenZipReader._parse_main_header"): "each iteration consumes >=1 byte of a finite buffer or breaks",
    ("sevenzip", "SevenZipReader._parse_files_info"): "each iteration consumes >=1 byte of a finite buffer or breaks",
    ("omml_to_latex", "omml_to_latex.process_element"): "pops the pending-radical stack each iteration (modelled: C19, theorem C19_total)",
    ("pdf_extractor", "_patched_build_char_map"): "pops the saved-originals list each iteration (modelled: C15)",
    ("client", "SharePointRestClient._get_folders_from_url"): "server-driven pagination (C18: finite pages assumed)",
    ("client", "SharePointRestClient._list_items_paginated"): "server-driven pagination (C18: finite pages assumed)",
}


def registry_functions():
    from sharepoint2text.parsing import router
    seen, out = set(), []
    for k, (mod, fn) in router._EXTRACTOR_REGISTRY.items():
        if (mod, fn) not in seen:
            seen.add((mod, fn))
            out.append((mod, fn))
    return out


def _selector(kind):
    import ast
    if kind is None:
        return None
    if kind == "with-body":
        def sel(fn):
            for n in fn.body:
                if isinstance(n, ast.With):
                    return n.body
            raise skeleton.TranslateError("read_file: no with-block")
        return sel
    if kind == "last-try":
        def sel(fn):
            tries = [n for n in fn.body if isinstance(n, ast.Try)]
            if not tries:
                raise skeleton.TranslateError("main: no try")
            return [tries[-1]]
        return sel
    raise ValueError(kind)


def gen_skeletons(ctx):
    from sharepoint2text.parsing.exceptions import ExtractionError
    contained, silent, errors = [], [], []
    for mod, fn in registry_functions():
        try:
            contained.append((f"{mod}.{fn}", skeleton.skeleton(mod, fn, ExtractionError)))
        except Exception as e:  # noqa
            errors.append(f"{mod}.{fn}: {e!r}")
    for mod, fn, sel in EXTRA_CONTAINED:
        try:
            contained.append((f"{mod}.{fn}", skeleton.skeleton(mod, fn, ExtractionError, _selector(sel))))
        except Exception as e:  # noqa
            errors.append(f"{mod}.{fn}: {e!r}")
    for mod, fn, sel in SILENT:
        try:
            silent.append((f"{mod}.{fn}", skeleton.skeleton(mod, fn, ExtractionError, _selector(sel))))
        except Exception as e:  # noqa
            errors.append(f"{mod}.{fn}: {e!r}")
    ctx.obligation("translator:all-functions-translated", not errors, "; ".join(errors))
    n_expected = len(registry_functions()) + len(EXTRA_CONTAINED)
    txt = "(* GENERATED on every check run from /repo's source by tools/skeleton.py — do not edit. *)\n"
    txt += "From Coq Require Import String List.\nFrom S2T Require Import C01.Exn.\nImport ListNotations.\nOpen Scope string_scope.\n\n"
    txt += "Definition contained_skeletons : list (string * stmt) := [\n" + ";\n".join(
        f'  ("{n}", {t})' for n, t in contained) + "\n].\n\n"
    txt += "Definition silent_skeletons : list (string * stmt) := [\n" + ";\n".join(
        f'  ("{n}", {t})' for n, t in silent) + "\n].\n\n"
    txt += f"Definition expected_contained : nat := {n_expected}.\nDefinition expected_silent : nat := {len(SILENT)}.\n"
    ctx.gen_write("Gen/C01Skeletons.v", txt)
    ctx.samples.append({"skeleton": contained[0][0], "term": contained[0][1][:300]} if contained else "none")
    return contained, silent


def cli_paths(ctx):
    """Paths through the extraction block of cli.main as lists of C01.Cli.step (fail closed)."""
    import ast
    import inspect
    from sharepoint2text import cli
    tree = ast.parse(inspect.getsource(cli))
    main = skeleton.find_function(tree, "main")
    tries = [n for n in main.body if isinstance(n, ast.Try)]
    tr = skeleton.Translator(cli, main, Exception)

    def mentions_stdout(node):
        return any(isinstance(n, ast.Attribute) and n.attr in ("stdout", "__stdout__") for n in ast.walk(node)) or any(
            isinstance(n, ast.Call) and isinstance(n.func, ast.Name) and n.func.id == "print" and not any(
                k.arg == "file" for k in n.keywords) for n in ast.walk(node))

    def steps_of(s):
        if isinstance(s, ast.Expr) and isinstance(s.value, ast.Call):
            c = s.value
            if ast.unparse(c.func) == "sys.stdout.write" and len(c.args) == 1:
                a = c.args[0]
                if isinstance(a, ast.Constant) and isinstance(a.value, str) and a.value.isascii():
                    return ["WriteConst"]
                if mentions_stdout(a):
                    return ["WriteStream"]
                if isinstance(a, ast.Name):
                    return ["WriteVar"]
                return ["Compute", "WriteVar"]
        if mentions_stdout(s):
            return ["WriteStream"]
        return [] if isinstance(s, ast.Expr) and tr.pure(s.value) else ["Compute"]

    def paths(stmts):
        if not stmts:
            return [[]]
        s, rest = stmts[0], stmts[1:]
        if isinstance(s, ast.If):
            pre = ["WriteStream"] if mentions_stdout(s.test) else ([] if tr.pure(s.test) else ["Compute"])
            out = []
            for br in (s.body, s.orelse):
                for p1 in paths(list(br) + list(rest)):
                    out.append(pre + p1)
            return out
        if isinstance(s, (ast.Return, ast.Raise)):
            return [["Compute"]] if not (isinstance(s, ast.Return) and tr.pure(s.value)) else [[]]
        if isinstance(s, (ast.For, ast.While, ast.With, ast.Try, ast.Match)):
            if mentions_stdout(s):
                return [["WriteStream"] + p for p in paths(rest)]
            return [["Compute"] + p for p in paths(rest)]
        return [steps_of(s) + p for p in paths(rest)]

    ps = paths(tries[-1].body) if tries else None
    # stdout must not be touched anywhere else in the module (helpers called from main)
    outside = []
    for n in tree.body:
        if isinstance(n, (ast.FunctionDef, ast.ClassDef)) and n.name != "main" and mentions_stdout(n):
            outside.append(n.name)
    for n in main.body:
        if n not in tries[-1:] and mentions_stdout(n):
            outside.append(f"main:line{n.lineno}")
    for h in (tries[-1].handlers if tries else []):
        if mentions_stdout(h):
            outside.append("main:except-handler")
    ctx.obligation("cli:stdout-only-written-in-main-try", ps is not None and not outside, f"stdout referenced in: {outside}")
    txt = "(* GENERATED on every check run from sharepoint2text/cli.py — do not edit. *)\n"
    txt += "From Coq Require Import List.\nFrom S2T Require Import C01.Cli.\nImport ListNotations.\n\n"
    txt += "Definition cli_paths : list (list step) := [\n" + ";\n".join(
        "  [" + "; ".join(p) + "]" for p in (ps or [])) + "\n].\n"
    ctx.gen_write("Gen/C01CliPaths.v", txt)
    ctx.extra["cli_paths"] = len(ps or [])


# loops whose executable model lives in another property's development: (Props file, theorem that must exist there)
MODELLED_ELSEWHERE = {
    ("encryption", "is_xls_encrypted"): ("C08/Props.v", "C08_biff_terminates"),
    ("rtf_extractor", "_RtfParser._strip_rtf_full_with_pages"): ("C04/Props.v", "C04_rtf_output_utf8able"),
    ("rtf_extractor", "_RtfParser._remove_ignorable_groups"): ("C02/PropsRtf.v", "C02_rtf_prune_keeps_spec"),
    ("data_types", "DocxContent.iterate_units"): ("C03/Props.v", "C03_docx_numbers_strict"),
    ("omml_to_latex", "omml_to_latex.process_element"): ("C19/Props.v", "C19_total"),
    ("pdf_extractor", "_patched_build_char_map"): ("C15/Props.v", "C15_patch_restored"),
    ("ods_extractor", "_extract_sheet"): ("C12/Props.v", "C12_ods_expansion_size"),
    ("docx_extractor", "_get_image_pixel_dimensions"): ("C14/Props.v", "C14_sniff_total"),
    ("pptx_extractor", "_get_image_pixel_dimensions"): ("C14/Props.v", "C14_sniff_total"),
    ("xlsx_extractor", "_get_image_pixel_dimensions"): ("C14/Props.v", "C14_sniff_total"),
    ("_pypdf_aes_fallback", "_gf_mul"): ("C20/Props.v", "C20_gf_mul_ok"),
    ("client", "SharePointRestClient._list_items_paginated"): ("C18/Props.v", "C18_walk_exact"),
    ("client", "SharePointRestClient._get_folders_from_url"): ("C18/Props.v", "C18_walk_exact"),
}


def loop_inventory(ctx):
    import pkgutil
    import sharepoint2text
    found = []
    for m in pkgutil.walk_packages(sharepoint2text.__path__, "sharepoint2text."):
        if ".tests" in m.name or m.name.endswith("run_test_setup") or m.ispkg:
            continue
        try:
            for q, line, test in skeleton.while_loops(m.name):
                found.append((m.name.rsplit(".", 1)[-1], q, line, test))
        except Exception as e:  # noqa
            ctx.obligation(f"loop-inventory:{m.name}", False, repr(e))
    unknown = sorted({(a, b) for a, b, _, _ in found if (a, b) not in LOOPS})
    ctx.obligation("loop-inventory:every-while-loop-classified", not unknown,
                   f"while loops without a termination argument: {unknown}")
    ctx.extra["while_loops"] = len(found)
    # loops modelled in another property's development: the theorem that carries the termination /
    # totality claim must still be stated there (a total Gallina function that corresponds to the code)
    missing = []
    for key, (pf, thm) in MODELLED_ELSEWHERE.items():
        try:
            src = common.strip_coq_comments((common.COQ / pf).read_text())
        except FileNotFoundError:
            src = ""
        if not __import__("re").search(r"\b(Theorem|Lemma)\s+" + thm + r"\b", src):
            missing.append(f"{key[1]} -> {pf}:{thm}")
    ctx.obligation("loop-inventory:models-in-other-properties-still-stated", not missing, "; ".join(missing))
    ctx.extra["loops_modelled"] = sorted({k[1] for k in MODELLED_ELSEWHERE} | {"_iter_records", "get_jpeg_dimensions"})
    return found


# statements of EmailContent.iterate_supported_attachments that run OUTSIDE a catch-all handler, with the reason why
# they cannot let a foreign exception escape.  Anything else that appears there fails the obligation (closed).
ATTACHMENT_EXPOSED = {
    "extractor = get_extractor(attachment.filename)":
        "get_extractor raises only ExtractionFileFormatNotSupportedError (C07_else_not_supported + C07's hostile-name corpus)",
    "file_type = MIME_TYPE_MAPPING.get(attachment.mime_type)": "dict.get on a str key",
    "extractor = get_extractor(f'attachment.{file_type}')":
        "get_extractor raises only ExtractionFileFormatNotSupportedError (a Fam exception: allowed to escape)",
    "attachment.data.seek(0)": "io.BytesIO owned by the EmailAttachment; raises only when closed (fuzzed: e-mails with "
                               "attachments of every text type, consumed twice)",
}


def attachment_path_inventory(ctx):
    """X-inventory of the e-mail attachment path (the skeleton analysis covers the registered extractors, read_file,
    _process_archive_entry and cli.main; this function is a method of a result class)."""
    import ast
    import inspect
    from sharepoint2text.parsing.extractors import data_types
    try:
        fn = data_types.EmailContent.iterate_supported_attachments
        tree = ast.parse(__import__("textwrap").dedent(inspect.getsource(fn))).body[0]
    except Exception as e:  # noqa
        ctx.obligation("attachments:inventory", False, repr(e))
        return
    exposed = []

    def catch_all(h):
        t = h.type
        names = [t] if not isinstance(t, ast.Tuple) else list(t.elts)
        return t is None or any(isinstance(n, ast.Name) and n.id in ("Exception", "BaseException") for n in names)

    def harmless(stmt):
        if isinstance(stmt, (ast.Import, ast.ImportFrom, ast.Continue, ast.Break, ast.Pass)):
            return True
        if isinstance(stmt, ast.Raise) and stmt.exc is None:
            return True          # bare re-raise inside `except ExtractionFileEncryptedError`
        if isinstance(stmt, ast.Expr) and isinstance(stmt.value, ast.Constant):
            return True
        if (isinstance(stmt, ast.Expr) and isinstance(stmt.value, ast.Call) and isinstance(stmt.value.func, ast.Attribute)
                and isinstance(stmt.value.func.value, ast.Name) and stmt.value.func.value.id == "logger"
                and all(isinstance(a, (ast.Constant, ast.Name, ast.Attribute)) for a in stmt.value.args)):
            return True
        return not any(isinstance(n, (ast.Call, ast.Subscript, ast.BinOp, ast.Yield, ast.YieldFrom, ast.Await)) for n in ast.walk(stmt))

    def walk(stmts, guarded):
        for st in stmts:
            if isinstance(st, ast.Try):
                g = guarded or any(catch_all(h) for h in st.handlers)
                walk(st.body, g)
                for h in st.handlers:
                    walk(h.body, guarded)
                walk(st.orelse, guarded)
                walk(st.finalbody, guarded)
            elif isinstance(st, (ast.For, ast.While, ast.If, ast.With)):
                hdr = st.iter if isinstance(st, ast.For) else (st.test if isinstance(st, (ast.While, ast.If)) else None)
                if hdr is not None and not guarded and any(isinstance(n, ast.Call) for n in ast.walk(hdr)):
                    exposed.append(ast.unparse(hdr))
                walk(st.body, guarded)
                walk(getattr(st, "orelse", []), guarded)
            elif not guarded and not harmless(st):
                exposed.append(ast.unparse(st))
    walk(tree.body, False)
    unknown = [e for e in exposed if e not in ATTACHMENT_EXPOSED]
    ctx.obligation("attachments:statements-outside-a-catch-all-are-the-justified-ones", not unknown and bool(exposed),
                   f"unjustified statements outside a catch-all handler in iterate_supported_attachments: {unknown}")
    ctx.extra["attachment_exposed_statements"] = {e: ATTACHMENT_EXPOSED.get(e, "UNJUSTIFIED") for e in exposed}


def special_inputs(slow=False):
    """Well-formed files of unusual content (built with the writers available in /venv)."""
    import datetime
    import io
    out = []
    try:
        import openpyxl
        wb = openpyxl.Workbook()
        ws = wb.active
        ws.append(["name", "dur"])
        ws.append(["a", datetime.timedelta(hours=1, minutes=30)])
        b = io.BytesIO()
        wb.save(b)
        out.append(("xlsx", "special:xlsx-duration-cell", b.getvalue()))
        wb = openpyxl.Workbook()
        ws = wb.active
        ws.append(["t", datetime.time(1, 2, 3), datetime.datetime(2020, 1, 2, 3, 4, 5), True, 1.5, None, "=1/0"])
        b = io.BytesIO()
        wb.save(b)
        out.append(("xlsx", "special:xlsx-typed-cells", b.getvalue()))
    except Exception:  # noqa
        pass
    # valid containers whose XML is well-formed but semantically invalid (third-party parsers then raise
    # errors with multi-line messages: the CLI must still print exactly one diagnostic line)
    try:
        import zipfile as _zf
        for (ext, lab, b) in list(out):
            if ext != "xlsx":
                continue
            zin = _zf.ZipFile(io.BytesIO(b))
            for member, old, new in [("xl/workbook.xml", b'visibility="visible"', b'visibility="sideways"'),
                                     ("xl/styles.xml", b'patternType="gray125"', b'patternType="plaid"'),
                                     ("xl/workbook.xml", b'sheetId="1"', b'sheetId="one"')]:
                if member not in zin.namelist() or old not in zin.read(member):
                    continue
                buf = io.BytesIO()
                with _zf.ZipFile(buf, "w", _zf.ZIP_DEFLATED) as zout:
                    for nme in zin.namelist():
                        d = zin.read(nme)
                        zout.writestr(nme, d.replace(old, new) if nme == member else d)
                out.append(("xlsx", f"special:xlsx-bad-enum-{new.decode().split('=')[0]}", buf.getvalue()))
            break
    except Exception:  # noqa
        pass
    out.append(("txt", "special:empty-txt", b""))
    out.append(("txt", "special:lone-surrogate-utf16", "a\ud800b".encode("utf-16-le", "surrogatepass")))
    out.append(("html", "special:html-newline-title", b"<html><head><title>a\nb</title></head><body>x</body></html>"))
    out.append(("rtf", "special:rtf-surrogates", b"{\\rtf1 \\u55357?\\u56832? x}"))
    out.append(("json", "special:json", b'{"a": 1}'))
    good = (b"From a@x.org Mon Jan  1 00:00:00 2024\nFrom: A <a@x.org>\nTo: B <b@x.org>\nSubject: one\n"
            b"Date: Mon, 01 Jan 2024 00:00:00 +0000\nMessage-ID: <1@x.org>\n\nfirst body\n\n")
    bad = (b"From c@x.org Tue Jan  2 00:00:00 2024\nFrom: C <c@x.org>\nTo: B <b@x.org>\nSubject: two\n"
           b"Message-ID: <2@x.org>\n\nsecond body (no Date header)\n")
    out.append(("mbox", "special:mbox-second-message-no-date", good + bad))
    out.append(("mbox", "special:mbox-two-good", good + good))
    out.append(("html", "special:html-nul-in-charset", b'<html><head><meta charset="utf\x00-8"></head><body>x</body></html>'))
    out.append(("mhtml", "special:mhtml-nul-in-charset", b'MIME-Version: 1.0\nContent-Type: text/html\n\n'
                b'<html><head><meta charset="utf\x00-8"></head><body>x</body></html>'))
    out.append(("txt", "special:txt-nul", b"a\x00b"))
    # 7z archives whose header is internally inconsistent but whose CRCs match (plain bit flips are
    # rejected by the CRC check before the header parser runs)
    try:
        import sevenz_min
        files = [("a.txt", b"hello A"), ("b.txt", b"hello B"), ("d", None), ("c.md", b"# c")]
        variants = {
            "more-files-than-names": dict(declared_files=9),
            "fewer-files-than-names": dict(declared_files=1),
            "zero-files": dict(declared_files=0),
            "name-without-terminator": dict(names_blob="a.txt".encode("utf-16-le")),
            "odd-length-names": dict(names_blob=b"a\x00b"),
            "empty-names": dict(names_blob=b""),
            "only-terminators": dict(names_blob=b"\x00\x00" * 4),
            "trailing-bytes": dict(trailing=b"\x00" * 64),
            "solid": dict(solid=True),
        }
        for nm, kw in variants.items():
            out.append(("7z", f"special:7z-{nm}", sevenz_min.write_7z(files, **kw)))
    except Exception:  # noqa
        pass
    # e-mails carrying small text attachments (incl. a UTF-8 BOM, as "CSV UTF-8" exports have)
    try:
        from email.message import EmailMessage
        for bom in (b"", b"\xef\xbb\xbf"):
            m = EmailMessage()
            m["From"] = "a@x.org"; m["To"] = "b@x.org"; m["Subject"] = "att"; m["Date"] = "Mon, 01 Jan 2024 00:00:00 +0000"
            m.set_content("body")
            for fn, ctype, data in [("t.txt", "text/plain", bom + b"plain text"), ("c.csv", "text/csv", bom + b"a,b\n1,2\n"),
                                    ("j.json", "application/json", bom + b'{"a": 1}'), ("h.html", "text/html", bom + b"<p>x</p>"),
                                    ("m.md", "text/markdown", bom + b"# t"), ("bad.docx", "application/octet-stream", b"PK\x03\x04junk")]:
                mt, st = ctype.split("/")
                m.add_attachment(data, maintype=mt, subtype=st, filename=fn)
            out.append(("eml", f"special:eml-text-attachments{'-bom' if bom else ''}", m.as_bytes()))
    except Exception:  # noqa
        pass
    out.append(("mbox", "special:mbox-second-message-nul-in-charset", good + b"From c@x.org Tue Jan  2 00:00:00 2024\nFrom: C <c@x.org>\n"
                b"Content-Type: text/plain; charset=\"utf\x00-8\"\n\nbody\n"))
    out.append(("mbox", "special:mbox-second-message-nul-in-encoded-word", good + b"From c@x.org Tue Jan  2 00:00:00 2024\nFrom: C <c@x.org>\n"
                b"Subject: =?utf\x00-8?b?YWJj?=\n\nbody\n"))
    out += hostile_name_inputs()
    out += hostile_zip_shells()
    # multi-result inputs whose LATER result is one of the hostile single messages (a failure after the first result
    # is what distinguishes a CLI that streams from one that prints all or nothing)
    for k_, lab_, b_ in list(out):
        if k_ == "eml" and len(b_) < 4000:
            out.append(("mbox", lab_.replace("special:eml-", "special:mbox-second-message-"), good + b"From z@x.org Wed Jan  3 00:00:00 2024\n" + b_ + b"\n"))
    out += regex_hostile_markup()
    out += damaged_attachment_encodings()
    out += nested_formula_documents(slow)
    out += guard_tripping_containers()
    out += encrypted_pdf_variants(slow)
    out += pdf_security_parameter_grid()
    return out


def regex_hostile_markup():
    """Small HTML / MHTML / RTF heads built to make backtracking regular expressions over the raw input blow up: tags
    and groups left open, long unquoted attribute runs, repeated near-matches of what the sniffers look for."""
    out = []
    runs = ["name=viewport content=width=device-width,initial-scale=1.0,maximum-scale=5.0,user-scalable=yes",
            "a=b " * 40, "x" * 200, 'content="' + "a b " * 60, "charset " * 40, "http-equiv=Content-Type content=text/html;" * 6,
            "=" * 120, "'" * 61 + '"' * 61, "a=\"b\" " * 30 + "c"]
    for tag in ("meta", "META", "a", "img", "div", "script", "style", "!--", "!DOCTYPE", "?xml"):
        for r_ in runs:
            out.append(("html", f"special:html-open-{tag}-{len(r_)}", f"<html><head><{tag} {r_}".encode()))
    out.append(("html", "special:html-many-open-meta", b"<html><head>" + b"<meta charset " * 300))
    out.append(("html", "special:html-many-comments-open", b"<html><body>" + b"<!-- x --" * 2000 + b"<p>t</p>"))
    out.append(("mhtml", "special:mhtml-open-meta", b"MIME-Version: 1.0\nContent-Type: text/html\n\n<html><head><meta " + b"a=b " * 60))
    out.append(("rtf", "special:rtf-open-destinations", b"{\\rtf1 " + b"{\\*\\fldinst " * 400 + b"x"))
    out.append(("rtf", "special:rtf-backslash-run", b"{\\rtf1 " + b"\\" * 3000 + b"x}"))
    out.append(("eml", "special:eml-html-open-meta", b"From: a@x.org\nTo: b@x.org\nSubject: s\nMIME-Version: 1.0\nContent-Type: text/html\n\n"
                b"<html><head><meta " + b"a=b " * 60))
    return out


def damaged_attachment_encodings():
    """E-mails whose CONTAINER is damaged around an attachment: base64 that is not a multiple of four characters, with
    illegal characters, truncated in the middle of a quantum; broken quoted-printable; unknown transfer encodings and
    charsets - for attachments with supported names (so that they are routed and consumed)."""
    out = []
    bodies = {
        "b64-odd-length": ("base64", b"SGVsbG8gd29ybGQ"),          # 15 chars
        "b64-one-char": ("base64", b"S"),
        "b64-illegal-chars": ("base64", b"SGV$$sbG8*gd29ybGQ=\x00\xff"),
        "b64-padding-inside": ("base64", b"SGVs=bG8gd29y=bGQ="),
        "b64-empty": ("base64", b""),
        "qp-broken": ("quoted-printable", b"a=ZZb=\n=4"),
        "unknown-encoding": ("x-rot47", b"abc"),
        "7bit-with-8bit": ("7bit", b"caf\xe9 \xff\xfe"),
        "uuencode": ("x-uuencode", b"begin 644 t.txt\n#86)C\n`\nend\n"),
    }
    for name, (cte, payload) in bodies.items():
        for fn, ctype in (("t.txt", "text/plain; charset=utf-8"), ("d.docx", "application/octet-stream"), ("c.csv", "text/csv; charset=x-nope"),
                          ("p.pdf", "application/pdf")):
            raw = (b"From: a@x.org\nTo: b@x.org\nSubject: damaged " + name.encode() + b"\nDate: Mon, 01 Jan 2024 00:00:00 +0000\n"
                   b"MIME-Version: 1.0\nContent-Type: multipart/mixed; boundary=B\n\n--B\nContent-Type: text/plain\n\nbody\n"
                   b"--B\nContent-Type: " + ctype.encode() + b"\nContent-Transfer-Encoding: " + cte.encode() +
                   b"\nContent-Disposition: attachment; filename=\"" + fn.encode() + b"\"\n\n" + payload + b"\n--B--\n")
            out.append(("eml", f"special:eml-damaged-attachment:{name}:{fn}", raw))
            if fn == "t.txt":
                out.append(("mbox", f"special:mbox-damaged-attachment:{name}", b"From a@x.org Mon Jan  1 00:00:00 2024\n" + raw))
    return out


def nested_formula_documents(slow=False):
    """DOCX files whose only special content is a formula in which elements with two or more operands are nested
    deeply (work that doubles per level shows as a hang under the watchdog; pristine converts them in milliseconds)."""
    out = []
    try:
        from props import c12_amp
    except Exception:  # noqa
        return out
    M = 'xmlns:m="http://schemas.openxmlformats.org/officeDocument/2006/math"'
    W = 'xmlns:w="http://schemas.openxmlformats.org/wordprocessingml/2006/main"'
    t = lambda x: f"<m:r><m:t>{x}</m:t></m:r>"
    shapes = {
        "delimiter-2-args": lambda inner: f"<m:d><m:e>{t('a')}</m:e><m:e>{inner}</m:e></m:d>",
        "delimiter-3-args": lambda inner: f"<m:d><m:e>{inner}</m:e><m:e>{t('b')}</m:e><m:e>{t('c')}</m:e></m:d>",
        "fraction-num": lambda inner: f"<m:f><m:num>{inner}</m:num><m:den>{t('d')}</m:den></m:f>",
        "fraction-den": lambda inner: f"<m:f><m:num>{t('n')}</m:num><m:den>{inner}</m:den></m:f>",
        "nary-sub": lambda inner: f"<m:nary><m:sub>{inner}</m:sub><m:sup>{t('n')}</m:sup><m:e>{t('x')}</m:e></m:nary>",
        "nary-e": lambda inner: f"<m:nary><m:sub>{t('i')}</m:sub><m:sup>{t('n')}</m:sup><m:e>{inner}</m:e></m:nary>",
        "ssubsup": lambda inner: f"<m:sSubSup><m:e>{t('x')}</m:e><m:sub>{inner}</m:sub><m:sup>{t('2')}</m:sup></m:sSubSup>",
        "rad-deg": lambda inner: f"<m:rad><m:deg>{inner}</m:deg><m:e>{t('x')}</m:e></m:rad>",
        "func": lambda inner: f"<m:func><m:fName>{t('sin')}</m:fName><m:e>{inner}</m:e></m:func>",
        "matrix": lambda inner: f"<m:m><m:mr><m:e>{inner}</m:e><m:e>{t('y')}</m:e></m:mr></m:m>",
        "limlow": lambda inner: f"<m:limLow><m:e>{t('lim')}</m:e><m:lim>{inner}</m:lim></m:limLow>",
    }
    depth = 120 if slow else 48
    for name, wrap in shapes.items():
        inner = t("z")
        for _ in range(depth):
            inner = wrap(inner)
        xml = (f'<?xml version="1.0"?><w:document {W} {M}><w:body><w:p><m:oMath>{inner}</m:oMath></w:p></w:body></w:document>').encode()
        try:
            out.append(("docx", f"special:docx-formula-nested-{name}-{depth}", c12_amp._docx_with_document(xml)))
        except Exception:  # noqa
            pass
    return out


def guard_tripping_containers():
    """ZIP-based documents that the ZIP-bomb guard refuses (one member of 4 MiB of zeros: ratio) and encrypted-looking
    containers: the refusal paths through every entry point, the CLI included."""
    import io
    import zipfile
    import c01_fuzz
    out = []
    fx = c01_fuzz.fixtures()
    for ext in ("docx", "xlsx", "pptx", "odt", "ods", "odp", "epub"):
        for name, b in (fx.get(ext) or [])[:1]:
            try:
                zin = zipfile.ZipFile(io.BytesIO(b))
                buf = io.BytesIO()
                with zipfile.ZipFile(buf, "w", zipfile.ZIP_DEFLATED) as z:
                    for n in zin.namelist():
                        z.writestr(n, zin.read(n))
                    z.writestr("zz/padding.bin", bytes(4 * 1024 * 1024))
                out.append((ext, f"special:bomb-guard-ratio:{name}", buf.getvalue()))
                buf = io.BytesIO()
                with zipfile.ZipFile(buf, "w", zipfile.ZIP_DEFLATED) as z:
                    for n in zin.namelist():
                        z.writestr(n, zin.read(n))
                    for k in range(600):
                        z.writestr(f"zz/d{k}/", b"")
                out.append((ext, f"special:many-directory-records:{name}", buf.getvalue()))
            except Exception:  # noqa
                pass
    buf = io.BytesIO()
    with zipfile.ZipFile(buf, "w", zipfile.ZIP_DEFLATED) as z:
        z.writestr("a.txt", bytes(4 * 1024 * 1024))
        z.writestr("b.txt", "hello")
    out.append(("zip", "special:zip-archive-with-4MiB-zero-member", buf.getvalue()))
    return out


HOSTILE_NAMES = ["{3F2504E0-4F89-11D3-9A0C-0305E82C3301}", "report {final}", "x{}", "notes{0}", "budget}", "~$draft{",
                 "%s", "%(name)s", "//[backup]/q3", "//[x", "//srv\u2100/q3", "http://[::1]/a", "scheme://[x]/a",
                 "https://h/p/a?web=1", "\\\\srv\\share\\a", "a\nb", "a\tb", "\uff0e\uff0e/a", "a\uff0fb", "\u202egnp",
                 "a" * 300, "[1]", "a;b", "*", "?", "<x>", "|", "..", "../../up", "/abs/name", "C:\\dir\\f", " ", ""]


def _raw_zip(members):
    """members: (name_bytes, flags, method, payload_bytes, declared_uncompressed_size, crc or None).  Writes the records
    as given: nothing is checked, so names, flags, methods and payloads may contradict each other."""
    import struct
    import zlib
    out, cd = b"", b""
    for name, flags, method, payload, usize, crc in members:
        crc = zlib.crc32(payload) if crc is None else crc
        off = len(out)
        out += struct.pack("<IHHHHHIIIHH", 0x04034B50, 20, flags, method, 0, 0x5821, crc, len(payload), usize, len(name), 0) + name + payload
        cd += struct.pack("<IHHHHHHIIIHHHHHII", 0x02014B50, 20, 20, flags, method, 0, 0x5821, crc, len(payload), usize, len(name), 0, 0, 0, 0, 0, off) + name
    return out + cd + struct.pack("<IHHHHIIH", 0x06054B50, 0, 0, len(members), len(members), len(cd), len(out), 0)


def hostile_zip_shells():
    """Well-formed ZIP shells with one hostile record each, as every ZIP-based format and the archive extractor see
    them (and read_file under names without a known extension): a member name flagged UTF-8 that is not UTF-8, a
    'mimetype' / main part with a corrupt deflate stream, an unknown compression method, the encrypted flag, a CRC that
    does not match, an understated size."""
    import zlib
    odt_mime = b"application/vnd.oasis.opendocument.text"
    deflated = zlib.compress(b"<x/>" * 50)[2:-4]
    shells = {
        "utf8-flag-non-utf8-name": [(b"caf\xe9\xff.txt", 0x800, 0, b"hello", 5, None)],
        "mimetype-corrupt-deflate": [(b"mimetype", 0, 8, b"\xff\xfe\xfd\xfc" * 4, len(odt_mime), None), (b"content.xml", 0, 0, b"<x/>", 4, None)],
        "mimetype-unknown-method": [(b"mimetype", 0, 77, odt_mime, len(odt_mime), None), (b"content.xml", 0, 0, b"<x/>", 4, None)],
        "mimetype-encrypted-flag": [(b"mimetype", 1, 0, bytes(12) + odt_mime, len(odt_mime), None), (b"content.xml", 0, 0, b"<x/>", 4, None)],
        "mimetype-bad-crc": [(b"mimetype", 0, 0, odt_mime, len(odt_mime), 0xDEADBEEF), (b"content.xml", 0, 0, b"<x/>", 4, None)],
        "mimetype-understated-size": [(b"mimetype", 0, 8, zlib.compress(odt_mime * 40)[2:-4], 5, None)],
        "document-xml-corrupt-deflate": [(b"[Content_Types].xml", 0, 0, b"<Types/>", 8, None), (b"word/document.xml", 0, 8, b"\x07" * 9, 200, None)],
        "workbook-unknown-method": [(b"xl/workbook.xml", 0, 99, b"<workbook/>", 11, None)],
        "presentation-encrypted-flag": [(b"ppt/presentation.xml", 0x41, 8, deflated, 200, None)],
        "epub-mimetype-non-utf8-name": [(b"mimetype", 0, 0, b"application/epub+zip", 20, None), (b"OEBPS/\xff\xfe.xhtml", 0x800, 0, b"<html/>", 7, None)],
        "lzma-method-garbage": [(b"mimetype", 0, 14, b"\x09\x14\x05\x00" + bytes(9), len(odt_mime), None)],
        "bzip2-method-garbage": [(b"mimetype", 0, 12, b"BZh9" + bytes(12), len(odt_mime), None)],
    }
    out = []
    for lab, members in shells.items():
        data = _raw_zip(members)
        for kind in ("zip", "odt", "docx", "epub"):
            out.append((kind, f"special:zip-shell-{lab}" + ("" if kind == "zip" else f"-as-{kind}"), data))
    return out


def hostile_name_inputs():
    """E-mails and archives whose attachment / member NAMES are hostile (sender-controlled strings reach the router,
    path joins, format strings and regexes); contents are small and mostly valid."""
    import io
    import tarfile
    import zipfile
    from email.message import EmailMessage
    out = []
    named = []
    for i, st in enumerate(HOSTILE_NAMES):
        ext, payload = [(".txt", b"plain"), (".pdf", b"%PDF-1.4 junk"), (".docx", b"PK\x03\x04junk"), (".csv", b"a,b\n"),
                        (".unknownext", b"x"), ("", b"x"), (".txt\n", b"plain"), (".tar.gz", b"\x1f\x8bjunk")][i % 8]
        named.append((st + ext, payload))
    for chunk in range(0, len(named), 8):
        m = EmailMessage()
        m["From"] = "a@x.org"; m["To"] = "b@x.org"; m["Subject"] = "names"; m["Date"] = "Mon, 01 Jan 2024 00:00:00 +0000"
        m.set_content("body")
        ok = 0
        for fn, data in named[chunk:chunk + 8]:
            try:
                m.add_attachment(data, maintype="application", subtype="octet-stream", filename=fn)
                ok += 1
            except Exception:  # noqa  (name not encodable by the e-mail writer)
                pass
        try:
            out.append(("eml", f"special:eml-hostile-attachment-names-{chunk // 8}", m.as_bytes()))
        except Exception:  # noqa
            pass
    # raw header spellings the writer would not produce
    raw = (b"From: a@x.org\nTo: b@x.org\nSubject: raw\nMIME-Version: 1.0\nContent-Type: multipart/mixed; boundary=B\n\n"
           b"--B\nContent-Type: text/plain\n\nbody\n")
    for fn in [b"//[backup]/q3.pdf", b"x{}.txt", b"=?utf-8?b?Ly9zcnbihIAvcTMucGRm?=", b"a\\\"b.txt", b"%zz.txt", b"\xff\xfe.txt"]:
        raw += (b"--B\nContent-Type: application/octet-stream\nContent-Disposition: attachment; filename=\"" + fn +
                b"\"\n\nplain\n")
    out.append(("eml", "special:eml-hostile-attachment-names-raw", raw + b"--B--\n"))
    buf = io.BytesIO()
    with zipfile.ZipFile(buf, "w") as z:
        for fn, data in named:
            if fn:
                z.writestr(fn, data)
    out.append(("zip", "special:zip-hostile-member-names", buf.getvalue()))
    buf = io.BytesIO()
    with tarfile.open(fileobj=buf, mode="w") as t:
        for fn, data in named:
            if fn and "\x00" not in fn:
                ti = tarfile.TarInfo(fn)
                ti.size = len(data)
                try:
                    t.addfile(ti, io.BytesIO(data))
                except Exception:  # noqa
                    pass
    out.append(("tar", "special:tar-hostile-member-names", buf.getvalue()))
    try:
        import sevenz_min
        out.append(("7z", "special:7z-hostile-member-names",
                    sevenz_min.write_7z([(fn, data) for fn, data in named if fn and "\x00" not in fn][:24])))
    except Exception:  # noqa
        pass
    return out


def encrypted_pdf_variants(slow=False):
    """Encrypted PDFs (empty user password) and the same files with the numbers / names of the /Encrypt
    dictionary replaced (valid shell, hostile security-handler parameters).  Every fuzz case is extracted twice
    in one process, so error paths that leave state behind are reached too."""
    import contextlib
    import io
    import re
    out = []
    try:
        from pypdf import PdfWriter
        from props import c08 as C8
        plain = (common.REPO / "sharepoint2text" / "tests" / "resources" / "pdf" / "sample.pdf").read_bytes()
    except Exception:  # noqa
        return out
    for alg in ["RC4-40", "RC4-128", "AES-128", "AES-256-R5"]:
        try:
            with (C8.independent_aes_for_writing() if alg.startswith("AES") else contextlib.nullcontext()):
                w = PdfWriter(clone_from=io.BytesIO(plain))
                w.encrypt(user_password="", owner_password="o", algorithm=alg)
                bio = io.BytesIO()
                w.write(bio)
        except Exception:  # noqa
            continue
        data = bio.getvalue()
        out.append(("pdf", f"special:pdf-enc-{alg}", data))
        i = data.find(b"/Standard")
        if i < 0:
            continue
        a, b = data.rfind(b"obj", 0, i), data.find(b"endobj", i)
        seg = data[a:b]
        subs = []
        for m in re.finditer(rb"/(Length|V|R) (\d+)", seg):
            w_ = len(m.group(2))
            for v in {"Length": [40, 0, 8, 56, 64, 127, 16, 32], "V": [0, 1, 2, 3, 4, 5, 9], "R": [0, 2, 3, 4, 5, 6, 9]}[m.group(1).decode()]:
                sv = str(v).encode()
                if m.group(1) == b"R" and (v == 6 or alg == "AES-256-R5") and not slow:
                    continue       # R6 key derivation: ~10 s per open in pure Python (thorough tier only)
                if len(sv) <= w_ and sv != m.group(2):
                    subs.append((m.start(2), m.end(2), sv.ljust(w_), f"{m.group(1).decode()}@{m.start()}={v}"))
        for m in re.finditer(rb"/(AESV2|AESV3|V2|Identity)\b", seg):
            for nv in [b"AESV2", b"AESV3", b"V2", b"None", b"X"]:
                if len(nv) <= len(m.group(1)) and nv != m.group(1):
                    subs.append((m.start(1), m.end(1), nv.ljust(len(m.group(1))), f"CFM@{m.start()}={nv.decode()}"))
        for s0, s1, rep, lab in subs:
            seg2 = seg[:s0] + rep + seg[s1:]
            out.append(("pdf", f"special:pdf-enc-{alg}:{lab}", data[:a] + seg2 + data[b:]))
    return out


def _rc4(key: bytes, data: bytes) -> bytes:
    S = list(range(256))
    j = 0
    for i in range(256):
        j = (j + S[i] + key[i % len(key)]) & 255
        S[i], S[j] = S[j], S[i]
    i = j = 0
    out = bytearray()
    for c in data:
        i = (i + 1) & 255
        j = (j + S[i]) & 255
        S[i], S[j] = S[j], S[i]
        out.append(c ^ S[(S[i] + S[j]) & 255])
    return bytes(out)


_PDF_PAD = bytes.fromhex("28BF4E5E4E758A4164004E56FFFA01082E2E00B6D0683E802F0CA9FE6453697A")


def pdf_std_security(V, R, length_bits, cfm, cf_len, write_length=True, payload=None):
    """A one-page PDF with a standard security handler (revisions 2-4) whose /O and /U entries are CONSISTENT with
    the empty user password for the given key length (PDF 32000-1 algorithms 2-5), so that the document opens and
    the per-object keys are really used - for parameter combinations a conforming writer never emits
    (AESV2 with a 40-bit key, V2 with 256 bits, ...).  The content stream holds arbitrary bytes."""
    import hashlib
    n = max(1, (length_bits or 40) // 8) if R >= 3 else 5
    ident = hashlib.md5(b"c01-pdf").digest()
    P = -4
    h = hashlib.md5(_PDF_PAD).digest()
    if R >= 3:
        for _ in range(50):
            h = hashlib.md5(h).digest()
    okey = h[:n]
    O = _rc4(okey, _PDF_PAD)
    if R >= 3:
        for i in range(1, 20):
            O = _rc4(bytes(b ^ i for b in okey), O)
    h = hashlib.md5(_PDF_PAD + O + (P & 0xFFFFFFFF).to_bytes(4, "little") + ident).digest()
    if R >= 3:
        for _ in range(50):
            h = hashlib.md5(h[:n]).digest()
    key = h[:n]
    if R == 2:
        U = _rc4(key, _PDF_PAD)
    else:
        U = _rc4(key, hashlib.md5(_PDF_PAD + ident).digest())
        for i in range(1, 20):
            U = _rc4(bytes(b ^ i for b in key), U)
        U += bytes(16)
    enc = f"<< /Filter /Standard /V {V} /R {R}"
    if write_length:
        enc += f" /Length {length_bits}"
    enc += f" /P {P} /O <{O.hex()}> /U <{U.hex()}>"
    if V >= 4:
        enc += f" /CF << /StdCF << /AuthEvent /DocOpen /CFM /{cfm} /Length {cf_len} >> >> /StmF /StdCF /StrF /StdCF"
    enc += " >>"
    if payload is None:
        # a real content stream, encrypted with the per-object key (algorithm 1 / 1.A) whenever that key is usable
        clear = b"BT /F1 12 Tf 20 100 Td (hello c01) Tj ET"
        aes = V >= 4 and cfm in ("AESV2", "AESV3")
        ok_ = hashlib.md5(key + (4).to_bytes(3, "little") + (0).to_bytes(2, "little") + (b"sAlT" if aes else b"")).digest()[:min(n + 5, 16)]
        if V >= 4 and cfm in ("None", "Identity"):
            payload = clear
        elif aes:
            try:
                from props import c08_writers as W8
                padn = 16 - len(clear) % 16
                iv = bytes(range(16))
                payload = iv + W8.aes_cbc_encrypt(ok_, iv, clear + bytes([padn]) * padn)
            except Exception:  # noqa  (key length the cipher does not accept)
                payload = bytes(range(48))
        else:
            payload = _rc4(ok_, clear)
    objs = [b"<< /Type /Catalog /Pages 2 0 R >>", b"<< /Type /Pages /Kids [3 0 R] /Count 1 >>",
            b"<< /Type /Page /Parent 2 0 R /MediaBox [0 0 200 200] /Contents 4 0 R /Resources << >> >>",
            b"<< /Length %d >>\nstream\n" % len(payload) + payload + b"\nendstream", enc.encode()]
    out = bytearray(b"%PDF-1.6\n%\xe2\xe3\xcf\xd3\n")
    offs = []
    for i, o in enumerate(objs, 1):
        offs.append(len(out))
        out += b"%d 0 obj\n" % i + o + b"\nendobj\n"
    x = len(out)
    out += b"xref\n0 %d\n0000000000 65535 f \n" % (len(objs) + 1)
    for o in offs:
        out += b"%010d 00000 n \n" % o
    out += (b"trailer\n<< /Size %d /Root 1 0 R /Encrypt 5 0 R /ID [<%s><%s>] >>\nstartxref\n%d\n%%%%EOF\n"
            % (len(objs) + 1, ident.hex().encode(), ident.hex().encode(), x))
    return bytes(out)


def pdf_security_parameter_grid():
    out = []
    for V, R in [(1, 2), (2, 3), (4, 4), (4, 3), (2, 4), (3, 3)]:
        for L in ([40] if R == 2 else [40, 56, 64, 96, 128, 136, 256, 8]):
            cfs = [("V2", 16)] if V < 4 else [("AESV2", 16), ("AESV2", 5), ("V2", 16), ("V2", 5), ("AESV3", 32), ("None", 16), ("Identity", 16)]
            for cfm, cl in cfs:
                for wl in ((True, False) if L == 40 else (True,)):
                    try:
                        out.append(("pdf", f"special:pdf-sec-V{V}R{R}-L{L}{'' if wl else '-omitted'}-{cfm}-{cl}",
                                    pdf_std_security(V, R, L, cfm, cl, wl)))
                    except Exception:  # noqa
                        pass
    return out


def crafted_jpeg(rng):
    """JPEG-like marker streams incl. fill bytes, truncated segments, zero/short lengths."""
    import struct
    buf = bytearray(b"\xff\xd8")
    for _ in range(rng.randint(0, 6)):
        r = rng.random()
        if r < 0.55:
            m = rng.choice([0xE0, 0xE1, 0xDB, 0xC4, 0xC0, 0xC2, 0xFF, 0xD9, 0xDA, 0x00, 0x01])
            payload = rng.randbytes(rng.randint(0, 14))
            ln = len(payload) + 2 if rng.random() < 0.75 else rng.choice([0, 1, 2, 3, 65535, rng.randint(0, 40)])
            buf += bytes([0xFF, m]) + struct.pack(">H", ln) + payload
        elif r < 0.8:
            buf += rng.randbytes(rng.randint(1, 6))
        else:
            buf += b"\xff" * rng.randint(1, 5)
    return bytes(buf)


def image_member_cases(rng, n):
    """OOXML/ODF fixtures whose embedded image members are replaced by crafted image bytes."""
    import io
    import zipfile
    import c01_fuzz
    fx = c01_fuzz.fixtures()
    out = []
    pool = [(ext, name, b) for ext in ("docx", "pptx", "xlsx", "odt", "odp", "ods", "epub") for name, b in fx.get(ext, [])]
    withimg = []
    for ext, name, b in pool:
        try:
            z = zipfile.ZipFile(io.BytesIO(b))
            imgs = [x for x in z.namelist() if x.lower().endswith((".png", ".jpg", ".jpeg", ".gif", ".bmp"))]
            if imgs:
                withimg.append((ext, name, b, imgs))
        except Exception:  # noqa
            pass
    for i in range(n):
        if not withimg:
            break
        ext, name, b, imgs = withimg[i % len(withimg)]
        zin = zipfile.ZipFile(io.BytesIO(b))
        buf = io.BytesIO()
        with zipfile.ZipFile(buf, "w", zipfile.ZIP_DEFLATED) as zout:
            for nme in zin.namelist():
                data = zin.read(nme)
                if nme in imgs:
                    r = rng.random()
                    data = crafted_jpeg(rng) if r < 0.6 else (data[: rng.randint(0, 40)] if r < 0.8 else rng.randbytes(30))
                zout.writestr(nme, data)
        out.append((ext, f"image-member:{name}", buf.getvalue()))
    return out


def guarded_calls(fn_path, inputs, timeout=20.0):
    """Call module.function on every input in a forked child with a watchdog.
    Returns (results list with None for not-run, index of the input that hung or None)."""
    import multiprocessing as mp
    ctxm = mp.get_context("fork")
    q = ctxm.Queue()

    def child():
        import importlib
        mod, fn = fn_path.rsplit(".", 1)
        f = getattr(importlib.import_module(mod), fn)
        for i, a in enumerate(inputs):
            q.put(("start", i, None))
            try:
                r = f(*a)
                if hasattr(r, "__next__"):
                    r = list(r)
            except Exception as e:  # noqa
                r = ("EXC", type(e).__name__)
            q.put(("done", i, r))
        q.put(("end", -1, None))

    p = ctxm.Process(target=child, daemon=True)
    p.start()
    results = [None] * len(inputs)
    cur, t_last, hung = -1, time.time(), None
    while True:
        try:
            tag, i, r = q.get(timeout=0.5)
            t_last = time.time()
            if tag == "start":
                cur = i
            elif tag == "done":
                results[i] = ("ok", r)
            else:
                break
        except Exception:  # noqa
            if not p.is_alive() and q.empty():
                break
            if time.time() - t_last > timeout:
                hung = cur
                p.kill()
                break
    p.join(timeout=2)
    return results, hung


def fuzz(ctx):
    import c01_fuzz
    rng = ctx.rng
    base = c01_fuzz.build_cases(rng, ctx.n(60, 400))
    base = base + special_inputs(slow=ctx.tier != "quick") + image_member_cases(rng, ctx.n(40, 400))
    cases = [(k, lab, b, None) for k, lab, b in base]
    cli_src = [c for c in base if c[1].startswith(("fixture:", "special:"))]
    muts = [c for c in base if not c[1].startswith("fixture:")]
    rng.shuffle(muts)
    cli_src += muts[: ctx.n(150, 800)]
    modes = [[], ["--json"], ["--json-unit"], ["--json", "--binary"], ["--json-unit", "--binary"]]
    for j, (k, lab, b) in enumerate(cli_src):
        ms = modes if lab.startswith(("fixture:", "special:")) and len(b) < 150_000 else [modes[j % len(modes)]]
        for m in ms:
            cases.append((k, lab, b, m))
    # the read_file entry point under names the router has to decide by other means than a known extension
    rf_src = [c for c in base if c[1].startswith("special:")] + muts[: ctx.n(250, 1500)]
    rf_names = ["blob", "blob.unknownext", "blob.", ".hidden", "BLOB.DAT", "blob.tar.unknown"]
    for j, (k, lab, b) in enumerate(rf_src):
        cases.append((k, lab, b, ("read_file", rf_names[j % len(rf_names)])))
        if j % 3 == 0:
            cases.append((k, lab, b, ("read_file", f"named.{k}")))
    t0 = time.time()
    res = c01_fuzz.run_cases(cases, nproc=14, case_timeout=ctx.n(20, 40), total_timeout=ctx.n(300, 1800))
    ctx.extra["fuzz_wall_s"] = round(time.time() - t0, 1)
    ctx.extra["fuzz_not_run"] = len(cases) - len(res)
    from sharepoint2text.parsing import router
    slow = []
    for i, (k, lab, b, m) in enumerate(cases):
        if i not in res:
            continue
        oc, det, secs = res[i]
        kind = lab.split(":")[0]
        ctx.case((k, lab, len(b), tuple(m) if m is not None else None, hash(b)), not lab.startswith("fixture:"),
                 kind=("read_file:" if isinstance(m, tuple) else "cli:" if m is not None else "extract:") + oc)
        ctx.count("mutation:" + kind)
        fn = router._EXTRACTOR_REGISTRY[k][1]
        rp = {"registry_key": k, "label": lab, "cli_args": m, "input": b, "outcome": oc, "detail": det,
              "how": "extractor(io.BytesIO(input), 'fuzz.<key>') or cli.main([file] + cli_args)"}
        if oc == "foreign":
            ctx.finding(f"foreign:{fn}:{det.split(':')[0]}", f"{fn} let {det} escape on {lab} ({len(b)} bytes)", rp)
        elif oc == "pollute":
            ctx.finding(f"stdout-pollution:{fn}", f"{fn} on {lab} ({len(b)} bytes): {det} - the CLI can then not print "
                        "'the result' / 'nothing' on stdout", rp)
        elif oc == "timeout":
            slow.append((i, k, lab, b, m))
        elif oc == "cli-bad":
            what = "partial-stdout" if "stdout_len=0" not in det and "rc=1" in det else (
                "stderr-lines" if "rc=1" in det else "other")
            ctx.finding(f"cli:{what}:{k}:{' '.join(map(str, m))}:{kind}", f"CLI contract broken for {lab} {m}: {det}", rp)
        if secs > 10:
            ctx.count("slow>10s")
    ctx.extra["fuzz_timeouts_first_pass"] = [f"{k}:{lab}:{m}" for _, k, lab, _, m in slow][:20]
    # inputs known (from C12's amplifier families) to keep third-party loops busy for minutes: run apart from the main
    # stream so that their time-outs do not use up its budget
    try:
        from props import c12_amp
        apart = [c12_amp.ole_property_vector(kk) for kk in (("doc",) if ctx.tier == "quick" else ("doc", "ppt", "xls"))]
        apart = [(a[1].split(".")[-1], "special:" + a[0], a[2], None) for a in apart if a]
        lim = ctx.n(40, 120)
        r3 = c01_fuzz.run_cases(apart, nproc=3, case_timeout=lim, total_timeout=lim + 20)
        for j, (k, lab, b, m) in enumerate(apart):
            oc, det, secs = r3.get(j, ("timeout", "", lim))
            ctx.case((k, lab, len(b), None, hash(b)), True, kind="extract:" + oc)
            if oc == "timeout":
                ctx.finding(f"hang:{k}:{lab}", f"{k} extractor did not finish within {lim} s on {lab} ({len(b)} bytes; 8 bytes of a "
                            "fixture's SummaryInformation stream changed)", {"registry_key": k, "label": lab, "input": b})
            elif oc == "foreign":
                ctx.finding(f"foreign:{k}:{det.split(':')[0]}", f"{k} let {det} escape on {lab}", {"registry_key": k, "label": lab, "input": b})
    except Exception as e:  # noqa
        ctx.count("apart-inputs-unavailable:" + type(e).__name__)
    for i, k, lab, b, m in slow[:2]:
        r2 = c01_fuzz.run_cases([(k, lab, b, m)], nproc=1, case_timeout=60, total_timeout=70)
        oc, det, secs = r2.get(0, ("timeout", "", 60))
        if oc == "timeout":
            ctx.finding(f"hang:{k}:{lab}", f"{k} extractor did not finish within 60 s on {lab} ({len(b)} bytes)",
                        {"registry_key": k, "label": lab, "cli_args": m, "input": b})
        else:
            ctx.count("slow-but-finished")


def loop_correspondence(ctx):
    """Model loops (vm_compute) vs the real functions on generated byte strings; the real functions run in a
    forked child under a watchdog so that a non-terminating implementation is reported with its input."""
    import struct
    rng = ctx.rng
    zl = lambda b: "[" + ";".join(str(x) for x in b) + "]%Z"
    pre = "From Coq Require Import List ZArith.\nFrom S2T Require Import C01.Loops C01.Corr.\nImport ListNotations.\n"

    def hang(fn, data, extra=None):
        ctx.finding(f"hang:{fn}", f"{fn} does not terminate (no result within 20 s) on a {len(data)}-byte input {data[:24].hex()}…",
                    {"function": fn, "input": data, "args": extra})

    # ---- ppt_extractor._iter_records
    inputs = []
    for _ in range(ctx.n(300, 3000)):
        buf = bytearray()
        for _ in range(rng.randint(0, 6)):
            r = rng.random()
            if r < 0.6:
                payload = rng.randbytes(rng.randint(0, 12))
                ver = rng.choice([0x0F, 0x00, 0x01, 0x1F, 0xFFF0 | rng.choice([0, 15])])
                ln = len(payload) if rng.random() < 0.8 else rng.choice([0, 1, 2 ** 32 - 1, len(payload) + rng.randint(1, 40)])
                buf += struct.pack("<HHI", ver, rng.choice([1000, 4000, 4008, 0, 65535]), ln) + payload
            elif r < 0.8:
                buf += rng.randbytes(rng.randint(1, 9))
            else:
                buf += b"\xff" * rng.randint(1, 8)
        data = bytes(buf)
        inputs.append((data, rng.choice([0, 0, 0, 1, 8, len(data)])))
    fn = "sharepoint2text.parsing.extractors.ms_legacy.ppt_extractor._iter_records"
    res, hung = guarded_calls(fn, inputs)
    if hung is not None:
        hang(fn, inputs[hung][0], inputs[hung][1])
    cases, info = [], []
    for (data, start), r in zip(inputs, res):
        if r is None or (isinstance(r[1], tuple) and r[1] and r[1][0] == "EXC"):
            continue
        got = [(x.rec_type, x.rec_instance, x.is_container, x.offset, x.end_offset) for x in r[1]]
        ctx.case(("iter_records", data, start), len(got) > 0, kind="loop:iter_records")
        cases.append(f"({zl(data)}, {start}%Z, [" + ";".join(
            f"({a}, {b}, {'true' if c else 'false'}, {d}, {e})" for a, b, c, d, e in got) + "]%Z)")
        info.append((data.hex(), start))
    ok, failing, log = common.coq_eval_shards(ctx, "iter", pre, "iter_case", cases, shard=400, ty="list Z * Z * list rec")
    ctx.obligation("correspondence:iter_records==ppt_extractor._iter_records", ok and not failing and hung is None and len(cases) > 50,
                   (f"{len(failing)} disagreements, first: {info[failing[0]] if failing else ''} hung={hung} " + log)[:800])

    # ---- JPEG walks
    jpegs = [crafted_jpeg(rng) for _ in range(ctx.n(400, 4000))]
    fn = "sharepoint2text.parsing.extractors.util.image_utils.get_jpeg_dimensions"
    res, hung = guarded_calls(fn, [(d,) for d in jpegs])
    if hung is not None:
        hang(fn, jpegs[hung])
    cases, info = [], []
    for data, r in zip(jpegs, res):
        if r is None or (r[1] and r[1][0] == "EXC"):
            continue
        w, h = r[1]
        ctx.case(("jpeg", data), w is not None, kind="loop:jpeg_dims")
        cases.append(f"({zl(data)}, " + ("None" if w is None else f"Some ({w}, {h})%Z") + ")")
        info.append(data.hex())
    ok, failing, log = common.coq_eval_shards(ctx, "jpeg", pre, "jpeg_case", cases, shard=400, ty="list Z * option (Z * Z)")
    ctx.obligation("correspondence:jpeg_dims==image_utils.get_jpeg_dimensions", ok and not failing and hung is None and len(cases) > 50,
                   (f"{len(failing)} disagreements, first: {info[failing[0]] if failing else ''} hung={hung} " + log)[:800])
    for modname in ("docx_extractor", "pptx_extractor", "xlsx_extractor"):
        fn = f"sharepoint2text.parsing.extractors.ms_modern.{modname}._get_image_pixel_dimensions"
        res, hung = guarded_calls(fn, [(d,) for d in jpegs])
        if hung is not None:
            hang(fn, jpegs[hung])
        cases, info = [], []
        for data, r in zip(jpegs, res):
            if r is None or (r[1] and r[1][0] == "EXC"):
                continue
            w, h = r[1]
            ctx.case((modname, data), w is not None, kind="loop:ooxml_jpeg_dims")
            cases.append(f"({zl(data)}, ({w or 0}, {h or 0})%Z)")
            info.append(data.hex())
        ok, failing, log = common.coq_eval_shards(ctx, "oj_" + modname, pre, "ooxml_jpeg_case", cases, shard=400,
                                                  ty="list Z * (Z * Z)")
        ctx.obligation(f"correspondence:ooxml_jpeg_dims=={modname}._get_image_pixel_dimensions(JPEG)",
                       ok and not failing and hung is None and len(cases) > 50,
                       (f"{len(failing)} disagreements, first: {info[failing[0]] if failing else ''} hung={hung} " + log)[:800])


def xls_walk_correspondence(ctx):
    """The BLIP record walk of xls_extractor._extract_images_from_workbook vs C01/LoopsXls.v (watchdogged)."""
    import struct
    rng = ctx.rng
    from sharepoint2text.parsing.extractors.util import image_utils
    live = sorted(image_utils.BLIP_TYPES)
    ctx.obligation("xls-walk:BLIP_TYPES are the modelled ones", live == [61466, 61467, 61468, 61469, 61470, 61471, 61481], str(live))
    inputs = []
    for _ in range(ctx.n(100, 800)):
        buf = bytearray()
        for _ in range(rng.randint(0, 7)):
            r = rng.random()
            if r < 0.65:
                payload = rng.choice([b"\x89PNG\r\n\x1a\n", b"\xff\xd8\xff\xe0", b"BM", b""]) + rng.randbytes(rng.choice([0, 5, 16, 17, 18, 32, 33, 34, 60]))
                inst = rng.choice([0x6E0, 0x6E1, 0x46A, 0x46B, 0x7A8, 0])
                ln = len(payload) if rng.random() < 0.8 else rng.choice([0, 1, 17, 18, 33, 34, 2 ** 32 - 1, len(payload) + rng.randint(1, 40)])
                buf += struct.pack("<HHI", (inst << 4) | rng.choice([0, 15]), rng.choice(live + [0xF01E, 0xF01D, 0xF007, 0, 65535]), ln) + payload
            elif r < 0.85:
                buf += rng.randbytes(rng.randint(1, 9))
            else:
                buf += b"\xff" * rng.randint(1, 8)
        inputs.append((bytes(buf),))
    res, hung = guarded_calls("c01_xlswalk.walk", inputs, timeout=30.0)
    if hung is not None:
        ctx.finding("hang:_extract_images_from_workbook", f"_extract_images_from_workbook does not terminate on a Workbook stream starting "
                    f"{inputs[hung][0][:24].hex()}…", {"function": "_extract_images_from_workbook", "input": inputs[hung][0]})
    zl = lambda b: "[" + ";".join(str(x) for x in b) + "]%Z"
    cases, info = [], []
    for (data,), r in zip(inputs, res):
        if r is None or (isinstance(r[1], tuple) and r[1] and r[1][0] == "EXC"):
            continue
        stream, seen = r[1]
        # the zero padding added by the OLE writer is part of what the extractor reads; cut the all-zero tail to keep
        # the Coq terms small (zeros parse as rec_len = 0: one step each, no record)
        # (a header inside `data` may declare a length that reaches into the padding: keep everything such a record spans)
        cut = max(len(data) + 16, 32)
        for o in range(0, max(0, len(data) - 7)):
            end = o + 8 + int.from_bytes(stream[o + 4:o + 8], "little")
            if cut < end <= len(stream):
                cut = end + 16
        stream = stream[:cut]
        ctx.case(("xls_blips", data), len(seen) > 0, kind="loop:xls_blips")
        cases.append(f"({zl(stream)}, [" + ";".join(zl(s_) for s_ in seen) + "])")
        info.append(data.hex())
    pre = "From Coq Require Import List ZArith.\nFrom S2T Require Import C01.Loops C01.LoopsXls C01.Corr.\nImport ListNotations.\n"
    ok, failing, log = common.coq_eval_shards(ctx, "xlsblip", pre, "xls_blip_case", cases, shard=200, ty="list Z * list (list Z)")
    ctx.obligation("correspondence:xls_blips==xls_extractor._extract_images_from_workbook (slices handed to the sniffer)",
                   ok and not failing and hung is None and len(cases) > 50,
                   (f"{len(failing)} disagreements, first: {info[failing[0]] if failing else ''} hung={hung} " + log)[:800])


def replay(ctx, rp):
    """./check C01 --replay F : run the stored input through the extractor (or the CLI) under the watchdog."""
    import c01_fuzz
    data = common.replay_bytes(rp.get("input"))
    if data is None:
        print("replay file holds no complete input")
        return
    k, lab, m = rp["registry_key"], rp.get("label", "replay"), rp.get("cli_args")
    res = c01_fuzz.run_cases([(k, lab, data, m)], nproc=1, case_timeout=60, total_timeout=80)
    oc, det, secs = res.get(0, ("timeout", ">60s", 60))
    print(f"replay {k} {lab} {m}: outcome={oc} detail={det} secs={secs:.1f}")
    ctx.case((k, lab, len(data)), True, kind="replay:" + oc)
    if oc in ("timeout", "foreign", "pollute", "cli-bad"):
        ctx.finding(rp.get("key", f"replay:{oc}"), f"replayed: {rp.get('what', oc)} -> {oc} {det}", dict(rp, input=data))


def run(ctx):
    import logging
    logging.disable(logging.CRITICAL)
    ctx.rule = ("obligations: one skeleton per extractor; fuzz cases: fixture bytes mutated (truncate, flip, splice, "
                "zip-member rewrite, cross-routing) per extractor; non-trivial = input is not the unmodified fixture")
    ctx.trusted += [
        "X-translator tools/skeleton.py (ast -> Exn.stmt) incl. its allow-list of non-raising forms: constants, names, "
        "attribute reads on names, f-strings, logger.<level>(...), time.perf_counter(), len/str/bool(name), "
        "ExtractionError-family constructors, input-independent _build_parser()",
        "class kinds computed from the live classes with issubclass (ExtractionError family / Exception / BaseException-only)",
        "semantic assumption of SAny: called code raises only Exception subclasses (no KeyboardInterrupt/SystemExit), or returns",
        "termination of third-party code and of loops only classified (not modelled) in LOOPS: argued in text, fuzzed with a time budget",
    ]
    ctx.assumptions += ["exceptions raised by code the skeleton marks SAny are Exception subclasses",
                        "a missing/unreadable file (OSError before read_file's try) is outside 'any byte content'"]
    gen_skeletons(ctx)
    cli_paths(ctx)
    loop_inventory(ctx)
    attachment_path_inventory(ctx)
    fuzz(ctx)
    ctx.prove("C01/Props.v", ["C01/ExnProofs.vo", "C01/LoopsProofs.vo", "C01/LoopsXls.vo", "C01/Corr.vo"], expected=[
        "C01_esc_sound", "C01_contained_sound", "C01_iter_records_terminates", "C01_jpeg_dims_terminates",
        "C01_ooxml_jpeg_dims_terminates", "C01_xls_blips_terminates", "C01_xls_blips_in_bounds"])
    loop_correspondence(ctx)
    xls_walk_correspondence(ctx)
    ctx.prove("C01/Inst.v", ["Gen/C01Skeletons.vo", "C01/ExnProofs.vo"], expected=[
        "C01_all_contained", "C01_no_foreign_exception_escapes", "C01_silent_wrappers", "C01_silent_sound",
        "C01_skeleton_count"])
    ctx.prove("C01/InstCli.v", ["Gen/C01CliPaths.vo", "C01/Cli.vo"], expected=[
        "C01_cli_paths_disciplined", "C01_cli_all_or_nothing", "C01_cli_streaming_refuted"])


META = {
    "technique": "Coq proof of a sound exception-flow abstract interpretation over skeletons regenerated from the "
                 "source by a fail-closed ast translator; loop inventory; fuzzing as failing-input search",
    "design_ref": "DESIGN.md §5 C01",
    "level_text": "Kernel-checked: soundness of the escape analysis `esc` w.r.t. a relational semantics of try/except/"
                  "finally/yield skeletons, and, for the skeleton of every registered extractor (regenerated from "
                  "today's source), that no exception outside the ExtractionError family can escape whatever the "
                  "opaque parts do. Partial: termination of third-party code and hangs are only fuzzed under a time budget.",
    "level_note": "Trusted: Coq kernel+VM, tools/skeleton.py and its allow-list of non-raising forms, issubclass on the "
                  "live classes; the fuzz stream is testing, not proof.",
}
