"""C16 — message generator: specs (the ground truth) -> RFC 5322/MIME bytes via the stdlib email package.

A *spec* is a plain dict: subject, from (name, addr), to/cc [(name, addr)], date (aware datetime), msgid,
plain, html (or None), layout, attachments [(filename, content_type, bytes)], style options.  The bytes are
produced by email.message.EmailMessage + email.policy (modern API) or by the legacy MIME* classes with
email.header.Header / email.charset.Charset (charset and Q/B choice), optionally re-folded by hand.
"""
from __future__ import annotations

import datetime
import email.charset
import email.header
import email.policy
import email.utils
import io
import re
import zipfile
from email.message import EmailMessage
from email.mime.application import MIMEApplication
from email.mime.base import MIMEBase
from email.mime.multipart import MIMEMultipart
from email.mime.text import MIMEText

WORDS = ["report", "Q3", "meeting", "invoice", "Re:", "Fwd:", "budget", "plan", "update", "notes", "from", "From",
         "2024", "draft", "final", "v2", "team", "weekly", "status", "review"]
UWORDS = {
    "latin": ["Grüße", "Köln", "café", "résumé", "Ångström", "niño", "straße"],
    "cyr": ["Привет", "отчёт", "встреча"],
    "jp": ["こんにちは", "会議", "資料"],
    "zh": ["你好", "会议", "报告"],
    "emoji": ["\U0001f600", "—", "€"],
    "thai": ["สวัสดี", "ประชุม", "รายงาน"],
    "greek": ["Καλημέρα", "αναφορά", "σύσκεψη"],
}
# (charset, families whose characters it can encode)
CHARSETS = [("utf-8", ["latin", "cyr", "jp", "zh", "emoji"]), ("iso-8859-1", ["latin"]), ("iso-8859-15", ["latin"]),
            ("windows-1252", ["latin"]), ("koi8-r", ["cyr"]), ("windows-1251", ["cyr"]), ("shift_jis", ["jp"]),
            ("iso-2022-jp", ["jp"]), ("euc-jp", ["jp"]), ("gb2312", ["zh"]), ("big5", ["zh"]), ("utf-8", ["latin"]),
            ("iso-8859-9", ["latin"]), ("iso-8859-2", ["latin"]), ("tis-620", ["thai"]), ("iso-8859-7", ["greek"]), ("gbk", ["zh"]),
            ("cp932", ["jp"]), ("windows-1254", ["latin"])]

_REPERTOIRE: dict = {}
_SENSITIVE: dict = {}


def sensitive(cs: str) -> list[str]:
    """The characters of the charset on which some OTHER Python codec that decodes the charset's whole repertoire (a
    look-alike / 'superset' code page) gives a different character.  Computed from the codec registry, not listed by hand:
    these are the code points where decoding with a near-identical codec goes wrong unnoticed."""
    if cs in _SENSITIVE:
        return _SENSITIVE[cs]
    import codecs
    import encodings.aliases
    rep = repertoire(cs)
    out = set()
    if rep:
        try:
            own = codecs.lookup(cs).name
        except LookupError:
            own = cs
        seqs = [c.encode(cs) for c in rep]
        blob = b"".join(seqs)
        for k in sorted(set(encodings.aliases.aliases.values())):
            try:
                if codecs.lookup(k).name == own:
                    continue
                other = blob.decode(k)
            except Exception:  # noqa  (not a text codec, or it does not cover the repertoire)
                continue
            if len(other) != len(rep):
                continue
            diff = [a for a, b in zip(rep, other) if a != b]
            if 0 < len(diff) <= len(rep) // 10:
                out.update(diff)
    _SENSITIVE[cs] = sorted(out)
    return _SENSITIVE[cs]


def repertoire(cs: str) -> list[str]:
    """Every non-ASCII character the codec can represent (1- and 2-byte sequences that round-trip), without characters
    Python treats as white space or line boundary.  Words are drawn from the WHOLE repertoire, so the few code points on
    which look-alike code pages differ (wave dash, C1 range, box drawing, ...) are sampled like any other."""
    if cs in _REPERTOIRE:
        return _REPERTOIRE[cs]
    out = []
    try:
        seqs = [bytes([b]) for b in range(0x80, 0x100)]
        if cs.lower().replace("-", "_") in ("shift_jis", "cp932", "euc_jp", "gb2312", "gbk", "big5"):
            seqs += [bytes([a, b]) for a in range(0x81, 0xFF) for b in range(0x40, 0xFF)]
        for sq in seqs:
            try:
                ch = sq.decode(cs)
            except UnicodeDecodeError:
                continue
            if len(ch) == 1 and ord(ch) >= 0x80 and ch.encode(cs) == sq and not ch.isspace() and ch not in "\x85\u2028\u2029" \
                    and not (0xE000 <= ord(ch) <= 0xF8FF):
                out.append(ch)
    except LookupError:
        pass
    _REPERTOIRE[cs] = out
    return out

NAMES = ["John Doe", "Doe, John", "Smith, Jane (Sales)", "O'Brien", "Dr. A. \"Ace\" Jones", "Bob", "a.b", "Jürgen Müller",
         "Müller, Jürgen", "Иван Петров", "山田 太郎", "Team <core>", "x@y (not an address)", "semi;colon", "",
         # quotation marks, apostrophes and other punctuation at the very start / end of the display name
         "'t Hooft, Gerard", "Dwayne \"The Rock\"", "Chris O'", "\"Quoted\"", "'single'", "(paren) name", "name (paren)", "Back\\slash\\",
         "dot.", ".dot", "\"", "O'Neil 'Jr'",
         # not in Unicode NFC: decomposed accents, ANGSTROM SIGN, CJK compatibility ideograph
         "Ame\u0301lie Poulain", "\u212bke \u212bngstro\u0308m", "\ufa1e\u7530 \u592a\u90ce"]
LOCALS = ["john", "jane.smith", "bob+tag", "o.brien", "info", "no-reply", "a", "first.last"]
DOMAINS = ["example.com", "mail.example.org", "x.test", "sub.domain.example.net"]
ZONES = [0, 60, 120, -300, 330, 345, -210, 540, 765, -720]


def pick(rng, l):
    return l[rng.randrange(len(l))]


def rand_text(rng, fam, n):
    ws = []
    for _ in range(n):
        ws.append(pick(rng, UWORDS[fam]) if fam and rng.random() < 0.5 else pick(rng, WORDS))
    return " ".join(ws)


def rand_addr(rng, fam=None):
    name = pick(rng, NAMES)
    if fam and rng.random() < 0.4:
        name = rand_text(rng, fam, 2)
    return (name, f"{pick(rng, LOCALS)}{rng.randrange(100)}@{pick(rng, DOMAINS)}")


def tiny_docx(text: str) -> bytes:
    """A minimal but valid .docx (three members)."""
    bio = io.BytesIO()
    with zipfile.ZipFile(bio, "w", zipfile.ZIP_DEFLATED) as z:
        z.writestr("[Content_Types].xml",
                   '<?xml version="1.0" encoding="UTF-8"?><Types xmlns="http://schemas.openxmlformats.org/package/2006/content-types">'
                   '<Default Extension="rels" ContentType="application/vnd.openxmlformats-package.relationships+xml"/>'
                   '<Default Extension="xml" ContentType="application/xml"/>'
                   '<Override PartName="/word/document.xml" ContentType="application/vnd.openxmlformats-officedocument.wordprocessingml.document.main+xml"/></Types>')
        z.writestr("_rels/.rels",
                   '<?xml version="1.0" encoding="UTF-8"?><Relationships xmlns="http://schemas.openxmlformats.org/package/2006/relationships">'
                   '<Relationship Id="rId1" Type="http://schemas.openxmlformats.org/officeDocument/2006/relationships/officeDocument" Target="word/document.xml"/></Relationships>')
        z.writestr("word/document.xml",
                   '<?xml version="1.0" encoding="UTF-8"?><w:document xmlns:w="http://schemas.openxmlformats.org/wordprocessingml/2006/main"><w:body>'
                   + "".join(f"<w:p><w:r><w:t>{p}</w:t></w:r></w:p>" for p in text.split("\n")) + "</w:body></w:document>")
    return bio.getvalue()


DOCX_MT = "application/vnd.openxmlformats-officedocument.wordprocessingml.document"


def rand_attachment(rng, fam, fixture_docx: bytes | None):
    kind = pick(rng, ["txt", "txt", "csv", "html", "docx", "json", "md", "bin"])
    stem = pick(rng, ["report", "data 2024", "notes", "Anhang", "résumé", "отчёт", "資料", "a.b", "attachment"])
    body = rand_text(rng, fam, rng.randrange(1, 12))
    if kind == "txt":
        data, mt = (body + "\nline two\n").encode("utf-8"), "text/plain"
    elif kind == "csv":
        data, mt = ("a,b,c\n1,2,3\n" + body.replace(" ", ",") + "\n").encode("utf-8"), "text/csv"
    elif kind == "html":
        data, mt = f"<html><body><h1>T</h1><p>{body}</p></body></html>".encode("utf-8"), "text/html"
    elif kind == "docx":
        data = fixture_docx if (fixture_docx and rng.random() < 0.15) else tiny_docx(body + "\nsecond paragraph")
        mt = DOCX_MT
    elif kind == "json":
        data, mt = ('{"k": "%s"}' % body.replace('"', "")).encode("utf-8"), "application/json"
    elif kind == "md":
        data, mt = ("# H\n\n" + body + "\n").encode("utf-8"), "text/markdown"
    else:
        data, mt = bytes(rng.randrange(256) for _ in range(rng.randrange(1, 64))), "application/x-custom-binary"
    r = rng.random()
    if r < 0.18 and kind != "bin":
        mt = "application/octet-stream"       # the usual "unknown" label of mail clients
    name = f"{stem}.{kind}"
    if rng.random() < 0.1:
        name = name.upper()
    return (name, mt, data)


def gen_spec(rng, fixture_docx=None, max_att=3):
    cs, fams = pick(rng, CHARSETS)
    fam = pick(rng, fams) if rng.random() < 0.75 else None
    if fam is None:
        cs = pick(rng, ["utf-8", "us-ascii", "iso-8859-1"])
    n_subj = pick(rng, [1, 2, 3, 5, 8, 14, 25])
    subject = rand_text(rng, fam, n_subj)
    tz = datetime.timezone(datetime.timedelta(minutes=pick(rng, ZONES)))
    date = datetime.datetime(rng.randrange(1999, 2031), rng.randrange(1, 13), rng.randrange(1, 29),
                             rng.randrange(24), rng.randrange(60), rng.randrange(60), tzinfo=tz)
    plain = "\n".join(rand_text(rng, fam, rng.randrange(1, 9)) for _ in range(rng.randrange(1, 5)))
    rep = repertoire(cs) if fam is not None and cs not in ("utf-8", "us-ascii", "iso-2022-jp") else []
    if rep and rng.random() < 0.7:
        # characters from anywhere in the declared charset's repertoire (printable ones also in subject and names)
        sens = sensitive(cs)
        rw = lambda k: "".join(pick(rng, sens) if sens and rng.random() < 0.5 else pick(rng, rep) for _ in range(k))
        plain += "\n" + " ".join(rw(rng.randrange(1, 6)) for _ in range(rng.randrange(1, 5)))
        printable = [c for c in rep if c.isprintable()]
        if printable and rng.random() < 0.6:
            sp_ = [c for c in sens if c.isprintable()]
            subject += " " + "".join(pick(rng, sp_) if sp_ and rng.random() < 0.5 else pick(rng, printable) for _ in range(rng.randrange(1, 5)))
    if rng.random() < 0.25:
        # body lines resembling separators (mboxo/mboxrd escaping is applied when written to an mbox)
        plain += "\n" + pick(rng, ["From here on it is 2024", "From me to you", ">From quoted 1999", "From bob@x.test Mon Jan  1 00:00:00 2024",
                                   "From  two spaces 2024", "From", "from lower 2024", " From indented 2024"]) + "\nlast line"
    html = None
    if rng.random() < 0.6:
        html = "<html><body><p>" + plain.replace("\n", "</p><p>") + "</p></body></html>"
    layout = pick(rng, ["plain", "html", "alt", "alt", "related"]) if html else "plain"
    atts = [rand_attachment(rng, fam, fixture_docx) for _ in range(rng.randrange(0, max_att + 1))] if rng.random() < 0.6 else []
    if len(atts) >= 2 and rng.random() < 0.5:
        # mail clients label everything alike: one declared type for attachments of different file types
        shared = pick(rng, ["application/octet-stream", "text/plain", atts[0][1]])
        atts = [(f"{i}-{fn}", shared, data) for i, (fn, _, data) in enumerate(atts)]
    to_l = [rand_addr(rng, fam) for _ in range(rng.randrange(1, 4))]
    cc_l = [rand_addr(rng, fam) for _ in range(rng.randrange(0, 3))]
    for lst in (to_l, cc_l):
        if lst and rng.random() < 0.2:
            # the same mailbox listed again under another display name, or an address differing only in the case of its
            # local part (RFC 5321: case-sensitive): every entry is a recipient of its own
            n0, a0 = pick(rng, lst)
            other = pick(rng, ["Support Desk", "Billing", "Office of J. Mueller", "", n0 + " (work)"])
            lst.insert(rng.randrange(len(lst) + 1), (other, a0) if rng.random() < 0.6 else (other, a0[:1].upper() + a0[1:]))
    return {
        "subject": subject, "from": rand_addr(rng, fam), "to": to_l,
        "cc": cc_l, "date": date,
        "msgid": f"<{rng.randrange(10**9)}.{rng.randrange(10**6)}@{pick(rng, DOMAINS)}>",
        "plain": plain, "html": html, "layout": layout, "attachments": atts, "charset": cs, "family": fam,
        "cte": pick(rng, ["base64", "quoted-printable", "8bit", None]),
        # only the legacy API writes the declared (non-UTF-8) charset on the wire
        "api": pick(rng, ["modern", "modern", "legacy"] if cs in ("utf-8", "us-ascii") else ["legacy", "legacy", "modern"]),
        "hdr_enc": pick(rng, ["B", "Q", None]),
        "refold": pick(rng, [None, None, "tab", "tight"]),
        "att_name_style": pick(rng, ["rfc2231", "rfc2047", "raw"]),
        "date_style": pick(rng, [None, None, None, "nozone", "nozone", "named", "noweekday", "comment", "year2", "noseconds"]),
    }


# ------------------------------------------------------------------------------------------ builders
def _charset_obj(cs, hdr_enc):
    c = email.charset.Charset(cs)
    if hdr_enc == "B":
        c.header_encoding = email.charset.BASE64
    elif hdr_enc == "Q":
        c.header_encoding = email.charset.QP
    return c


def _encodable(text, cs):
    try:
        text.encode(cs)
        return True
    except (UnicodeEncodeError, LookupError):
        return False


def _hdr(text, cs, hdr_enc, name):
    """RFC 2047 encoding of an unstructured header value with the legacy Header class."""
    if text.isascii():
        return email.header.Header(text, header_name=name, maxlinelen=76).encode()
    if not _encodable(text, cs):
        cs = "utf-8"
    return email.header.Header(text, _charset_obj(cs, hdr_enc), header_name=name, maxlinelen=76).encode()


def _addr(pair, cs, hdr_enc):
    name, addr = pair
    if name.isascii():
        return email.utils.formataddr((name, addr))
    if not _encodable(name, cs):
        cs = "utf-8"
    return email.utils.formataddr((name, addr), charset=_charset_obj(cs, hdr_enc))


def build_legacy(spec) -> bytes:
    cs, he = spec["charset"], spec["hdr_enc"]
    body_cs = cs if _encodable(spec["plain"] + (spec["html"] or ""), cs) else "utf-8"

    def text_part(t, sub):
        if spec["cte"] == "8bit" and body_cs not in ("iso-2022-jp",):
            p = MIMEBase("text", sub, charset=body_cs)
            p.set_payload(t.encode(body_cs).decode("ascii", "surrogateescape"))     # raw 8-bit bytes
            p["Content-Transfer-Encoding"] = "8bit"
            return p
        c = email.charset.Charset(body_cs)
        if spec["cte"] == "base64":
            c.body_encoding = email.charset.BASE64
        elif spec["cte"] == "quoted-printable":
            c.body_encoding = email.charset.QP
        p = MIMEText(t, sub, c) if c.body_encoding is not None or not t.isascii() else MIMEText(t, sub, body_cs)
        return p

    lay = spec["layout"]
    if lay == "plain":
        body = text_part(spec["plain"], "plain")
    elif lay == "html":
        body = text_part(spec["html"], "html")
    else:
        body = MIMEMultipart("alternative")
        body.attach(text_part(spec["plain"], "plain"))
        h = text_part(spec["html"], "html")
        if lay == "related":
            rel = MIMEMultipart("related")
            rel.attach(h)
            img = MIMEApplication(b"GIF89a\x01\x00\x01\x00\x00\x00\x00;", "octet-stream")
            img.replace_header("Content-Type", "image/gif")
            img["Content-ID"] = "<img1@x>"
            img["Content-Disposition"] = "inline"
            rel.attach(img)
            body.attach(rel)
        else:
            body.attach(h)
    if spec["attachments"]:
        root = MIMEMultipart("mixed")
        root.attach(body)
        for fn, mt, data in spec["attachments"]:
            mat, sub = mt.split("/", 1)
            a = MIMEApplication(data, sub)        # base64
            a.replace_header("Content-Type", mt)
            style = spec["att_name_style"]
            if fn.isascii() or style == "rfc2231":
                a.add_header("Content-Disposition", "attachment", filename=fn if fn.isascii() else ("utf-8", "", fn))
            elif style == "rfc2047":
                a["Content-Disposition"] = 'attachment; filename="%s"' % email.header.Header(fn, "utf-8").encode()
            else:
                a.add_header("Content-Disposition", "attachment", filename=("utf-8", "", fn))
            root.attach(a)
    else:
        root = body
    root["Subject"] = _hdr(spec["subject"], cs, he, "Subject")
    root["From"] = _addr(spec["from"], cs, he)
    root["To"] = ", ".join(_addr(a, cs, he) for a in spec["to"])
    if spec["cc"]:
        root["Cc"] = ", ".join(_addr(a, cs, he) for a in spec["cc"])
    root["Date"] = email.utils.format_datetime(spec["date"])
    root["Message-ID"] = spec["msgid"]
    return root.as_bytes()


def build_modern(spec) -> bytes:
    m = EmailMessage(policy=email.policy.default.clone(max_line_length=78))
    m["Subject"] = spec["subject"]
    m["From"] = email.utils.formataddr(spec["from"]) if spec["from"][0].isascii() else _modern_addr(spec["from"])
    m["To"] = ", ".join(_modern_addr(a) for a in spec["to"])
    if spec["cc"]:
        m["Cc"] = ", ".join(_modern_addr(a) for a in spec["cc"])
    m["Date"] = spec["date"]
    m["Message-ID"] = spec["msgid"]
    cte = spec["cte"]
    kw = {"cte": cte} if cte else {}
    lay = spec["layout"]

    def ok_cte(t):
        # 8bit needs lines <= 998 octets; 7bit is chosen by the library when it fits
        return kw

    if lay == "html":
        m.set_content(spec["html"], subtype="html", **ok_cte(spec["html"]))
    else:
        m.set_content(spec["plain"], **ok_cte(spec["plain"]))
        if lay in ("alt", "related"):
            m.add_alternative(spec["html"], subtype="html", **ok_cte(spec["html"]))
            if lay == "related":
                hp = m.get_payload()[1]
                hp.add_related(b"GIF89a\x01\x00\x01\x00\x00\x00\x00;", maintype="image", subtype="gif", cid="<img1@x>")
    for fn, mt, data in spec["attachments"]:
        mat, sub = mt.split("/", 1)
        m.add_attachment(data, maintype=mat, subtype=sub, filename=fn)
    return m.as_bytes()


def _modern_addr(pair):
    from email.headerregistry import Address
    name, addr = pair
    user, dom = addr.split("@")
    return str(Address(display_name=name, username=user, domain=dom))


def refold(raw: bytes, how: str) -> bytes:
    """Hand-folded variant: re-fold long top-level header lines at spaces ('tab': continuation lines start
    with a TAB instead of the space that was there is NOT equivalent, so we insert the break BEFORE an
    existing space and keep that space; 'tight': fold at every eligible space)."""
    head, sep, rest = raw.partition(b"\n\n")
    out = []
    for line in head.split(b"\n"):
        if line[:1] in (b" ", b"\t") or how is None:
            out.append(line)
            continue
        name, colon, val = line.partition(b":")
        if name.lower() not in (b"subject", b"to", b"cc", b"from") or b"=?" in val and how == "tab":
            out.append(line)
            continue
        # fold points: a space that is outside quotes and angle brackets
        cur, pieces, inq = b"", [], False
        for i, ch in enumerate(val):
            c = bytes([ch])
            if c == b'"':
                inq = not inq
            if c == b" " and not inq and cur.strip() and val[i + 1:i + 2] not in (b" ", b"") and (how == "tight" or len(cur) > 30):
                pieces.append(cur)
                cur = b""
            cur += c
        pieces.append(cur)
        out.append(name + colon + b"\n".join(pieces))
    return b"\n".join(out) + sep + rest


NAMED_ZONES = {0: ["GMT", "UT", "Z"], -300: ["EST"], -240: ["EDT"], -360: ["CST"], -420: ["MST", "PDT"], -480: ["PST"]}
MONTHS = ["Jan", "Feb", "Mar", "Apr", "May", "Jun", "Jul", "Aug", "Sep", "Oct", "Nov", "Dec"]


def style_date(spec, rng_style: str):
    """Date header text for spec['date'] in one of the RFC 5322 / obsolete forms.  'nozone' turns the spec's date into a
    NAIVE datetime (zone '-0000' = no zone information, what formatdate()/format_datetime(naive) emit)."""
    d = spec["date"]
    if d is None:
        return None
    if rng_style == "nozone":
        spec["date"] = d = d.replace(tzinfo=None)
        return email.utils.format_datetime(d)                      # ... -0000
    off = int(d.utcoffset().total_seconds() // 60)
    num = "%s%02d%02d" % ("+" if off >= 0 else "-", abs(off) // 60, abs(off) % 60)
    wd = ["Mon", "Tue", "Wed", "Thu", "Fri", "Sat", "Sun"][d.weekday()]
    if rng_style == "named" and off in NAMED_ZONES:
        return "%s, %02d %s %04d %02d:%02d:%02d %s" % (wd, d.day, MONTHS[d.month - 1], d.year, d.hour, d.minute, d.second, NAMED_ZONES[off][d.second % len(NAMED_ZONES[off])])
    if rng_style == "noweekday":
        return "%d %s %04d %02d:%02d:%02d %s" % (d.day, MONTHS[d.month - 1], d.year, d.hour, d.minute, d.second, num)
    if rng_style == "comment":
        return "%s, %02d %s %04d %02d:%02d:%02d %s (%s)" % (wd, d.day, MONTHS[d.month - 1], d.year, d.hour, d.minute, d.second, num, "CEST" if off else "UTC")
    if rng_style == "year2" and 2000 <= d.year <= 2049:
        return "%s, %d %s %02d %02d:%02d:%02d %s" % (wd, d.day, MONTHS[d.month - 1], d.year % 100, d.hour, d.minute, d.second, num)
    if rng_style == "noseconds" and d.second == 0:
        return "%s, %02d %s %04d %02d:%02d %s" % (wd, d.day, MONTHS[d.month - 1], d.year, d.hour, d.minute, num)
    return None


def build(spec) -> bytes:
    raw = build_legacy(spec) if spec["api"] == "legacy" else build_modern(spec)
    raw = raw.replace(b"\r\n", b"\n")
    styled = style_date(spec, spec.get("date_style") or "")
    if styled is not None:
        raw = re.sub(rb"(?m)^Date: .*$", ("Date: " + styled).encode("ascii"), raw, count=1)
    if spec.get("refold"):
        raw = refold(raw, spec["refold"])
    return raw


def lossless(spec, raw: bytes, headers_only: bool = False) -> bool:
    """Filter, not ground truth: the stdlib's own modern parser must get the spec back from the bytes
    (CPython's header folder can drop a space between two encoded words; such bytes do not encode
    the spec and are discarded)."""
    import email
    try:
        m = email.message_from_bytes(raw, policy=email.policy.default)
        if str(m["Subject"]) != spec["subject"]:
            return False
        # second reference: the legacy decoder on the unfolded raw values (RFC 2047: white space between two
        # adjacent encoded words is not part of the text; the modern parser is lenient about it)
        import email.header
        c = email.message_from_bytes(raw)
        unf = lambda v: re.sub(r"\r?\n(?=[ \t])", "", v)
        dec = lambda v: str(email.header.make_header(email.header.decode_header(v)))
        if dec(unf(c["Subject"])) != spec["subject"]:
            return False
        for h, want in (("From", [spec["from"]]), ("To", spec["to"]), ("Cc", spec["cc"])):
            got = [(dec(n), a) for n, a in email.utils.getaddresses([unf(c[h])])] if c[h] else []
            if got != want:
                return False
        for h, want in (("From", [spec["from"]]), ("To", spec["to"]), ("Cc", spec["cc"])):
            got = [(a.display_name, a.addr_spec) for a in m[h].addresses] if m[h] else []
            if got != want:
                return False
        if m["Date"].datetime != spec["date"] or str(m["Message-ID"]) != spec["msgid"]:
            return False
        if headers_only:
            return True
        atts = [(p.get_filename(), p.get_content_type(), p.get_payload(decode=True)) for p in m.iter_attachments()
                if p.get_content_type() != "image/gif"] if m.is_multipart() else []
        if atts != [tuple(a) for a in spec["attachments"]]:
            return False
        for kind, want in (("plain", spec["plain"] if spec["layout"] != "html" else None),
                           ("html", spec["html"] if spec["layout"] != "plain" else None)):
            b = m.get_body(preferencelist=(kind,))
            got = b.get_content().replace("\r\n", "\n").strip() if b is not None else None
            if (want.strip() if want is not None else None) != got:
                return False
        return True
    except Exception:  # noqa
        return False


# ------------------------------------------------------------------------------------------ mbox writers
FROM_RE = re.compile(rb"^(>*From )", re.M)


def escape_from(raw: bytes, mode: str) -> bytes:
    """mboxrd: every line matching ^>*From  gets one more '>'; mboxo: only ^From ; none: as is."""
    if mode == "mboxrd":
        return re.sub(rb"^(>*From )", rb">\1", raw, flags=re.M)
    if mode == "mboxo":
        return re.sub(rb"^(From )", rb">\1", raw, flags=re.M)
    return raw


def mbox_bytes(raws: list[bytes], eol: bytes, mode: str, rng=None) -> bytes:
    out = b""
    for i, r in enumerate(raws):
        sep = b"From MAILER-DAEMON Thu Jan  %d 0%d:00:00 2024" % (1 + i % 9, i % 10)
        if rng is not None and rng.random() < 0.6:
            sep = rng.choice([b"From user%d@example.com  Fri Feb 2%d 12:3%d:56 +0000 20%02d" % (i, i % 9, i % 10, 10 + i % 20),
                              b"From - Mon Jan 0%d 00:00:0%d 2024" % (1 + i % 9, i % 10),                  # Thunderbird
                              b"From \"quoted local\"@example.com Sat Mar  %d 08:0%d:00 1997" % (1 + i % 9, i % 10),
                              b"From user%d Tue Apr  2 23:59:59 2030" % i])
        body = escape_from(r.replace(b"\r\n", b"\n"), mode)
        if not body.endswith(b"\n"):
            body += b"\n"
        out += (sep + b"\n" + body + b"\n").replace(b"\n", eol)
    return out


# ------------------------------------------------------------------------------------------ degenerate attachments
TINY_PAYLOADS = [b"", b"", b"", b" ", b"\n", b"\r\n", b" \t \n", b"\0", b"a", b"ab", b"abc", b"\xff", b"\n\n", b"=", b"0"]


def _raw_attachment_part(mt: str, data: bytes, cte: str, fn):
    """An attachment part written by hand so that the payload is exactly `data` (the str-based stdlib API appends a
    line end to text; zero-length and white-space-only payloads need the raw route)."""
    import base64
    import quopri
    p = MIMEBase(*mt.split("/", 1))
    if cte == "base64":
        p.set_payload(base64.encodebytes(data).decode("ascii"))
    elif cte == "quoted-printable":
        p.set_payload(quopri.encodestring(data, quotetabs=True).decode("ascii"))
    else:
        p.set_payload(data.decode("ascii"))
    p["Content-Transfer-Encoding"] = cte
    if fn is None:
        p.add_header("Content-Disposition", "attachment")
    else:
        p.add_header("Content-Disposition", "attachment", filename=fn)
    return p


def tiny_attachment_message(rng):
    """(spec, raw): 1-4 attachments, at least one of them degenerate (zero bytes, white space only, one newline, NUL, 1-3
    bytes), in base64 / quoted-printable / 7bit, with and without file name, first / middle / last.  None when the stdlib
    parser does not give the payloads back (then the bytes do not encode the spec)."""
    import email
    k = rng.randrange(1, 5)
    pos = rng.randrange(k)
    atts, parts = [], []
    for i in range(k):
        if i == pos or rng.random() < 0.4:
            data = pick(rng, TINY_PAYLOADS)
        else:
            data = ("ordinary file %d\nline two\n" % i).encode("ascii")
        mt = pick(rng, ["text/plain", "application/octet-stream", "text/csv", "application/pdf", "application/json"])
        seven_ok = all(c in b" \t" or 32 < c < 127 for c in data)   # no line ends: they change with the file's line-end convention
        cte = pick(rng, ["base64", "quoted-printable", "7bit"] if seven_ok else ["base64", "quoted-printable"])
        if cte == "quoted-printable" and (b"\r" in data or b"\n" in data):
            cte = "base64"                       # quopri treats line ends as text line ends
        ext = {"text/plain": "txt", "text/csv": "csv", "application/pdf": "pdf", "application/json": "json"}.get(mt, "bin")
        fn = None if rng.random() < 0.2 else f"file{i}-{len(data)}.{ext}"
        atts.append((fn, mt, data))
        parts.append(_raw_attachment_part(mt, data, cte, fn))
    tz = datetime.timezone(datetime.timedelta(minutes=pick(rng, ZONES)))
    spec = {
        "subject": "attachments %d" % rng.randrange(10 ** 6), "from": ("Bob", "bob@example.com"), "to": [("Jane Smith", "jane@x.test")], "cc": [],
        "date": datetime.datetime(2024, rng.randrange(1, 13), rng.randrange(1, 29), 12, 0, rng.randrange(60), tzinfo=tz),
        "msgid": f"<tiny.{rng.randrange(10 ** 9)}@x.test>", "plain": "see the files", "html": None, "layout": "plain",
        "attachments": atts, "charset": "utf-8", "family": None, "cte": None, "api": "legacy-raw", "hdr_enc": None, "refold": None,
        "att_name_style": "raw", "tiny": True,
    }
    root = MIMEMultipart("mixed")
    root.attach(MIMEText(spec["plain"], "plain", "us-ascii"))
    for p in parts:
        root.attach(p)
    root["Subject"] = spec["subject"]
    root["From"] = email.utils.formataddr(spec["from"])
    root["To"] = email.utils.formataddr(spec["to"][0])
    root["Date"] = email.utils.format_datetime(spec["date"])
    root["Message-ID"] = spec["msgid"]
    raw = root.as_bytes().replace(b"\r\n", b"\n")
    back = email.message_from_bytes(raw)
    got = [(p.get_filename(), p.get_content_type(), p.get_payload(decode=True)) for p in back.walk()
           if "attachment" in str(p.get("Content-Disposition", ""))]
    if got != atts:
        return None
    return spec, raw


# ------------------------------------------------------------------------------------------ generated .msg (OLE compound file)
MSG_NAMES = ["John Doe", "Bob", "O'Brien", "Doe, John", "Smith; Jane", "Dr. A. Jones", "", "Jane Smith (Sales)"]


def msg_file(subject, headers, message_id, body, html, display_to) -> bytes:
    """A minimal Outlook .msg: root-level property streams only (subject, transport headers, message id, body / HTML,
    DisplayTo).  Attachments and recipient tables need nested storages, which the CFB writer does not produce."""
    from props.c08_writers import cfb
    u = lambda s_: s_.encode("utf-16-le")
    st = [("__properties_version1.0", b"\0" * 32)]
    if subject is not None:
        st.append(("__substg1.0_0037001F", u(subject)))
    if headers is not None:
        st.append(("__substg1.0_007D001F", u(headers)))
    if message_id is not None:
        st.append(("__substg1.0_1035001F", u(message_id)))
    if body is not None:
        st.append(("__substg1.0_1000001F", u(body)))
    if html is not None:
        st.append(("__substg1.0_10130102", html.encode("utf-8")))
    if display_to is not None:
        st.append(("__substg1.0_0E04001F", u(display_to)))
    return cfb(st)


def gen_msg_spec(rng):
    sp = gen_spec(rng, None, max_att=0)
    sp["from"] = (pick(rng, MSG_NAMES), sp["from"][1])
    sp["cc"] = [(pick(rng, MSG_NAMES), a) for _, a in sp["cc"]]
    sp["display_to"] = [pick(rng, MSG_NAMES[:3] + ["Jane Smith"]) for _ in range(rng.randrange(0, 3))]
    sp["no_subject"] = rng.random() < 0.08
    sp["no_date"] = rng.random() < 0.08
    sp["no_msgid"] = rng.random() < 0.1
    style = pick(rng, [None, None, "nozone", "named", "noweekday", "comment"])
    date_text = style_date(sp, style) or email.utils.format_datetime(sp["date"])
    lines = ["From: " + email.utils.formataddr(sp["from"])]
    if sp["cc"]:
        lines.append("CC: " + ", ".join(email.utils.formataddr(a) for a in sp["cc"]))
    if not sp["no_date"]:
        lines.append("Date: " + date_text)
    else:
        sp["date"] = None
    lines.append("X-Mailer: generated")
    headers = "\r\n".join(lines) + "\r\n\r\n"
    use_html = sp["layout"] == "html" and sp["html"]
    raw = msg_file(None if sp["no_subject"] else sp["subject"], headers, None if sp["no_msgid"] else sp["msgid"],
                   None if use_html else sp["plain"].replace("\n", "\r\n"), sp["html"] if use_html else None,
                   "; ".join(sp["display_to"]) if sp["display_to"] else None)
    sp["msg_html"] = bool(use_html)
    return sp, raw


# ------------------------------------------------------------------------------------------ header NAME spellings
def recase_header_names(raw: bytes, rng) -> bytes:
    """Field names are case-insensitive (RFC 5322): re-spell the names of the top-level header block the way other
    writers do (Message-Id, CC, SUBJECT, date, Reply-to, content-type, ...).  Values and continuation lines untouched."""
    head, sep, rest = raw.partition(b"\n\n")
    style = pick(rng, ["lower", "upper", "apple", "mixed"])
    out = []
    for line in head.split(b"\n"):
        if line[:1] in (b" ", b"\t") or b":" not in line:
            out.append(line)
            continue
        name, colon, val = line.partition(b":")
        if style == "lower":
            name = name.lower()
        elif style == "upper":
            name = name.upper()
        elif style == "apple":
            name = {b"message-id": b"Message-Id", b"cc": b"CC", b"mime-version": b"Mime-Version", b"reply-to": b"Reply-to",
                    b"in-reply-to": b"In-reply-to", b"bcc": b"BCC"}.get(name.lower(), name)
        elif rng.random() < 0.5:
            name = b"".join(bytes([c]).upper() if rng.random() < 0.5 else bytes([c]).lower() for c in name)
        out.append(name + colon + val)
    return b"\n".join(out) + sep + rest
