"""X-translator for C08: Python function body (ast) -> Coq term of C08.Flow.gs.  Fail-closed.

The guard is recognised structurally:  `if <expected detector expression>:` (no else), no yield inside,
the body ends in `raise ExtractionFileEncryptedError(...)` — or (nested form, read_pdf) in another such `if`
with the expected inner test.  Anything else that mentions a yield in an unhandled position, an unknown
statement, or a `with` whose context manager may swallow exceptions makes the translation fail, and the
caller records the obligation as not discharged.
"""
from __future__ import annotations

import ast
import importlib
import inspect


class FlowError(Exception):
    pass


# context managers known not to suppress exceptions (their __exit__ returns None/False) — trusted
NON_SUPPRESSING = {"zipfile.ZipFile", "tempfile.TemporaryDirectory", "olefile.OleFileIO", "open",
                   "olefile.olefile.OleFileIO", "tempfile.NamedTemporaryFile"}


def _has_yield(node) -> bool:
    for n in ast.walk(node):
        if isinstance(n, (ast.Yield, ast.YieldFrom)):
            return True
    return False


class FlowTranslator:
    def __init__(self, module, enc_class, guard_tests, callee_mode=False, guard_stmt=None, delivery_stmt=None):
        """guard_tests: list of expected test sources, outermost first (one entry, or two for the nested form).
        guard_stmt: alternatively the source of an assignment/expression statement that IS the guard
        (a call whose callee carries the check, proved separately)."""
        self.module = module
        self.enc = enc_class
        self.guard_tests = guard_tests
        self.callee_mode = callee_mode
        self.guard_stmt = guard_stmt
        self.delivery_stmt = delivery_stmt      # source of an expression statement that counts as "delivery"
        self.guards_found = 0

    # ---- guard recognition
    def _raises_enc(self, s) -> bool:
        if not isinstance(s, ast.Raise) or s.exc is None:
            return False
        f = s.exc.func if isinstance(s.exc, ast.Call) else s.exc
        if not isinstance(f, ast.Name):
            return False
        return getattr(self.module, f.id, None) is self.enc

    def _is_guard(self, s, tests) -> bool:
        if not (isinstance(s, ast.If) and not s.orelse and tests and ast.unparse(s.test) == tests[0]):
            return False
        if _has_yield(s):
            return False
        last = s.body[-1]
        if len(tests) == 1:
            return self._raises_enc(last) and not any(isinstance(n, (ast.Break, ast.Continue, ast.Return))
                                                     for b in s.body for n in ast.walk(b))
        return self._is_guard(last, tests[1:]) and not any(
            isinstance(n, (ast.Break, ast.Continue, ast.Return)) for b in s.body[:-1] for n in ast.walk(b))

    # ---- with
    def _with_ok(self, item) -> bool:
        e = item.context_expr
        if isinstance(e, ast.Call):
            src = ast.unparse(e.func)
            if src in NON_SUPPRESSING:
                return True
            obj = None
            try:
                obj = self.module
                for part in src.split("."):
                    obj = getattr(obj, part)
            except AttributeError:
                return False
            if inspect.isclass(obj):
                qn = f"{obj.__module__}.{obj.__qualname__}"
                if qn in NON_SUPPRESSING:
                    return True
                ex = getattr(obj, "__exit__", None)
                if ex is None:
                    return False
                try:
                    t = ast.parse(_dedent(inspect.getsource(ex)))
                except Exception:  # noqa
                    return False
                for n in ast.walk(t):
                    if isinstance(n, ast.Return) and n.value is not None and not (
                            isinstance(n.value, ast.Constant) and n.value.value in (None, False)):
                        return False
                return True
            if inspect.isfunction(obj) and (getattr(obj, "__wrapped__", None) is not None or inspect.isgeneratorfunction(obj)):
                # @contextmanager generator: suppresses only if it catches around its yield; accept when the
                # function has no try/except around the yield
                try:
                    t = ast.parse(_dedent(inspect.getsource(obj)))
                except Exception:  # noqa
                    return False
                for n in ast.walk(t):
                    if isinstance(n, ast.Try) and n.handlers and _has_yield(n):
                        return False
                return True
        return False

    # ---- statements
    def seq(self, parts):
        parts = [p for p in parts if p != "GPure"] or ["GPure"]
        out = parts[-1]
        for p in reversed(parts[:-1]):
            out = f"(GSeq {p} {out})"
        return out

    def block(self, stmts) -> str:
        return self.seq([self.stmt(s) for s in stmts])

    def stmt(self, s) -> str:
        if self.guard_stmt and isinstance(s, (ast.Assign, ast.Expr)) and ast.unparse(s.value) == self.guard_stmt:
            self.guards_found += 1
            return "GGuard"
        if self.delivery_stmt and isinstance(s, ast.Expr) and ast.unparse(s.value) == self.delivery_stmt:
            return self.seq(["GAny", "GYield"])
        if isinstance(s, ast.Expr) and isinstance(s.value, (ast.Yield, ast.YieldFrom)):
            inner = s.value.value
            if inner is not None and _has_yield(inner):
                raise FlowError(f"nested yield at line {s.lineno}")
            return self.seq(["GAny", "GYield"])
        if isinstance(s, (ast.Assign, ast.AnnAssign)) and isinstance(s.value, (ast.Yield, ast.YieldFrom)):
            return self.seq(["GAny", "GYield"])
        if isinstance(s, ast.If):
            if self._is_guard(s, self.guard_tests):
                self.guards_found += 1
                return "GGuard"
            if _has_yield(s.test):
                raise FlowError(f"yield in test at line {s.lineno}")
            return self.seq(["GAny", f"(GChoice {self.block(s.body)} {self.block(s.orelse) if s.orelse else 'GPure'})"])
        if isinstance(s, (ast.For, ast.While)):
            head = s.iter if isinstance(s, ast.For) else s.test
            if _has_yield(head):
                raise FlowError(f"yield in loop head at line {s.lineno}")
            loop = f"(GLoop {self.seq([self.block(s.body), 'GAny'])})"
            parts = ["GAny", loop]
            if s.orelse:
                parts.append(f"(GChoice {self.block(s.orelse)} GPure)")
            return self.seq(parts)
        if isinstance(s, ast.With):
            for it in s.items:
                if _has_yield(it.context_expr):
                    raise FlowError(f"yield in with-item at line {s.lineno}")
                if not self._with_ok(it):
                    raise FlowError(f"with-statement at line {s.lineno}: context manager {ast.unparse(it.context_expr)[:60]} "
                                    "is not known to be non-suppressing")
            return self.seq(["GAny", self.block(s.body), "GAny"])
        if isinstance(s, ast.Try):
            hs = "[" + "; ".join(self.block(h.body) for h in s.handlers) + "]"
            return (f"(GTry {self.block(s.body)} {hs} {self.block(s.orelse) if s.orelse else 'GPure'} "
                    f"{self.block(s.finalbody) if s.finalbody else 'GPure'})")
        if isinstance(s, ast.Raise):
            return self.seq(["GAny", "GAbort"])
        if isinstance(s, ast.Return):
            if s.value is not None and _has_yield(s.value):
                raise FlowError(f"yield in return at line {s.lineno}")
            if self.callee_mode and s.value is not None:
                return self.seq(["GAny", "GYield", "GAbort"])   # `return value` delivers content to the caller
            return self.seq(["GAny", "GReturn"])                # the generator ends silently
        if isinstance(s, (ast.Break, ast.Continue)):
            return "GBreak"
        if isinstance(s, (ast.Pass, ast.FunctionDef, ast.ClassDef, ast.Global, ast.Nonlocal)):
            return "GPure"
        if isinstance(s, ast.Match):
            if _has_yield(s.subject):
                raise FlowError("yield in match subject")
            out = "GPure"
            for c in reversed(s.cases):
                out = f"(GChoice {self.block(c.body)} {out})"
            return self.seq(["GAny", out])
        if isinstance(s, (ast.Expr, ast.Assign, ast.AnnAssign, ast.AugAssign, ast.Import, ast.ImportFrom,
                          ast.Delete, ast.Assert)):
            if _has_yield(s):
                raise FlowError(f"yield inside an expression at line {s.lineno}")
            return "GAny"
        raise FlowError(f"unsupported statement {type(s).__name__} at line {getattr(s, 'lineno', '?')}")


def _dedent(src: str) -> str:
    import textwrap
    return textwrap.dedent(src)


def find_function(tree, qualname):
    node = tree
    for p in qualname.split("."):
        found = None
        for n in ast.iter_child_nodes(node):
            if isinstance(n, (ast.FunctionDef, ast.ClassDef)) and n.name == p:
                found = n
                break
        if found is None:
            raise FlowError(f"{qualname}: {p} not found")
        node = found
    return node


def skeleton(module_name, qualname, enc_class, guard_tests, callee_mode=False, guard_stmt=None, drop_first=None):
    """-> (coq term, number of guards recognised).  drop_first: source of a first statement to drop
    (justified by the caller), e.g. the cache check of _DocReader._parse_content."""
    module = importlib.import_module(module_name)
    tree = ast.parse(inspect.getsource(module))
    fn = find_function(tree, qualname)
    body = list(fn.body)
    if body and isinstance(body[0], ast.Expr) and isinstance(body[0].value, ast.Constant) and isinstance(body[0].value.value, str):
        body = body[1:]
    if drop_first is not None:
        if not body or ast.unparse(body[0]) != drop_first:
            raise FlowError(f"{qualname}: first statement is not `{drop_first}`")
        body = body[1:]
    tr = FlowTranslator(module, enc_class, guard_tests, callee_mode=callee_mode, guard_stmt=guard_stmt)
    term = tr.block(body)
    return term, tr.guards_found


def zip_two_pass(module_name, qualname, enc_class, guard_test, admit_stmt):
    """The ZIP route checks the flag of every member in a first loop and yields in a second one.  Returns
    (pass1_body_term, guards, prefix_term): pass1_body_term is the body of the first `for ... in zf.infolist()`
    with the admission statement (append to the work list) as the delivery point; prefix_term is everything
    of the with-block before the second loop (must contain no yield).  Fails closed if the shape differs."""
    module = importlib.import_module(module_name)
    tree = ast.parse(inspect.getsource(module))
    fn = find_function(tree, qualname)
    withs = [n for n in ast.walk(fn) if isinstance(n, ast.With) and "ZipFile" in ast.unparse(n.items[0].context_expr)]
    if len(withs) != 1:
        raise FlowError(f"{qualname}: expected exactly one `with ...ZipFile(...)`")
    body = withs[0].body
    loops = [i for i, s in enumerate(body) if isinstance(s, ast.For)]
    if len(loops) != 2 or "infolist()" not in ast.unparse(body[loops[0]].iter):
        raise FlowError(f"{qualname}: expected two loops, the first over zf.infolist()")
    # nothing that can yield may precede the with-block either
    for n in ast.walk(fn):
        if isinstance(n, (ast.Yield, ast.YieldFrom)) and n.lineno < body[loops[1]].lineno:
            raise FlowError(f"{qualname}: yield at line {n.lineno} before the second loop")
    if any(isinstance(n, (ast.Yield, ast.YieldFrom)) for s in body[loops[1] + 1:] for n in ast.walk(s)):
        pass  # yields after the second loop are irrelevant for the ordering claim
    tr = FlowTranslator(module, enc_class, [guard_test], delivery_stmt=admit_stmt)
    p1 = tr.block(body[loops[0]].body)
    tr2 = FlowTranslator(module, enc_class, [guard_test])
    prefix = tr2.block(body[:loops[1]])
    work = ast.unparse(body[loops[1]].iter)
    if work not in admit_stmt:
        raise FlowError(f"{qualname}: second loop iterates {work}, not the list the first loop fills")
    return p1, tr.guards_found, prefix


def statements_before_guard(module_name, qualname, guard_tests, guard_stmt=None):
    """Sources (one line each) of the simple statements that execute before the guard, in source order."""
    module = importlib.import_module(module_name)
    tree = ast.parse(inspect.getsource(module))
    fn = find_function(tree, qualname)
    gline = None
    for n in ast.walk(fn):
        if isinstance(n, ast.If) and guard_tests and ast.unparse(n.test) == guard_tests[0]:
            gline = n.lineno
        if guard_stmt and isinstance(n, (ast.Assign, ast.Expr)) and ast.unparse(n.value) == guard_stmt:
            gline = n.lineno
    if gline is None:
        return None
    out = []
    for n in ast.walk(fn):
        if isinstance(n, (ast.Assign, ast.AnnAssign, ast.AugAssign, ast.Expr, ast.Return, ast.Raise)) and n.lineno < gline:
            if isinstance(n, ast.Expr) and isinstance(n.value, ast.Constant):
                continue
            out.append((n.lineno, ast.unparse(n).split("\n")[0][:70]))
    return [s for _, s in sorted(out)]
