"""C02 / ODS + ODP (+ ODG/ODF helper) — paragraph text through the shared helper element_text.

Coq (C02/OdfShared.v, PropsOdf.v): `etext_g skip` = element_text with the skip set as a parameter;
with ODT's set it is the ODT inline walk, with {office:annotation} (ods/odp/odg/odf) it gives the same
text on every rendered paragraph, whose words are the specified segments.
Here: Coq renders paragraphs from inline lists (ONE source of truth: OdtModel.r_inl + Xml.ser) with
text:span / text:a / tracked-insertion milestones / text:tab / text:line-break / text:soft-page-break /
office:annotation nested at any depth; the harness puts exactly that XML into ODS cells, ODP text boxes
and ODP table cells and runs read_ods / read_odp.
  D  correspondence: etext_g skip_ann (paragraph) == <fmt>_extractor._get_text_recursive(parsed paragraph)
     for ods, odp, odg, odf (vm_compute);  G: each module's skip set is {office:annotation} and its
     space/tab/line-break constants are ODT's.
  oracle: ODS get_full_text().split() == [sheet name] + segments of the cells row by row; ODP
     get_full_text().split() == segments of the text-box paragraphs in frame order; ODP table cell strings
     (iterate_tables) have the segments of their paragraphs; no annotation character anywhere.
"""
from __future__ import annotations

import importlib
import io
import re
import zipfile
from xml.etree import ElementTree as ET

from common import coq_list, coq_str, coq_eval_shards
from props.c02 import DocGen, coq_results, parse_strings, parse_nums, nstr, with_decls, pick_encoding

PRE = "From S2T Require Import Lib.PyStr C02.Lib C02.Xml C02.Doc C02.OdtModel C02.OdfShared.\n"
EXTRA_NS = (''
            ' xmlns:xlink="http://www.w3.org/1999/xlink"')
PROPS_EXPECTED = ["C02_odf_element_text_is_odt_walk", "C02_odf_paragraph_text_transfers", "C02_odf_paragraph_separated"]


def pkg(mimetype: str, body: str, decls: str, enc: str = "ascii-refs", enc_meta: bool = False) -> bytes:
    from props.c02 import encode_part
    b = io.BytesIO()
    with zipfile.ZipFile(b, "w", zipfile.ZIP_DEFLATED) as z:
        z.writestr("mimetype", mimetype)
        manifest = ('<manifest:manifest xmlns:manifest="urn:oasis:names:tc:opendocument:xmlns:manifest:1.0">'
                    f'<manifest:file-entry manifest:full-path="/" manifest:media-type="{mimetype}"/>'
                    '<manifest:file-entry manifest:full-path="content.xml" manifest:media-type="text/xml"/></manifest:manifest>')
        # non-content part: the manifest in the same encoding for every second package
        z.writestr("META-INF/manifest.xml", encode_part(manifest, enc if enc_meta else "ascii-refs"))
        z.writestr("content.xml", encode_part(f'<office:document-content{decls}{EXTRA_NS}>'
                                              f'<office:body>{body}</office:body></office:document-content>', enc))
    return b.getvalue()


def render(ctx, terms, shard=80):
    from concurrent.futures import ThreadPoolExecutor
    chunks = [terms[i:i + shard] for i in range(0, len(terms), shard)]

    def run(kc):
        k, chunk = kc
        body = (PRE + "Definition cases : list (list inl) := [\n" + ";\n".join(chunk) + "\n].\n"
                "Eval vm_compute in (map (fun l => to_string (ser (shared_para l))) cases).\n"
                "Eval vm_compute in (map (fun l => groups (para_syms l)) cases).\n"
                "Eval vm_compute in (map (fun l => List.concat (flat_map inl_excl l)) cases).\n"
                "Eval vm_compute in (to_string xmlns_decls).\n")
        ok, out = ctx.coq_eval(f"odfx_render_{k}", body, timeout=600)
        r = coq_results(out) if ok else []
        if len(r) != 4:
            return None, out
        xs, segs, excl = parse_strings(r[0]), parse_nums(r[1]), parse_nums(r[2])
        if not (len(xs) == len(segs) == len(excl) == len(chunk)):
            return None, out[-800:]
        return [(x, [nstr(w) for w in s_], nstr(e), parse_strings(r[3])[0]) for x, s_, e in zip(xs, segs, excl)], ""

    rows = []
    with ThreadPoolExecutor(max_workers=6) as ex:
        for r, log in ex.map(run, list(enumerate(chunks))):
            if r is None:
                return None, log[-1500:]
            rows += r
    return rows, ""


def run_part(ctx):
    mods = {f: importlib.import_module(f"sharepoint2text.parsing.extractors.open_office.{f}_extractor")
            for f in ("odt", "ods", "odp", "odg", "odf")}
    ctx.prove("C02/PropsOdf.v", ["C02/OdfShared.vo"], expected=PROPS_EXPECTED)
    # ---- G: the other formats call the shared helper with {office:annotation} and ODT's element constants
    odt = mods["odt"]
    for f in ("ods", "odp", "odg", "odf"):
        m = mods[f]
        same = (set(m._TEXT_SKIP_TAGS) == {odt._OFFICE_ANNOTATION_TAG}
                and m._TEXT_SPACE_TAG == odt._TEXT_SPACE_TAG and m._TEXT_TAB_TAG == odt._TEXT_TAB_TAG
                and m._TEXT_LINE_BREAK_TAG == odt._TEXT_LINE_BREAK_TAG and m._ATTR_TEXT_C == odt._ATTR_TEXT_C
                and m.element_text is odt.element_text)
        ctx.obligation(f"odf-shared:{f} calls _shared.element_text with skip set {{office:annotation}} and ODT's s/tab/line-break constants",
                       same, f"skip={sorted(m._TEXT_SKIP_TAGS)}")

    rng = ctx.rng
    n = ctx.n(100, 1500)
    terms = []
    for _ in range(n):
        g = DocGen(rng, set(), 3, latin=rng.random() < 0.4)
        terms.append(g.inls(0, False, 5))
    terms[0] = "[IRun [19969]; IWrap KSpan [IRun [19970]; IComment [22017]; IBreak BrLine; IRun [19971]; ITab; IRun [19972]]; IWrap KLink [IRun [19973]; IWrap KSpan [IComment [22018]]]]"
    rows, log = render(ctx, terms)
    if rows is None:
        ctx.obligation("correspondence:odf-shared etext_g {annotation} == _get_text_recursive (ods/odp/odg/odf)", False, "render pass failed: " + log)
        return
    decls = rows[0][3]
    # ---- correspondence on the helper itself
    cases, info = [], []
    for term, (x, segs, excl, _) in zip(terms, rows):
        p = ET.fromstring(with_decls(x, decls))
        outs = {f: mods[f]._get_text_recursive(p) for f in ("ods", "odp", "odg", "odf")}
        if len(set(outs.values())) != 1:
            ctx.finding("odf-shared:formats-differ", f"_get_text_recursive differs between ODF formats: {outs}", {"format": "odf", "paragraph_xml": x})
        cases.append(f"({term}, {coq_str(outs['ods'])})")
        info.append((term, x, outs["ods"]))
    ok, failing, log = coq_eval_shards(ctx, "odfx_corr", PRE, "corr_para", cases, shard=200, ty="list inl * str")
    ctx.traces += len(cases)
    ctx.disagreements += len(failing)
    ctx.obligation("correspondence:odf-shared etext_g {annotation} == _get_text_recursive (ods/odp/odg/odf)", ok and not failing,
                   (f"{len(failing)} disagreements; first: {info[failing[0]][1][:500]} impl={info[failing[0]][2]!r} " if failing else "") + log[:600])

    # ---- end to end: ODS cells, ODP text boxes, ODP table cells
    idx = 0
    groups = []
    while idx < len(rows):
        k = rng.randint(2, 5)
        groups.append(list(range(idx, min(idx + k, len(rows)))))
        idx += k
    for gi in groups:
        paras = [rows[i] for i in gi]
        excl_all = set("".join(p[2] for p in paras))
        # ODS: two cells per row
        cells = "".join(f'<table:table-cell office:value-type="string">{p[0]}</table:table-cell>' for p in paras)
        rows_xml = ""
        per_row = 2
        for j in range(0, len(paras), per_row):
            rows_xml += "<table:table-row>" + "".join(
                f'<table:table-cell office:value-type="string">{p[0]}</table:table-cell>' for p in paras[j:j + per_row]) + "</table:table-row>"
        enc_s = pick_encoding(rng)
        ctx.count("ods-encoding:" + enc_s)
        ods = pkg("application/vnd.oasis.opendocument.spreadsheet",
                  f'<office:spreadsheet><table:table table:name="SheetA">{rows_xml}</table:table></office:spreadsheet>', decls, enc_s, rng.random() < 0.5)
        want = [w for p in paras for w in p[1]]
        try:
            got = next(mods["ods"].read_ods(io.BytesIO(ods))).get_full_text()
        except Exception as e:  # noqa
            ctx.finding("ods:raises", f"read_ods raised {type(e).__name__}: {e}", {"format": "ods", "cells": [p[0] for p in paras]})
            got = None
        ctx.case(("ods", tuple(terms[i] for i in gi)), len(want) >= 3, "ods:cells")
        if got is not None:
            leaked = sorted(set(got) & excl_all)
            if leaked:
                ctx.finding("ods:annotation-text-in-full-text", "ODS get_full_text(): text of a cell comment (office:annotation) appears",
                            {"format": "ods", "cells": [p[0] for p in paras], "got": got})
            elif got.split() != ["SheetA"] + want:
                ctx.finding("ods:cell-paragraph-text", "ODS get_full_text(): cell paragraph tokens lost, duplicated, reordered or merged "
                            f"(expected {len(want)} words after the sheet name, got {len(got.split()) - 1})",
                            {"format": "ods", "cells": [p[0] for p in paras], "expected_words": want, "got": got, "encoding": enc_s})
        # ODP: first half of the paragraphs in text boxes (two per frame; some frames inside draw:g groups, possibly
        # nested), the rest in a table; speaker notes on the attached notes page (presentation:notes) in a frame with
        # and/or without presentation:class="notes" (the attribute is optional) — notes are excluded from the full text
        h = max(1, len(paras) // 2)
        boxes, tbl = paras[:h], paras[h:]
        frames, grouped = "", False
        for j in range(0, len(boxes), 2):
            fr = (f'<draw:frame svg:x="1cm" svg:y="{1 + j}cm" svg:width="5cm" svg:height="1cm"><draw:text-box>' +
                  "".join(p[0] for p in boxes[j:j + 2]) + "</draw:text-box></draw:frame>")
            g = rng.random()
            if g < 0.15:
                fr, grouped = f"<draw:g>{fr}</draw:g>", True
            elif g < 0.2:
                fr, grouped = f"<draw:g><draw:g>{fr}</draw:g></draw:g>", True
            frames += fr
        if tbl:
            frames += ('<draw:frame svg:x="1cm" svg:y="30cm" svg:width="5cm" svg:height="1cm"><table:table><table:table-row>' +
                       "".join(f"<table:table-cell>{p[0]}</table:table-cell>" for p in tbl) +
                       "</table:table-row></table:table></draw:frame>")
        notes_mode = rng.choice(["none", "classed", "unclassed", "both"])
        note_chars = [chr(0x4E00 + 5 * 1024 + 700 + k) for k in range(3)]
        nfr = lambda cls, ch: (f'<draw:frame{cls} svg:x="2cm" svg:y="14cm" svg:width="5cm" svg:height="5cm"><draw:text-box>'
                               f'<text:p>&#{ord(ch)};</text:p></draw:text-box></draw:frame>')
        notes_xml, notes_expected = "", []
        if notes_mode != "none":
            inner = '<draw:page-thumbnail svg:x="2cm" svg:y="1cm"/>'
            if notes_mode in ("classed", "both"):
                inner += nfr(' presentation:class="notes"', note_chars[0]); notes_expected.append(note_chars[0])
            if notes_mode in ("unclassed", "both"):
                inner += nfr("", note_chars[1]); notes_expected.append(note_chars[1])
            notes_xml = f"<presentation:notes>{inner}</presentation:notes>"
        enc = pick_encoding(rng)
        ctx.count("odp-encoding:" + enc)
        odp = pkg("application/vnd.oasis.opendocument.presentation",
                  f'<office:presentation><draw:page draw:name="p1">{frames}{notes_xml}</draw:page></office:presentation>', decls, enc, rng.random() < 0.5)
        want_b = [w for p in boxes for w in p[1]]
        ctx.case(("odp", tuple(terms[i] for i in gi), notes_mode, grouped, enc), len(want_b) >= 3,
                 "odp:text-boxes+table" + ("+grouped" if grouped else "") + ("+notes-" + notes_mode if notes_mode != "none" else ""))
        try:
            c = next(mods["odp"].read_odp(io.BytesIO(odp)))
            got = c.get_full_text()
            tables = [t.get_table() for t in c.iterate_tables()]
            got_notes = "".join(c.slides[0].notes) if c.slides else ""
        except Exception as e:  # noqa
            ctx.finding("odp:raises" + ("" if enc in ("ascii-refs", "utf8-raw") else ":" + enc),
                        f"read_odp raised {type(e).__name__}: {e} (content.xml encoded as {enc})", {"format": "odp", "frames": frames, "encoding": enc})
            continue
        cell_strs = [str(cell) for t in tables for row in t for cell in row]
        leaked = sorted((set(got) | set("".join(cell_strs))) & excl_all)
        notes_leaked = sorted(set(got) & set(note_chars))
        rep = {"format": "odp", "frames": frames, "notes": notes_xml, "expected_words": want_b, "got": got, "cells": cell_strs,
               "encoding": enc}
        if notes_leaked:
            ctx.finding("odp:speaker-notes-in-full-text", "ODP get_full_text(): text of the notes page (presentation:notes, frame "
                        + ("without" if note_chars[1] in notes_leaked else "with") + ' presentation:class="notes") appears in the slide text', rep)
        elif any(ch not in got_notes for ch in notes_expected):
            ctx.finding("odp:speaker-notes-not-collected", "ODP: text of a notes-page frame is missing from OdpSlide.notes", rep)
        elif leaked:
            ctx.finding("odp:annotation-paragraph-leaks", "ODP: the paragraphs of a comment (office:annotation) anchored in a text-box "
                        "or table-cell paragraph appear in get_full_text() / the table cell text", rep)
        elif got.split() != want_b:
            if enc != "ascii-refs":
                try:
                    got0 = next(mods["odp"].read_odp(io.BytesIO(pkg("application/vnd.oasis.opendocument.presentation",
                                f'<office:presentation><draw:page draw:name="p1">{frames}{notes_xml}</draw:page></office:presentation>', decls)))).get_full_text()
                except Exception:  # noqa
                    got0 = got
                if got0 != got:
                    ctx.finding("odp:part-encoding:" + enc, f"ODP get_full_text() depends on the encoding of content.xml ({enc} vs character references)", rep)
                    continue
            if grouped:
                ctx.finding("odp:grouped-text-box-lost", "ODP get_full_text(): text boxes inside a draw:g group are not extracted "
                            f"(expected {len(want_b)} words, got {len(got.split())})", rep)
            else:
                ctx.finding("odp:text-box-paragraph-text", "ODP get_full_text(): text-box paragraph tokens lost, duplicated, reordered or merged "
                            f"(expected {len(want_b)} words, got {len(got.split())})", rep)
        elif tbl and (len(cell_strs) != len(tbl) or any(cs.split() != p[1] for cs, p in zip(cell_strs, tbl))):
            ctx.finding("odp:table-cell-text", "ODP iterate_tables(): a cell's paragraph tokens are lost, duplicated, reordered or merged", rep)
    ctx.extra["odf_shared"] = {"paragraphs": len(rows), "ods_odp_documents": len(groups)}
