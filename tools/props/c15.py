"""C15 — isolation: results independent of history and of concurrent work.

X: a fail-closed `ast` translator turns the statement sequence of pdf_extractor._patched_build_char_map
   (lock or no lock, save / set / yield / finally-restore order) into the Coq term Gen/C15Skeleton.v;
   C15/Inst.v obliges it to BE the protocol the unbounded-thread theorems are about and has the
   kernel model-check every interleaving of <= 3 threads of the generated term.
G: capacities of the memo tables and the shape of the font-cache key are dumped from the live modules.
D: a line-gated scheduler (sys.settrace line events, attached from outside the repo) replays the
   model's schedules on the REAL context manager and compares the observations after every
   statement with the model; refuting schedules are replayed on real PDF extraction; randomised
   pre-emptive mixed-format workloads and orderings of extraction sequences are compared with
   isolated baselines; globals / temp dir / fd count are compared before and after.
"""
from __future__ import annotations

import ast
import gc
import hashlib
import importlib
import io
import itertools
import json
import os
import re
import subprocess
import sys
import tempfile
import threading
import time
from pathlib import Path

import common
from common import coq_eval_shards

LABELS = {"ReadG": 1, "Push": 2, "SetWrap": 3, "Yield": 4, "RestoreAll": 5, "PopRestoreAll": 6,
          "Clear": 7, "Acquire": 8, "Release": 9, "IfDepthZero": 10, "Incr": 11, "Decr": 12}

PROTO_CURRENT = "[ReadG; Push Local; SetWrap; Yield; RestoreAll Local]"
PROTO_LOCKED = ("[Acquire; IfDepthZero [ReadG; Push Global; SetWrap]; Incr; Release; Yield; Acquire; Decr; "
                "IfDepthZero [PopRestoreAll Global]; Release]")


# ============================================================================ X: ast -> skeleton
class TranslateError(Exception):
    pass


class Skeleton:
    """instrs: nested list of (name, arg, lineno); arg is 'Local'/'Global', a nested list or None."""

    def __init__(self):
        self.instrs = []
        self.lock_name = None
        self.depth_name = None
        self.global_list = None
        self.local_lists = set()
        self.with_lines = set()
        self.line_label = {}     # lineno -> label name ('WITH' for with-lines)
        self.lineno = 0
        self.func = "_patched_build_char_map"

    def coq(self, instrs=None):
        instrs = self.instrs if instrs is None else instrs
        out = []
        for name, arg, _ in instrs:
            if name in ("Push", "RestoreAll", "PopRestoreAll", "Clear"):
                out.append(f"{name} {arg}")
            elif name == "IfDepthZero":
                out.append(f"IfDepthZero {self.coq(arg)}")
            else:
                out.append(name)
        return "[" + "; ".join(out) + "]"


def _is_name(n, ident=None):
    return isinstance(n, ast.Name) and (ident is None or n.id == ident)


def _call_name(n):
    if isinstance(n, ast.Call) and isinstance(n.func, ast.Name):
        return n.func.id
    return None


def translate(pe) -> Skeleton:
    """Fail-closed translation of `_patched_build_char_map`; anything not recognised raises."""
    src = Path(pe.__file__).read_text(encoding="utf-8")
    tree = ast.parse(src)
    fns = [n for n in tree.body if isinstance(n, ast.FunctionDef) and n.name == "_patched_build_char_map"]
    if len(fns) != 1:
        raise TranslateError("expected exactly one module-level def _patched_build_char_map")
    fn = fns[0]
    deco = [ast.unparse(d) for d in fn.decorator_list]
    if deco != ["contextlib.contextmanager"]:
        raise TranslateError(f"unexpected decorators {deco}")
    if fn.args.args or fn.args.vararg or fn.args.kwarg or fn.args.kwonlyargs:
        raise TranslateError("context manager takes arguments")
    sk = Skeleton()
    sk.lineno = fn.lineno
    env = {"targets": None, "wrapper": None, "orig_var": None, "wrapped_vars": set(), "globals": set()}

    def gate(name, line):
        key = "WITH" if name in ("Acquire", "Release") else name
        if line in sk.line_label and sk.line_label[line] != key:
            raise TranslateError(f"two gated statements on line {line}")
        sk.line_label[line] = key

    def loc_of(name):
        if name in sk.local_lists:
            return "Local"
        if isinstance(getattr(pe, name, None), list):
            if sk.global_list not in (None, name):
                raise TranslateError("two module-level saved lists")
            sk.global_list = name
            return "Global"
        raise TranslateError(f"saved-originals list {name!r} is neither a local list nor a module-level list")

    def is_setattr_of(stmt, third_pred):
        if not (isinstance(stmt, ast.Expr) and _call_name(stmt.value) == "setattr"):
            return False
        a = stmt.value.args
        return len(a) == 3 and not stmt.value.keywords and _is_name(a[0]) and _is_name(a[1]) and third_pred(a[2])

    def block(stmts, top=False):
        out = []
        for i, st in enumerate(stmts):
            if isinstance(st, ast.Expr) and isinstance(st.value, ast.Constant) and isinstance(st.value.value, str):
                continue  # docstring
            if isinstance(st, ast.Global):
                env["globals"].update(st.names)
                continue
            # prelude: try: targets, wrapper = _get_pypdf_char_map_patcher() except AttributeError: log; yield; return
            if (isinstance(st, ast.Try) and len(st.body) == 1 and isinstance(st.body[0], ast.Assign)
                    and _call_name(st.body[0].value) == "_get_pypdf_char_map_patcher"):
                tg = st.body[0].targets[0]
                if not (isinstance(tg, ast.Tuple) and len(tg.elts) == 2 and all(_is_name(e) for e in tg.elts)):
                    raise TranslateError("unexpected patcher unpacking")
                env["targets"], env["wrapper"] = tg.elts[0].id, tg.elts[1].id
                if st.orelse or st.finalbody or len(st.handlers) != 1:
                    raise TranslateError("unexpected prelude try shape")
                h = st.handlers[0]
                if ast.unparse(h.type) != "AttributeError":
                    raise TranslateError("prelude handler is not AttributeError")
                kinds = []
                for hs in h.body:
                    if isinstance(hs, ast.Expr) and isinstance(hs.value, ast.Call) and ast.unparse(hs.value.func).startswith("logger."):
                        kinds.append("log")
                    elif isinstance(hs, ast.Expr) and isinstance(hs.value, ast.Yield) and hs.value.value is None:
                        kinds.append("yield")
                    elif isinstance(hs, ast.Return) and hs.value is None:
                        kinds.append("return")
                    else:
                        raise TranslateError("unexpected statement in prelude handler: " + ast.unparse(hs))
                if [k for k in kinds if k != "log"] != ["yield", "return"]:
                    raise TranslateError("prelude handler must be log*, yield, return")
                continue
            # local list of saved originals
            if isinstance(st, (ast.Assign, ast.AnnAssign)):
                tgt = st.targets[0] if isinstance(st, ast.Assign) else st.target
                val = st.value
                if _is_name(tgt) and isinstance(val, ast.List) and not val.elts:
                    sk.local_lists.add(tgt.id)
                    continue
                if _is_name(tgt) and _call_name(val) == "getattr" and len(val.args) == 2:
                    env["orig_var"] = tgt.id
                    out.append(("ReadG", None, st.lineno)); gate("ReadG", st.lineno)
                    continue
                if (_is_name(tgt) and _call_name(val) == env["wrapper"] and len(val.args) == 1
                        and _is_name(val.args[0], env["orig_var"])):
                    env["wrapped_vars"].add(tgt.id)   # thread-local closure creation
                    continue
                raise TranslateError("unexpected assignment: " + ast.unparse(st))
            if isinstance(st, ast.For):
                if st.orelse:
                    raise TranslateError("for-else")
                if (_is_name(st.iter, env["targets"]) and isinstance(st.target, ast.Tuple) and len(st.target.elts) == 2):
                    out += block(st.body)         # one target (checked against the live patcher)
                    continue
                if (_is_name(st.iter) and isinstance(st.target, ast.Tuple) and len(st.target.elts) == 3
                        and len(st.body) == 1
                        and is_setattr_of(st.body[0], lambda a: _is_name(a, st.target.elts[2].id))):
                    out.append(("RestoreAll", loc_of(st.iter.id), st.body[0].lineno)); gate("RestoreAll", st.body[0].lineno)
                    continue
                raise TranslateError("unexpected for loop: " + ast.unparse(st)[:120])
            if isinstance(st, ast.While):
                if (not st.orelse and _is_name(st.test) and len(st.body) == 2 and isinstance(st.body[0], ast.Assign)
                        and isinstance(st.body[0].targets[0], ast.Tuple) and len(st.body[0].targets[0].elts) == 3
                        and ast.unparse(st.body[0].value) == f"{st.test.id}.pop()"
                        and is_setattr_of(st.body[1], lambda a: _is_name(a, st.body[0].targets[0].elts[2].id))):
                    out.append(("PopRestoreAll", loc_of(st.test.id), st.body[1].lineno)); gate("PopRestoreAll", st.body[1].lineno)
                    continue
                raise TranslateError("unexpected while loop: " + ast.unparse(st)[:120])
            if isinstance(st, ast.Expr) and isinstance(st.value, ast.Call):
                c = st.value
                if isinstance(c.func, ast.Attribute) and _is_name(c.func.value, "logger"):
                    continue      # logging touches none of the modelled globals
                if isinstance(c.func, ast.Attribute) and _is_name(c.func.value) and c.func.attr == "append":
                    if (len(c.args) == 1 and isinstance(c.args[0], ast.Tuple) and len(c.args[0].elts) == 3
                            and _is_name(c.args[0].elts[2], env["orig_var"])):
                        out.append(("Push", loc_of(c.func.value.id), st.lineno)); gate("Push", st.lineno)
                        continue
                if isinstance(c.func, ast.Attribute) and _is_name(c.func.value) and c.func.attr == "clear" and not c.args:
                    out.append(("Clear", loc_of(c.func.value.id), st.lineno)); gate("Clear", st.lineno)
                    continue
                if is_setattr_of(st, lambda a: (_is_name(a) and a.id in env["wrapped_vars"]) or
                                 (_call_name(a) == env["wrapper"] and len(a.args) == 1 and _is_name(a.args[0], env["orig_var"]))):
                    out.append(("SetWrap", None, st.lineno)); gate("SetWrap", st.lineno)
                    continue
                raise TranslateError("unexpected call statement: " + ast.unparse(st)[:120])
            if isinstance(st, ast.Try):
                if (len(st.body) == 1 and isinstance(st.body[0], ast.Expr) and isinstance(st.body[0].value, ast.Yield)
                        and st.body[0].value.value is None and not st.handlers and not st.orelse and st.finalbody):
                    out.append(("Yield", None, st.body[0].lineno)); gate("Yield", st.body[0].lineno)
                    out += block(st.finalbody)
                    continue
                raise TranslateError("unexpected try statement (the yield must be the sole body of try/finally)")
            if isinstance(st, ast.With):
                if len(st.items) == 1 and _is_name(st.items[0].context_expr) and st.items[0].optional_vars is None:
                    nm = st.items[0].context_expr.id
                    obj = getattr(pe, nm, None)
                    if not (hasattr(obj, "acquire") and hasattr(obj, "release")):
                        raise TranslateError(f"with {nm}: not a module-level lock")
                    if type(obj) is not type(threading.Lock()):
                        raise TranslateError(f"with {nm}: the model covers threading.Lock (non re-entrant) only")
                    if sk.lock_name not in (None, nm):
                        raise TranslateError("two different locks")
                    sk.lock_name = nm
                    sk.with_lines.add(st.lineno)
                    out.append(("Acquire", None, st.lineno)); gate("Acquire", st.lineno)
                    out += block(st.body)
                    out.append(("Release", None, st.lineno))
                    continue
                raise TranslateError("unexpected with statement")
            if isinstance(st, ast.If):
                t = st.test
                if (not st.orelse and isinstance(t, ast.Compare) and _is_name(t.left) and len(t.ops) == 1
                        and isinstance(t.ops[0], ast.Eq) and isinstance(t.comparators[0], ast.Constant)
                        and t.comparators[0].value == 0 and isinstance(getattr(pe, t.left.id, None), int)):
                    if sk.depth_name not in (None, t.left.id):
                        raise TranslateError("two counters")
                    sk.depth_name = t.left.id
                    out.append(("IfDepthZero", block(st.body), st.lineno)); gate("IfDepthZero", st.lineno)
                    continue
                raise TranslateError("unexpected if statement: " + ast.unparse(t))
            if isinstance(st, ast.AugAssign):
                if (_is_name(st.target) and isinstance(st.value, ast.Constant) and st.value.value == 1
                        and isinstance(st.op, (ast.Add, ast.Sub)) and st.target.id in env["globals"]
                        and isinstance(getattr(pe, st.target.id, None), int)):
                    if sk.depth_name not in (None, st.target.id):
                        raise TranslateError("two counters")
                    sk.depth_name = st.target.id
                    nm = "Incr" if isinstance(st.op, ast.Add) else "Decr"
                    out.append((nm, None, st.lineno)); gate(nm, st.lineno)
                    continue
                raise TranslateError("unexpected augmented assignment: " + ast.unparse(st))
            raise TranslateError(f"unsupported statement at line {st.lineno}: " + ast.unparse(st)[:100])
        return out

    sk.instrs = block(fn.body, top=True)
    if env["targets"] is None:
        raise TranslateError("prelude (_get_pypdf_char_map_patcher) not found")
    return sk


# ============================================================================ line-gated scheduler
class Gates:
    """Worker threads park before every gated statement of the target code object; the controller
    grants one statement at a time.  Attached from outside the repository via sys.settrace."""

    def __init__(self, code, line_label):
        self.code = code
        self.line_label = line_label
        self.cv = threading.Condition()
        self.parked = {}
        self.granted = set()
        self.done = set()
        self.errors = {}
        self.with_state = {}

    def tracer(self, tid):
        def local(frame, event, arg):
            if event == "line":
                lab = self.line_label.get(frame.f_lineno)
                if lab is not None:
                    if lab == "WITH":
                        key = (tid, frame.f_lineno)
                        inside = self.with_state.get(key, False)
                        self.with_state[key] = not inside
                        lab = "Release" if inside else "Acquire"
                    self._park(tid, lab)
            return local

        def glob(frame, event, arg):
            if frame.f_code is self.code:
                return local
            return None
        return glob

    def _park(self, tid, lab):
        with self.cv:
            self.parked[tid] = lab
            self.cv.notify_all()
            while tid not in self.granted:
                self.cv.wait()
            self.granted.discard(tid)
            del self.parked[tid]

    def finish(self, tid, err=None):
        with self.cv:
            self.done.add(tid)
            if err is not None:
                self.errors[tid] = err
            self.cv.notify_all()

    def wait_settled(self, tids, timeout=60.0):
        with self.cv:
            return self.cv.wait_for(lambda: all((t in self.parked and t not in self.granted) or t in self.done
                                                for t in tids), timeout)

    def grant(self, tid, timeout=60.0):
        with self.cv:
            if tid in self.done or tid not in self.parked:
                return False
            self.granted.add(tid)
            self.cv.notify_all()
            ok = self.cv.wait_for(lambda: (tid in self.parked and tid not in self.granted) or tid in self.done, timeout)
            if not ok:
                raise RuntimeError(f"thread {tid} neither parked nor finished within {timeout}s")
            return True

    def label(self, tid):
        with self.cv:
            if tid in self.done:
                return "Done"
            return self.parked.get(tid)


class PatchWorld:
    """Access to the real globals of the protocol."""

    def __init__(self, pe, sk: Skeleton):
        import pypdf._page as pg
        self.pe, self.sk, self.pg = pe, sk, pg
        targets, _ = pe._get_pypdf_char_map_patcher()
        self.targets = targets
        self.mod, self.name = targets[0]
        self.orig = getattr(self.mod, self.name)
        self.code = pe._patched_build_char_map.__wrapped__.__code__

    def current(self):
        return getattr(self.mod, self.name)

    def chain_depth(self, fn=None):
        fn = self.current() if fn is None else fn
        d = 0
        while fn is not self.orig:
            nxt = None
            cl = getattr(fn, "__closure__", None)
            if cl:
                for nm, cell in zip(fn.__code__.co_freevars, cl):
                    if nm == "original":
                        nxt = cell.cell_contents
            if nxt is None or d > 10000:
                return -1
            fn = nxt
            d += 1
        return d

    def counter(self):
        return getattr(self.pe, self.sk.depth_name) if self.sk.depth_name else 0

    def lock_held(self):
        return getattr(self.pe, self.sk.lock_name).locked() if self.sk.lock_name else False

    def reset(self, layers=0):
        """Harness-side reset between runs (the code under test may legitimately be broken)."""
        setattr(self.mod, self.name, self.orig)
        if self.sk.depth_name:
            setattr(self.pe, self.sk.depth_name, 0)
        if self.sk.global_list:
            getattr(self.pe, self.sk.global_list).clear()
        if self.sk.lock_name and self.lock_held():
            getattr(self.pe, self.sk.lock_name).release()
        # simulate residue of an arbitrary history: `layers` foreign wrappers around the original
        if layers:
            _, mk = self.pe._get_pypdf_char_map_patcher()
            f = self.orig
            for _ in range(layers):
                f = mk(f)
            setattr(self.mod, self.name, f)


def run_schedule(world: PatchWorld, k: int, sched, body=None, layers=0, work=None):
    """Run k threads through the real context manager under the given schedule (list of thread
    ids, one gated statement per entry).  Returns (observations, seen_depths, errors)."""
    world.reset(layers)
    gates = Gates(world.code, world.sk.line_label)
    seen = [[] for _ in range(k)]
    results = [None] * k

    def worker(tid):
        err = None
        sys.settrace(gates.tracer(tid))
        try:
            if work is not None:
                results[tid] = work(tid)
            else:
                with world.pe._patched_build_char_map():
                    seen[tid].append(world.chain_depth())
                    if body:
                        body(tid)
        except BaseException as e:  # noqa
            err = repr(e)
        finally:
            sys.settrace(None)
            gates.finish(tid, err)

    ths = [threading.Thread(target=worker, args=(t,), daemon=True) for t in range(k)]
    for t in ths:
        t.start()
    if not gates.wait_settled(range(k)):
        raise RuntimeError("workers did not reach their first gate")
    obs = []
    for tid in sched:
        lab = gates.label(tid)
        if lab == "Acquire" and world.lock_held():
            pass        # blocked: no-op, exactly as in the model
        elif lab not in (None, "Done"):
            gates.grant(tid)
        lab2 = gates.label(tid)
        obs.append((0 if lab2 == "Done" else LABELS.get(lab2, 98), world.chain_depth(), world.counter(), world.lock_held()))
    seen_at_end = [list(x) for x in seen]
    # let everything drain (round-robin) so no thread is left parked
    guard = 0
    while True:
        with gates.cv:
            pend = [t for t in range(k) if t not in gates.done]
        if not pend:
            break
        progressed = False
        for tid in pend:
            lab = gates.label(tid)
            if lab == "Acquire" and world.lock_held():
                continue
            if lab not in (None, "Done"):
                gates.grant(tid)
                progressed = True
        guard += 1
        if not progressed or guard > 10000:
            break
    for t in ths:
        t.join(timeout=5)
    final = (world.chain_depth(), world.counter(), world.lock_held())
    return obs, (seen_at_end, seen), dict(gates.errors), final, results


def coq_obs(o):
    return "[" + "; ".join(f"({a}, {b}, ({c})%Z, {'true' if d else 'false'})" for a, b, c, d in o) + "]"


def coq_nat_list(l):
    return "[" + "; ".join(str(x) for x in l) + "]"


def parse_schedules(out: str):
    m = re.search(r"=\s*(\[.*\])\s*:\s*list \(list nat\)", out, re.S)
    if not m:
        return None
    txt = m.group(1).replace("\n", " ").replace(";", ",")
    return json.loads(txt)


# ============================================================================ fixtures / digests
def fixtures():
    root = common.REPO / "sharepoint2text" / "tests" / "resources"
    out = []
    for p in sorted(root.rglob("*")):
        if p.is_file() and p.stat().st_size > 0:
            out.append(p)
    return out


def digest_results(res):
    js = json.dumps([r.to_json() for r in res], sort_keys=True, default=repr, ensure_ascii=True)
    return "ok:" + hashlib.sha1(canon_json(js).encode()).hexdigest()[:16]


def extract_digest(path: str, data: bytes | None = None):
    """Canonical result of extracting one document: sha1 of the sorted-key JSON of every yielded
    object's to_json() (binary included), or the exception class name."""
    import sharepoint2text
    try:
        if data is None:
            res = list(sharepoint2text.read_file(path))
        else:
            from sharepoint2text.parsing.router import get_extractor
            res = list(get_extractor(path)(io.BytesIO(data), path))
        return digest_results(res)
    except Exception as e:  # noqa
        return "exc:" + type(e).__name__


_ADDR = re.compile(r"IndirectObject\((\d+), (\d+), \d+\)")
_HEXADDR = re.compile(r" at 0x[0-9a-fA-F]+")
_STAMP = re.compile(r"(\d{4}-\d{2}-\d{2})[T ]\d{2}:\d{2}:\d{2}(?:\.\d+)?")


def canon_json(js: str) -> str:
    """Remove what the property does not mention: object addresses and wall-clock 'now' stamps that
    third-party parsers fill in for missing metadata (that is C06's subject, not isolation)."""
    import datetime
    now = datetime.datetime.now()
    near = {(now + datetime.timedelta(days=d)).strftime("%Y-%m-%d") for d in (-1, 0, 1)}
    js = _ADDR.sub(r"IndirectObject(\1, \2)", js)
    js = _HEXADDR.sub(" at 0x", js)
    return _STAMP.sub(lambda m: "<now>" if m.group(1) in near else m.group(0), js)


def fd_count():
    return len(os.listdir("/proc/self/fd"))


def globals_snapshot(world: PatchWorld):
    """The modelled process-global state (identity / depth / sizes only)."""
    import pypdf._crypt_providers._fallback as fb
    from sharepoint2text.parsing.extractors import archive_extractor as ae
    from sharepoint2text.parsing.extractors.pdf import _pypdf_aes_fallback as aes
    snap = {
        "char_map_depth": world.chain_depth(),
        "char_map_counter": world.counter(),
        "char_map_lock": world.lock_held(),
        "archive_config": repr(ae._config),
        "aes_provider_patched": fb.aes_cbc_decrypt is aes.aes_cbc_decrypt,
    }
    return snap


def fd_table():
    out = {}
    for f in os.listdir("/proc/self/fd"):
        try:
            out[int(f)] = os.readlink(f"/proc/self/fd/{f}")
        except OSError:
            pass          # the directory handle of this very listing
    return out


def cache_sizes():
    """Sizes of the module-level caches the model covers, with their bounds (None = unbounded)."""
    from sharepoint2text.parsing.extractors import archive_extractor as ae, epub_extractor as ep, serialization
    from sharepoint2text.parsing.extractors.open_office import _shared as oo
    from sharepoint2text.parsing.extractors.pdf import _pypdf_aes_fallback as aes, pdf_extractor as pe
    out = {"_ROUND_KEY_CACHE": (len(aes._ROUND_KEY_CACHE), int(aes._ROUND_KEY_CACHE_MAX)),
           "_FONT_CACHE": (len(pe._FONT_CACHE), None),
           "_TYPE_REGISTRY": (len(serialization._TYPE_REGISTRY), None)}
    for nm, f in (("archive._is_supported_file_cached", ae._is_supported_file_cached),
                  ("archive._get_file_extractor_cached", ae._get_file_extractor_cached),
                  ("archive._get_router_functions", ae._get_router_functions),
                  ("epub._guess_content_type", ep._guess_content_type),
                  ("open_office.guess_content_type", oo.guess_content_type)):
        if hasattr(f, "cache_info"):
            i = f.cache_info()
            out[nm] = (i.currsize, i.maxsize)
    return out


class ResidueMonitor:
    """Compares, after EVERY extraction step, the process-global residue with the snapshot taken before:
    listing of the private temp root, open fds, live threads, identity/nesting of the patched pypdf functions,
    counter/lock of the patch protocol, archive_extractor._config, AES provider flag (one-way: known finding),
    cache sizes against their bounds (memo tables may fill - their transparency is proved and tested - but never
    beyond their capacity; the type registry must keep its size once filled)."""

    def __init__(self, ctx, world, tmproot, aes0):
        from sharepoint2text.parsing.extractors import serialization
        self.ctx, self.world, self.tmproot = ctx, world, tmproot
        serialization._get_type_registry()
        gc.collect()
        self.snap = globals_snapshot(world)
        self.snap["aes_provider_patched"] = aes0       # as it was when the process started
        self.tmp = sorted(os.listdir(tmproot))
        self.fds = fd_table()
        self.threads = {t.ident for t in threading.enumerate()}
        self.registry = cache_sizes()["_TYPE_REGISTRY"][0]
        self.steps = 0
        import mimetypes
        mimetypes.init() if not mimetypes.inited else None     # stdlib lazy init is not the library's doing
        self.interp = interp_snapshot()
        self.lib = library_state()
        self.pypdf = pypdf_identities()
        self.reported = set()
        self.tp = third_party_scalars()

    def _fd_growth(self):
        now = fd_table()
        new = {k: v for k, v in now.items() if k not in self.fds}
        if new:
            gc.collect()       # handles owned by unreachable cycles are not residue
            now = fd_table()
            new = {k: v for k, v in now.items() if k not in self.fds}
        return new

    def _new_threads(self):
        new = [t for t in threading.enumerate() if t.ident not in self.threads]
        if new:
            for t in new:
                t.join(timeout=0.5)
            new = [t for t in threading.enumerate() if t.ident not in self.threads]
        return new

    def step(self, name, outcome, replay, key=None):
        """`name` describes the input, `key` (default: name) is the stable finding key (one finding per damaged
        source fixture, the first failing damage is kept in the replay file), `replay` holds the concrete input."""
        self.steps += 1
        key = key or name
        ctx = self.ctx
        rep = dict(replay)
        rep["outcome"] = outcome
        tmp = sorted(os.listdir(self.tmproot))
        if tmp != self.tmp:
            left = sorted(set(tmp) - set(self.tmp))
            gone = sorted(set(self.tmp) - set(tmp))
            rep.update(left_behind=left, removed=gone, temp_root="private tempfile.tempdir of the run")
            ctx.finding(f"residue:temp-files:{key}",
                        f"extraction of {name} ({outcome}) left {left[:4]} in the temp directory" +
                        (f" / removed {gone[:4]}" if gone else ""), rep)
            import shutil
            for x in left:
                shutil.rmtree(os.path.join(self.tmproot, x), ignore_errors=True)
                try:
                    os.unlink(os.path.join(self.tmproot, x))
                except OSError:
                    pass
            self.tmp = sorted(os.listdir(self.tmproot))
        new = self._fd_growth()
        if new:
            rep.update(new_fds=new)
            ctx.finding(f"residue:open-fds:{key}", f"extraction of {name} ({outcome}) left open handles {list(new.values())[:4]}", rep)
            self.fds = fd_table()
        th = self._new_threads()
        if th:
            rep.update(new_threads=[t.name for t in th])
            ctx.finding(f"residue:threads:{key}", f"extraction of {name} ({outcome}) left threads running: {[t.name for t in th][:4]}", rep)
            self.threads = {t.ident for t in threading.enumerate()}
        snap = globals_snapshot(self.world)
        diff = {k: (self.snap[k], snap[k]) for k in snap if snap[k] != self.snap[k]}
        if "aes_provider_patched" in diff:
            ctx.finding("aes-fallback-patch:permanent",
                        "after extracting an AES-encrypted PDF pypdf's fallback crypto provider stays patched for the rest "
                        f"of the process (patch_pypdf_fallback_aes is one-way); first seen after {name}", rep)
            diff.pop("aes_provider_patched")
            self.snap["aes_provider_patched"] = snap["aes_provider_patched"]
        if diff:
            rep.update(diff=diff)
            ctx.finding(f"residue:globals:{'+'.join(sorted(diff))}:{key}",
                        f"process-global state changed by the extraction of {name} ({outcome}): {diff}", rep)
            self.world.reset()
            self.snap.update({k: v for k, v in globals_snapshot(self.world).items() if k != "aes_provider_patched"})
        # interpreter / stdlib globals
        now = interp_snapshot()
        for f in now:
            if f in self.interp and now[f] != self.interp[f] and ("i", f) not in self.reported:
                self.reported.add(("i", f))
                r2 = dict(rep, field=f, before=self.interp[f], after=now[f])
                ctx.finding(f"residue:interpreter:{f}:{key}",
                            f"extraction of {name} ({outcome}) changed {f}: {self.interp[f]!r} -> {now[f]!r} and did not restore it", r2)
        # harness-side repair of what can be put back, so that one defect does not contaminate the later steps
        if now["sys.getrecursionlimit"] != self.interp.get("sys.getrecursionlimit", now["sys.getrecursionlimit"]):
            sys.setrecursionlimit(self.interp["sys.getrecursionlimit"])
        if now["os.getcwd"] != self.interp.get("os.getcwd", now["os.getcwd"]):
            os.chdir(self.interp["os.getcwd"])
        if now["tempfile.tempdir"] != self.interp.get("tempfile.tempdir", now["tempfile.tempdir"]):
            tempfile.tempdir = self.interp["tempfile.tempdir"]
        self.interp = interp_snapshot()
        # module-level / class-level state of the library itself
        lib = library_state()
        for k2, sig in lib.items():
            old_sig = self.lib.get(k2)
            if old_sig is None or sig == old_sig:
                continue
            mname, attr = k2
            if _allowed(mname, attr.split(".")[0]):
                if sig[0] == "c" and old_sig[0] == "c" and sig[1] == old_sig[1]:
                    continue          # same object, contents governed by the modelled discipline
                if attr == "_CHAR_MAP_PATCH_DEPTH":
                    continue          # value checked by globals_snapshot
            if ("l", k2) in self.reported:
                continue
            self.reported.add(("l", k2))
            r2 = dict(rep, module=mname, attribute=attr, before=old_sig, after=sig)
            ctx.finding(f"residue:library-global:{mname.split('.')[-1]}.{attr}:{key}",
                        f"extraction of {name} ({outcome}) changed module-level state {mname}.{attr}: {old_sig} -> {sig}", r2)
        self.lib = lib
        # scalar settings of the third-party packages the library imports
        tp = third_party_scalars()
        for k2, v in tp.items():
            if k2 in self.tp and self.tp[k2] != v and ("t", k2) not in self.reported:
                self.reported.add(("t", k2))
                ctx.finding(f"residue:third-party-config:{k2[0]}.{k2[1]}",
                            f"extraction of {name} ({outcome}) changed {k2[0]}.{k2[1]}: {self.tp[k2]!r} -> {v!r} and did not restore it",
                            dict(rep, setting=f"{k2[0]}.{k2[1]}", before=self.tp[k2], after=v))
        self.tp = tp
        # identity of pypdf's functions (monkeypatching of the third-party library)
        pid = pypdf_identities()
        changed = sorted(f"{m}.{a}" for (m, a), i in pid.items() if (m, a) in self.pypdf and self.pypdf[(m, a)] != i)
        if changed:
            aes_names = ("aes_ecb_encrypt", "aes_ecb_decrypt", "aes_cbc_encrypt", "aes_cbc_decrypt", "CryptAES")
            if all(any(x.endswith("." + n) or ("." + n + ".") in x for n in aes_names) for x in changed):
                ctx.finding("aes-fallback-patch:permanent",
                            "after extracting an AES-encrypted PDF pypdf's fallback crypto provider stays patched for the rest "
                            f"of the process (patch_pypdf_fallback_aes is one-way); first seen after {name}", dict(rep, changed=changed))
            else:
                ctx.finding(f"residue:pypdf-functions:{key}", f"extraction of {name} ({outcome}) left pypdf functions replaced: {changed[:6]}",
                            dict(rep, changed=changed))
        self.pypdf = pid
        for cname, (size, cap) in cache_sizes().items():
            over = (cap is not None and size > cap) or (cname == "_TYPE_REGISTRY" and size != self.registry)
            if over:
                rep.update(cache=cname, size=size, bound=cap if cap is not None else self.registry)
                ctx.finding(f"residue:cache-bound:{cname}", f"{cname} has {size} entries after the extraction of {name} "
                            f"(bound {cap if cap is not None else self.registry})", rep)


def damaged_variants(ctx, src: Path, thorough_extra=0):
    """Cheap damage at several offsets so that failures happen at different stages (header, directory,
    packed data, trailer): truncations, 8 flipped bytes, a zeroed block."""
    data = src.read_bytes()
    n = len(data)
    out = []
    for frac, tag in ((0.1, "trunc10"), (0.5, "trunc50"), (0.9, "trunc90")):
        out.append((f"{tag}", data[: max(1, int(n * frac))]))
    out.append(("trunc-8", data[: max(1, n - 8)]))
    offs = [40, n // 4, n // 2, (3 * n) // 4, max(0, n - 64)]
    offs += [ctx.rng.randrange(max(1, n - 8)) for _ in range(thorough_extra)]
    for o in offs:
        if o + 8 <= n:
            b = bytearray(data)
            for i in range(o, o + 8):
                b[i] ^= 0xFF
            out.append((f"flip8@{o}", bytes(b)))
    if n > 256:
        b = bytearray(data)
        b[n // 3: n // 3 + 64] = bytes(64)
        out.append((f"zero64@{n // 3}", bytes(b)))
    return out


def zip_member_variants(src: Path):
    """Structural damage of ZIP containers (docx/xlsx/pptx/odt/ods/odp/epub): the archive stays a valid ZIP, one XML
    member is cut in half / emptied / removed, so the failure happens late, inside the format's own walker."""
    import zipfile
    data = src.read_bytes()
    try:
        zin = zipfile.ZipFile(io.BytesIO(data))
        infos = zin.infolist()
    except Exception:  # noqa
        return []
    xml = [i for i in infos if i.filename.endswith((".xml", ".rels", ".xhtml", ".opf", ".html"))]
    if not xml:
        return []
    big = max(xml, key=lambda i: i.file_size)
    picks = list(dict.fromkeys([big.filename] + [i.filename for i in xml[:2]]))[:3]
    out = []
    try:
        members = {i.filename: zin.read(i.filename) for i in infos}
    except Exception:  # noqa   (encrypted / damaged member: not a template for structural damage)
        return []
    for victim in picks:
        for mode in ("half", "unclosed", "removed"):
            buf = io.BytesIO()
            with zipfile.ZipFile(buf, "w") as zout:
                for i in infos:
                    payload = members[i.filename]
                    if i.filename == victim:
                        if mode == "removed":
                            continue
                        payload = payload[: len(payload) // 2] if mode == "half" else payload.rstrip()[:-12]
                    zout.writestr(i, payload, compress_type=i.compress_type)
            out.append((f"zip:{victim}:{mode}", buf.getvalue()))
    return out


W_NS = "http://schemas.openxmlformats.org/wordprocessingml/2006/main"
M_NS_URI = "http://schemas.openxmlformats.org/officeDocument/2006/math"


def formula_xml(kind: str, n: int) -> str:
    """OMML formulas; kind 'radical' is Word's malformed shape: m:rad whose m:e holds only the opening bracket."""
    r = lambda t: f"<m:r><m:t>{t}</m:t></m:r>"
    if kind == "radical":
        body = "".join(f"<m:rad><m:radPr><m:degHide m:val=\"1\"/></m:radPr><m:deg/><m:e>{r('(')}</m:e></m:rad>"
                       + "".join(r(f"a{j}+") for j in range(6)) + r(f"b{i})") + r(f"+c{i}") for i in range(n))
    else:
        body = "".join(f"<m:f><m:num>{r('x' + str(i))}</m:num><m:den>{r('y')}</m:den></m:f>"
                       f"<m:sSup><m:e>{r('z')}</m:e><m:sup>{r(str(i))}</m:sup></m:sSup>" for i in range(n))
    return f'<m:oMath xmlns:m="{M_NS_URI}">{body}</m:oMath>'


def make_formula_docx(path: str, kind: str, nformulas: int):
    import zipfile
    paras = "".join(f"<w:p><w:r><w:t>formula {i}</w:t></w:r>{formula_xml(kind, 3).replace(' xmlns:m=' + chr(34) + M_NS_URI + chr(34), '')}</w:p>"
                    for i in range(nformulas))
    doc = (f'<?xml version="1.0" encoding="UTF-8" standalone="yes"?><w:document xmlns:w="{W_NS}" xmlns:m="{M_NS_URI}">'
           f"<w:body>{paras}</w:body></w:document>")
    ct = ('<?xml version="1.0" encoding="UTF-8"?><Types xmlns="http://schemas.openxmlformats.org/package/2006/content-types">'
          '<Default Extension="rels" ContentType="application/vnd.openxmlformats-package.relationships+xml"/>'
          '<Default Extension="xml" ContentType="application/xml"/>'
          '<Override PartName="/word/document.xml" ContentType="application/vnd.openxmlformats-officedocument.wordprocessingml.document.main+xml"/></Types>')
    rels = ('<?xml version="1.0" encoding="UTF-8"?><Relationships xmlns="http://schemas.openxmlformats.org/package/2006/relationships">'
            '<Relationship Id="rId1" Type="http://schemas.openxmlformats.org/officeDocument/2006/relationships/officeDocument" Target="word/document.xml"/></Relationships>')
    with zipfile.ZipFile(path, "w", zipfile.ZIP_DEFLATED) as z:
        z.writestr("[Content_Types].xml", ct)
        z.writestr("_rels/.rels", rels)
        z.writestr("word/document.xml", doc)


def all_code_objects(module):
    """code objects of every function / method / nested function defined in a module"""
    import types
    seen, out = set(), []

    def rec(code):
        if id(code) in seen:
            return
        seen.add(id(code))
        out.append(code)
        for c in code.co_consts:
            if isinstance(c, types.CodeType):
                rec(c)
    for v in vars(module).values():
        if isinstance(v, types.FunctionType) and v.__module__ == module.__name__:
            rec(v.__code__)
        elif isinstance(v, type) and v.__module__ == module.__name__:
            for cv in vars(v).values():
                f = getattr(cv, "__func__", cv)
                if isinstance(f, types.FunctionType):
                    rec(f.__code__)
    return out


class LineGates(Gates):
    """Gates on EVERY line event of a set of code objects (generic controlled scheduler for pure functions)."""

    def __init__(self, codes):
        super().__init__(None, {})
        self.codes = {id(c) for c in codes}
        self._keep = codes

    def tracer(self, tid):
        def local(frame, event, arg):
            if event == "line":
                self._park(tid, "L")
            return local

        def glob(frame, event, arg):
            return local if id(frame.f_code) in self.codes else None
        return glob


def gated_pure_function_check(ctx, tag, module, calls, expected, runs, burst=(1, 40)):
    """Interleave k threads calling pure library functions at LINE granularity under seeded random schedules;
    every result must equal the sequential one (results independent of concurrent work)."""
    codes = all_code_objects(module)
    rng = ctx.rng
    for run_no in range(runs):
        k = len(calls)
        gates = LineGates(codes)
        out = [None] * k

        def worker(tid):
            err = None
            sys.settrace(gates.tracer(tid))
            try:
                out[tid] = calls[tid]()
            except BaseException as e:  # noqa
                out[tid] = "exc:" + type(e).__name__
            finally:
                sys.settrace(None)
                gates.finish(tid, err)
        ths = [threading.Thread(target=worker, args=(t,), daemon=True) for t in range(k)]
        for t in ths:
            t.start()
        gates.wait_settled(range(k))
        sched = []
        steps = 0
        while steps < 200000:
            with gates.cv:
                live = [t for t in range(k) if t not in gates.done]
            if not live:
                break
            tid = rng.choice(live)
            b = rng.randint(*burst)
            sched.append((tid, b))
            for _ in range(b):
                if not gates.grant(tid):
                    break
                steps += 1
        for t in ths:
            t.join(timeout=5)
        ctx.case((tag, run_no, tuple(sched[:50])), True, kind=f"line-gated:{tag}")
        if out != expected:
            bad = [i for i in range(k) if out[i] != expected[i]]
            ctx.finding(f"concurrent-interference:{tag}",
                        f"{tag}: thread {bad[0]} of {k} concurrent calls returns {str(out[bad[0]])[:120]!r}, alone it returns "
                        f"{str(expected[bad[0]])[:120]!r} (line-level schedule, run {run_no})",
                        {"schedule(thread,lines)": sched[:400], "got": out, "expected": expected, "threads": k})
            return False
    return True


def formula_concurrency_checks(ctx, tmpdocs, base_docs):
    """m:rad malformed-radical formulas converted while other threads convert formulas: (1) omml_to_latex itself
    under line-gated random schedules, (2) generated DOCX documents under sys.setswitchinterval(1e-6)."""
    from xml.etree import ElementTree as ET
    from sharepoint2text.parsing.extractors.util import omml_to_latex as om
    rad = ET.fromstring(formula_xml("radical", 2))
    frac = ET.fromstring(formula_xml("plain", 4))
    calls = [lambda: om.omml_to_latex(rad), lambda: om.omml_to_latex(frac), lambda: om.omml_to_latex(rad)]
    expected = [c() for c in calls]
    ctx.extra["formula_expected"] = expected[0][:80]
    gated_pure_function_check(ctx, "omml_to_latex", om, calls, expected, runs=ctx.n(8, 40))
    # documents, pre-emptively
    docs = [d for d in base_docs if "formula_" in d]
    if docs:
        sw = sys.getswitchinterval()
        sys.setswitchinterval(1e-6)
        mism, lock = [], threading.Lock()
        try:
            def work(seed):
                for i in range(ctx.n(16, 150)):
                    d = docs[(i + seed) % len(docs)]
                    got = extract_digest(d)
                    if got != base_docs[d]:
                        with lock:
                            mism.append((d, got))
            ths = [threading.Thread(target=work, args=(t,)) for t in range(4)]
            for t in ths:
                t.start()
            for t in ths:
                t.join()
        finally:
            sys.setswitchinterval(sw)
        ctx.case(("formula-docs-preemptive", len(docs)), True, kind="preemptive-formula-docs")
        if mism:
            d, got = mism[0]
            ctx.finding(f"concurrent-interference:{Path(d).name}",
                        f"{Path(d).name} (OMML formulas) extracted while 3 other threads extract formula documents gives {got}, "
                        f"isolated baseline {base_docs[d]} ({len(mism)} occurrences)",
                        {"document": d, "got": got, "baseline": base_docs[d], "threads": 4, "switchinterval": 1e-6})


_IMPORT_ORDER_SNIPPET = r"""
import sys, json, io, os, logging
logging.disable(logging.CRITICAL)
sys.path.insert(0, '/verif/tools'); sys.path.insert(0, '/verif/tools/props')
import mimetypes
mimetypes.init()
import c15, sharepoint2text
from sharepoint2text.parsing import router
job = json.loads(sys.stdin.read())
def probe():
    out = {}
    for nm in job['names']:
        try:
            sup = router.is_supported_file(nm)
        except Exception as e:
            sup = 'exc:' + type(e).__name__
        try:
            f = router.get_extractor(nm); ex = f.__module__.split('.')[-1] + '.' + f.__name__
        except Exception as e:
            ex = 'exc:' + type(e).__name__
        out[nm] = [sup, ex]
    for nm, path in job['files'].items():
        out['read_file:' + nm] = c15.extract_digest(path)
    return out
before_state = c15.interp_snapshot(strict_only=True)
before = probe()
used = {}
for path in job['use']:
    used[os.path.basename(path)] = c15.extract_digest(path)
after = probe()
after_state = c15.interp_snapshot(strict_only=True)
print('RESULT' + json.dumps({'before': before, 'after': after, 'used': used,
      'state_diff': {k: [repr(before_state[k]), repr(after_state[k])] for k in before_state if before_state[k] != after_state[k]}}))
"""


def import_order_checks(ctx, fx, tmpdocs, damaged_files):
    """(c) For every lazily imported extractor module: in a FRESH interpreter, router decisions and read_file results
    for extension-routed, MIME-routed and generic names are taken BEFORE and AFTER the module's first use (one good
    and one failing document); they must not change and must agree across all orders.  The strict part of the
    interpreter snapshot (recursion limit, mimetypes tables, locale, environ, cwd, ...) is compared as well."""
    from concurrent.futures import ThreadPoolExecutor
    from sharepoint2text.parsing import router
    names = ["app.log", "conf.yaml", "conf.yml", "setup.ini", "setup.cfg", "nginx.conf", "a.xml", "a.py", "a.unknownext",
             "noext", "a.txt", "a.csv", "a.json", "a.md", "a.htm", "a.svg", "a.js", "a.css", "a.sh", "a.c", "a.ics", "a.vcf",
             "a.docx", "a.pdf", "a.tar.gz", "a.odt", "a.eml", "A.LOG", "x.rtf", "a.bat", "a.tex"]
    files = {}
    for nm, content in (("app.log", b"2024-01-01 INFO started\n"), ("conf.yaml", b"a: 1\nb: [1, 2]\n"), ("setup.cfg", b"[x]\ny=1\n"),
                        ("nginx.conf", b"server { listen 80; }\n"), ("notes.txt", b"hello\n"), ("page.xml", b"<a>1</a>\n")):
        pth = Path(tmpdocs) / ("probe_" + nm)
        pth.write_bytes(content)
        files[nm] = str(pth)
    deep = Path(tmpdocs) / "probe_deep.html"
    deep.write_bytes(b"<html><body>" + b"<div>" * 1500 + b"deep" + b"</div>" * 1500 + b"</body></html>")
    files["deep.html"] = str(deep)
    by_module = {}
    for p in fx:
        try:
            f = router.get_extractor(p)
        except Exception:  # noqa
            continue
        by_module.setdefault(f.__module__, []).append(p)
    jobs = [("<nothing>", [])]
    for mod, ps in sorted(by_module.items()):
        ps = sorted(ps, key=lambda q: os.path.getsize(q))
        bad = [d for d in damaged_files if Path(d).suffix == Path(ps[0]).suffix][:2]
        jobs.append((mod.split(".")[-1], [ps[0]] + bad))

    def one(job):
        tag, use = job
        p = subprocess.run([sys.executable, "-c", _IMPORT_ORDER_SNIPPET], text=True, capture_output=True, timeout=300,
                           input=json.dumps({"names": names, "files": files, "use": use}), env=dict(os.environ))
        m = re.search(r"RESULT(.*)", p.stdout)
        return tag, use, (json.loads(m.group(1)) if m else {"error": p.stderr[-400:]})
    with ThreadPoolExecutor(max_workers=16) as ex:
        results = list(ex.map(one, jobs))
    ref = None
    broken = []
    router_hits, state_hits = [], {}
    probe_files = sorted(files)
    for tag, use, r in results:
        if "error" in r:
            broken.append(f"{tag}: {r['error'][-150:]}")
            continue
        if ref is None:
            ref = r["before"]          # job <nothing>: no extraction at all before the first probe
        ctx.case(("import-order", tag, tuple(Path(u).name for u in use)), True, kind="import-order")
        for which in ("before", "after"):
            diff = {k: (ref[k], r[which][k]) for k in ref if r[which][k] != ref[k]}
            if diff:
                router_hits.append((len(use), which, tag, use, diff))
                break
        for f0, (a, b) in r["state_diff"].items():
            state_hits.setdefault(f0, []).append((len(use), tag, use, r["used"], a, b))
    if router_hits:
        n, which, tag, use, diff = min(router_hits, key=lambda x: (x[0], x[2]))
        k0 = sorted(diff)[0]
        hist = [Path(u).name for u in use] if (use and which == "after") or use else [f"read_file({x})" for x in probe_files]
        ctx.finding("history-dependent:router/generic-names",
                    f"in a fresh process {k0} gives {diff[k0][1]} after the history {hist}, and {diff[k0][0]} with no prior "
                    f"extraction ({len(diff)} probes differ: {sorted(diff)[:6]}; {len(router_hits)} of {len(results)} orders affected)",
                    {"fresh_process": True, "history": use or [files[x] for x in probe_files], "then_probe": sorted(diff),
                     "differences": diff, "orders_affected": sorted(x[2] for x in router_hits)})
    for f0, hits in state_hits.items():
        n, tag, use, used, a, b = min(hits, key=lambda x: (x[0], x[1]))
        ctx.finding(f"residue:interpreter:{f0}:first-use",
                    f"in a fresh process the extraction of {[Path(u).name for u in use] or ['the probe files ' + str(probe_files)]} "
                    f"(outcomes {used}) changed {f0}: {a[:90]} -> {b[:90]} ({len(hits)} of {len(results)} orders affected)",
                    {"fresh_process": True, "extract": use or [files[x] for x in probe_files], "outcomes": used, "before": a, "after": b,
                     "orders_affected": sorted(h[1] for h in hits)})
    ctx.obligation("import-order-subprocesses-completed", not broken, "; ".join(broken[:3]))


def guarded_digest(path, data, timeout=60.0):
    """extract_digest under a watchdog: a hostile input must not be able to hang the check (the looping thread
    cannot be killed; the caller stops feeding damaged inputs when this returns 'hang')"""
    box = []
    t = threading.Thread(target=lambda: box.append(extract_digest(path, data)), daemon=True)
    t.start()
    t.join(timeout)
    return box[0] if box else "hang"


def damaged_input_checks(ctx, mon: ResidueMonitor, fx):
    """Failing (and accidentally still succeeding) inputs for every format that can be damaged cheaply; the
    residue is compared after each single extraction.  The same damaged input is extracted twice in a row:
    the outcome must not depend on the first attempt either."""
    want = ["test_archive.7z", "test_archive.zip", "sample.zip", "test_archive.tar.gz", "test_archive.tar",
            "headings.docx", "mwe.xlsx", "pptx_table.pptx", "sample_document.odt", "sample_spreadsheet.ods",
            "sample_presentation.odp", "sample.epub", "sample.pdf", "wirecard-annual-report-2018-page190.pdf",
            "basic_email.msg", "basic_email.eml", "basic_email.mbox", "headings.doc", "mwe.xls", "slide_with_notes.ppt",
            "2025.144.un.rtf", "sample.mhtml", "sample.html"]
    byname = {Path(p).name: Path(p) for p in fx}
    srcs = [byname[w] for w in want if w in byname]
    if ctx.tier == "thorough":
        srcs += [Path(p) for p in fx if Path(p).name not in want and Path(p).stat().st_size < 400_000]
    kinds = {}
    for src in srcs:
        variants = damaged_variants(ctx, src, thorough_extra=ctx.n(0, 6))
        if ctx.tier == "quick" and src.stat().st_size > 150_000:
            variants = variants[1::2]          # large sources: half of the variants in the quick tier
        if src.stat().st_size < 150_000 or ctx.tier == "thorough":
            variants += zip_member_variants(src)
        for tag, data in variants:
            name = f"{src.name}#{tag}"
            path = "damaged/" + src.name
            replay = {"source_fixture": str(src), "damage": tag, "size": len(data),
                      "how": "tools/props/c15.py damaged_variants(); extract with get_extractor(name)(io.BytesIO(data), name)"}
            if len(data) <= 4096:
                replay["data"] = data
            first = guarded_digest(path, data)
            if first == "hang":
                # liveness on hostile input is C12's subject; the looping thread holds state, so stop this phase here
                ctx.count("damaged:hang-watchdog-stopped-phase")
                ctx.extra["damaged_hang"] = name
                ctx.extra["damaged_inputs"] = kinds
                mon.threads = {t.ident for t in threading.enumerate()}
                return
            mon.step(name, first, replay, key=src.name)
            if tag.startswith("zip:") and ctx.tier == "quick":
                second = first
            else:
                second = extract_digest(path, data)
                mon.step(name, second, replay, key=src.name)
            if first != second:
                ctx.finding(f"history-dependent:{name}", f"damaged input {name} gives {first}, then {second} when extracted again",
                            dict(replay, first=first, second=second))
            k = f"damaged:{src.suffix or src.name}:{'fails' if first.startswith('exc:') else 'survives'}"
            kinds[k] = kinds.get(k, 0) + 1
            ctx.case(("damaged", name, first), True, kind=k)
    ctx.extra["damaged_inputs"] = kinds


# ============================================================================ other translators (memo sites)
def translate_rk(aes):
    """Shape of _get_round_keys: ('unlocked', gate_lines) | ('locked', {}) ; anything else raises."""
    src = Path(aes.__file__).read_text(encoding="utf-8")
    fn = [n for n in ast.parse(src).body if isinstance(n, ast.FunctionDef) and n.name == "_get_round_keys"]
    if len(fn) != 1:
        raise TranslateError("_get_round_keys not found")
    body = [s for s in fn[0].body if not (isinstance(s, ast.Expr) and isinstance(s.value, ast.Constant))]

    def plain(stmts):
        if len(stmts) != 6:
            return None
        a, b, c, d, e, f = stmts
        ok = (isinstance(a, ast.Assign) and ast.unparse(a.value) == "_ROUND_KEY_CACHE.get(key)"
              and isinstance(b, ast.If) and ast.unparse(b.test).endswith("is not None") and len(b.body) == 2
              and ast.unparse(b.body[0]) == "_ROUND_KEY_CACHE.move_to_end(key)" and isinstance(b.body[1], ast.Return)
              and not b.orelse
              and isinstance(c, ast.Assign) and ast.unparse(c.value) == "_expand_key(key)"
              and isinstance(d, ast.Assign) and ast.unparse(d.targets[0]) == "_ROUND_KEY_CACHE[key]"
              and isinstance(e, ast.If) and ast.unparse(e.test) == "len(_ROUND_KEY_CACHE) > _ROUND_KEY_CACHE_MAX"
              and len(e.body) == 1 and ast.unparse(e.body[0]) == "_ROUND_KEY_CACHE.popitem(last=False)" and not e.orelse
              and isinstance(f, ast.Return))
        if not ok:
            return None
        return {a.lineno: "RkGet", b.body[0].lineno: "RkMove", c.lineno: "RkExpandSet", e.lineno: "RkTrim"}

    g = plain(body)
    if g is not None:
        return "unlocked", g
    if (len(body) == 1 and isinstance(body[0], ast.With) and len(body[0].items) == 1
            and _is_name(body[0].items[0].context_expr)):
        lk = getattr(aes, body[0].items[0].context_expr.id, None)
        if hasattr(lk, "acquire") and hasattr(lk, "release") and plain(body[0].body) is not None:
            return "locked", {}
    raise TranslateError("_get_round_keys has an unknown shape")


def translate_font_key(pe):
    """Does the key of every _FONT_CACHE access in _ttf_get_glyph_features mention glyph_ids?"""
    src = Path(pe.__file__).read_text(encoding="utf-8")
    fn = [n for n in ast.parse(src).body if isinstance(n, ast.FunctionDef) and n.name == "_ttf_get_glyph_features"]
    if len(fn) != 1:
        raise TranslateError("_ttf_get_glyph_features not found")
    fn = fn[0]
    if [a.arg for a in fn.args.args] != ["font_data", "glyph_ids"]:
        raise TranslateError("unexpected signature of _ttf_get_glyph_features")
    defs = {}
    for n in ast.walk(fn):
        if isinstance(n, ast.Assign) and len(n.targets) == 1 and _is_name(n.targets[0]):
            defs.setdefault(n.targets[0].id, []).append(n.value)

    def names(e, depth=0):
        out = set()
        for n in ast.walk(e):
            if isinstance(n, ast.Name):
                out.add(n.id)
                if depth < 2 and n.id in defs and n.id not in ("font_data", "glyph_ids"):
                    for v in defs[n.id]:
                        out |= names(v, depth + 1)
        return out

    keys = []
    for n in ast.walk(fn):
        if isinstance(n, ast.Subscript) and _is_name(n.value, "_FONT_CACHE"):
            keys.append(n.slice)
        if isinstance(n, ast.Compare) and len(n.ops) == 1 and isinstance(n.ops[0], (ast.In, ast.NotIn)) \
                and _is_name(n.comparators[0], "_FONT_CACHE"):
            keys.append(n.left)
        if isinstance(n, ast.Call) and isinstance(n.func, ast.Attribute) and _is_name(n.func.value, "_FONT_CACHE"):
            if n.func.attr in ("get", "setdefault", "pop") and n.args:
                keys.append(n.args[0])
            else:
                raise TranslateError("unexpected _FONT_CACHE method " + n.func.attr)
    if not keys:
        return "nocache"
    has = [("glyph_ids" in names(k)) and ("font_data" in names(k)) for k in keys]
    if all(has):
        # fail closed: the only key shape known to determine the glyph-id list is (font_data, tuple(glyph_ids))
        def resolved(k):
            if _is_name(k) and k.id in defs and len(defs[k.id]) == 1:
                return ast.unparse(defs[k.id][0])
            return ast.unparse(k)
        shapes = {resolved(k) for k in keys}
        if shapes != {"(font_data, tuple(glyph_ids))"}:
            raise TranslateError(f"_FONT_CACHE key {sorted(shapes)} is not (font_data, tuple(glyph_ids))")
        return "keyed"
    if not any(has) and all(names(k) == {"font_data"} for k in keys):
        return "font-only"
    raise TranslateError("inconsistent _FONT_CACHE keys")


def translate_aes_open(pe):
    """How _open_pdf_reader installs the AES fallback: 'Eager' (top-level call before any PdfReader(...)),
    'OnEncrypted' (lazy handler + `if <reader>.is_encrypted: patch_pypdf_fallback_aes()` before the reader is
    returned) or 'Lazy' (only in the DependencyError handler)."""
    src = Path(pe.__file__).read_text(encoding="utf-8")
    fn = [n for n in ast.parse(src).body if isinstance(n, ast.FunctionDef) and n.name == "_open_pdf_reader"]
    if len(fn) != 1:
        raise TranslateError("_open_pdf_reader not found")
    is_patch = lambda st: isinstance(st, ast.Expr) and _call_name(st.value) == "patch_pypdf_fallback_aes" and not st.value.args
    if any(is_patch(st) for st in ast.parse(src).body):
        return "AtImport"         # module-level statement: installed once when pdf_extractor is imported
    body = fn[0].body
    seen_reader = False
    for st in body:
        if is_patch(st) and not seen_reader:
            return "Eager"
        if any(_call_name(n) == "PdfReader" for n in ast.walk(st)):
            seen_reader = True
    for k, st in enumerate(body):
        if (isinstance(st, ast.If) and not st.orelse and isinstance(st.test, ast.Attribute) and st.test.attr == "is_encrypted"
                and _is_name(st.test.value) and any(is_patch(x) for x in st.body)
                and all(isinstance(x, ast.Return) and _is_name(x.value, st.test.value.id) for x in body[k + 1:])
                and body[k + 1:]):
            # every path that returns this reader passes the test (the handler returns a reader opened AFTER patching)
            return "OnEncrypted"
    if any(_call_name(n) == "patch_pypdf_fallback_aes" for n in ast.walk(fn[0])):
        return "Lazy"
    raise TranslateError("_open_pdf_reader never installs the AES fallback")


# ============================================================================ helper: isolated baselines
_BASELINE_SNIPPET = r"""
import sys, json, logging
logging.disable(logging.CRITICAL)
sys.path.insert(0, %r); sys.path.insert(0, %r)
import c15
out = {}
for p in json.loads(sys.stdin.read()):
    out[p] = c15.extract_digest(p)
print('RESULT' + json.dumps(out))
"""


def isolated_baselines(paths, per_proc=1):
    """Digest of every document extracted in a FRESH interpreter (no history, no concurrency)."""
    from concurrent.futures import ThreadPoolExecutor
    chunks = [paths[i:i + per_proc] for i in range(0, len(paths), per_proc)]

    def one(chunk):
        p = subprocess.run([sys.executable, "-c", _BASELINE_SNIPPET % (str(common.VERIF / "tools"), str(common.VERIF / "tools" / "props"))], input=json.dumps(chunk), text=True,
                           capture_output=True, timeout=300, env=dict(os.environ))
        m = re.search(r"RESULT(.*)", p.stdout)
        if not m:
            return {c: "baseline-failed:" + p.stderr[-200:] for c in chunk}
        return json.loads(m.group(1))

    res = {}
    with ThreadPoolExecutor(max_workers=16) as ex:
        for r in ex.map(one, chunks):
            res.update(r)
    return res


_MAKE_DOCS_SNIPPET = r"""
import sys, io, re, json, logging
logging.disable(logging.CRITICAL)
import pypdf
from sharepoint2text.parsing.extractors.pdf._pypdf_aes_fallback import patch_pypdf_fallback_aes
src, outdir = sys.argv[1], sys.argv[2]
made = {}
# (a) same embedded font program, fewer code points mapped to NUL in /ToUnicode
rd = pypdf.PdfReader(src)
w = pypdf.PdfWriter(clone_from=rd)
n = 0
for page in w.pages:
    for name, f in page['/Resources']['/Font'].items():
        f = f.get_object()
        tu = f.get('/ToUnicode')
        if tu is None:
            continue
        st = tu.get_object()
        data = st.get_data()
        parts = data.split(b'<0000>\n')
        if len(parts) > 4:
            keep = 3          # keep the first three NUL mappings, give the others a letter
            new = b'<0000>\n'.join(parts[:keep + 1]) + b'<0058>\n' + b'<0058>\n'.join(parts[keep + 1:])
            st.set_data(new)
            n += 1
if n:
    w.write(outdir + '/font_variant.pdf'); made['font_variant'] = outdir + '/font_variant.pdf'
# (b) tiny AES-encrypted PDFs with an empty user password (needs the fallback patch in THIS process)
try:
    from pypdf.generic import DictionaryObject, NameObject, DecodedStreamObject
    patch_pypdf_fallback_aes()
    for alg in ('AES-128', 'AES-256'):
        w = pypdf.PdfWriter()
        for pno in range(3):
            page = w.add_blank_page(300, 200)
            font = DictionaryObject({NameObject('/Type'): NameObject('/Font'), NameObject('/Subtype'): NameObject('/Type1'),
                                     NameObject('/BaseFont'): NameObject('/Helvetica')})
            page[NameObject('/Resources')] = DictionaryObject(
                {NameObject('/Font'): DictionaryObject({NameObject('/F1'): w._add_object(font)})})
            st = DecodedStreamObject()
            st.set_data(b'BT /F1 12 Tf 20 100 Td (Isolation test 12345 page %d ' % pno + alg.encode() + b') Tj ET')
            page[NameObject('/Contents')] = w._add_object(st)
        w.encrypt(user_password='', owner_password='owner', algorithm=alg)
        p = outdir + '/enc_' + alg.lower() + '.pdf'
        w.write(p); made['enc_' + alg.lower()] = p
        # the same security handler spelled differently: the crypt filter may have any name (it is resolved
        # through /StmF and /StrF); same-length renaming keeps the xref valid
        raw = open(p, 'rb').read()
        if raw.count(b'/StdCF') >= 3 and (alg == 'AES-128' or sys.argv[3] == 'thorough'):
            for j, nm in enumerate((b'/AESCF', b'/MyCF1') if sys.argv[3] == 'thorough' else (b'/AESCF',)):
                q = outdir + '/enc_' + alg.lower() + '_cf-renamed%d.pdf' % j
                open(q, 'wb').write(raw.replace(b'/StdCF', nm)); made['enc_' + alg.lower() + '_cf-renamed%d' % j] = q
    # RC4 security handlers (no AES needed at all)
    for alg in ('RC4-128', 'RC4-40'):
        w = pypdf.PdfWriter(clone_from=pypdf.PdfReader(outdir + '/enc_aes-128.pdf'))
        w.encrypt(user_password='', owner_password='owner', algorithm=alg)
        p = outdir + '/enc_' + alg.lower() + '.pdf'
        w.write(p); made['enc_' + alg.lower()] = p
except Exception as e:
    made['enc_error'] = repr(e)
print('RESULT' + json.dumps(made))
"""


def make_documents(src_pdf: str, outdir: str, tier: str = "quick"):
    p = subprocess.run([sys.executable, "-c", _MAKE_DOCS_SNIPPET, src_pdf, outdir, tier], text=True, capture_output=True,
                       timeout=300, env=dict(os.environ))
    m = re.search(r"RESULT(.*)", p.stdout)
    return json.loads(m.group(1)) if m else {"error": p.stderr[-400:]}



# ============================================================================ interpreter / stdlib / library globals
def _hd(d):
    """cheap fingerprint of a flat dict / list of hashables (within one process)"""
    try:
        return (len(d), hash(frozenset(d.items())) if isinstance(d, dict) else hash(tuple(d)))
    except TypeError:
        return _h(d)


def _h(x):
    return hashlib.sha1(repr(sorted(x.items()) if isinstance(x, dict) else x).encode("utf-8", "backslashreplace")).hexdigest()[:12]


def interp_snapshot(strict_only=False):
    """Every piece of interpreter / stdlib global state an extraction could plausibly touch.
    (codecs search functions are not inspectable from Python: covered by the ast inventory only.)"""
    import csv, decimal, locale, logging, mimetypes, signal, socket, warnings
    from xml.etree import ElementTree as ET
    s = {}
    s["sys.getrecursionlimit"] = sys.getrecursionlimit()
    s["sys.path"] = _h(list(sys.path))
    s["sys.get_int_max_str_digits"] = sys.get_int_max_str_digits() if hasattr(sys, "get_int_max_str_digits") else None
    s["sys.std-streams/hooks"] = (id(sys.stdout), id(sys.stderr), id(sys.stdin), id(sys.excepthook), id(threading.excepthook),
                                  id(sys.displayhook))
    s["mimetypes.inited"] = mimetypes.inited
    for nm in ("types_map", "common_types", "suffix_map", "encodings_map"):
        s["mimetypes." + nm] = _hd(getattr(mimetypes, nm))
    db = mimetypes._db
    if db is not None:
        s["mimetypes._db"] = (_hd(db.types_map[0]), _hd(db.types_map[1]), _hd(db.suffix_map), _hd(db.encodings_map))
    s["locale.setlocale(LC_ALL)"] = locale.setlocale(locale.LC_ALL)
    s["os.environ"] = _hd(dict(os.environ))
    s["os.getcwd"] = os.getcwd()
    s["tempfile.tempdir"] = tempfile.tempdir
    s["socket.getdefaulttimeout"] = socket.getdefaulttimeout()
    s["logging.root"] = (logging.root.level, tuple(id(h) for h in logging.root.handlers), logging.root.manager.disable,
                         id(logging.getLoggerClass()), logging.raiseExceptions)
    s["decimal.getcontext"] = repr(decimal.getcontext())
    try:
        s["signal.handlers"] = tuple(id(signal.getsignal(sg)) if callable(signal.getsignal(sg)) else signal.getsignal(sg)
                                     for sg in range(1, signal.NSIG) if sg not in (32, 33))
    except Exception:  # noqa
        s["signal.handlers"] = None
    s["csv.field_size_limit"] = csv.field_size_limit()
    s["csv.list_dialects"] = tuple(sorted(csv.list_dialects()))
    s["gc"] = (gc.isenabled(), gc.get_threshold())
    m = os.umask(0)
    os.umask(m)
    s["os.umask"] = m
    if strict_only:
        return s
    # touched legitimately by the FIRST import of third-party parsers; compared once everything is warm
    s["warnings.filters"] = _h([repr(f) for f in warnings.filters])
    s["ElementTree._namespace_map"] = _h(dict(ET._namespace_map))
    s["sys.getswitchinterval"] = sys.getswitchinterval()
    if "PIL.Image" in sys.modules:
        s["PIL.Image.MAX_IMAGE_PIXELS"] = sys.modules["PIL.Image"].MAX_IMAGE_PIXELS
    return s


# module-level objects of the library that extraction calls are ALLOWED to change, with the discipline that is
# modelled / proved for them (everything else must be bit-identical after every extraction)
LIB_MUTABLE_ALLOW = {
    ("pdf.pdf_extractor", "_FONT_CACHE"): "memo table keyed by (font program, glyph ids): C15_font_cache_keyed_transparent",
    ("pdf._pypdf_aes_fallback", "_ROUND_KEY_CACHE"): "memo table <= 4 under _ROUND_KEY_CACHE_LOCK: C15_round_keys_atomic_is_memo",
    ("extractors.serialization", "_TYPE_REGISTRY"): "idempotent lazy fill (size must not change once filled)",
    ("pdf.pdf_extractor", "_CHAR_MAP_PATCH_ORIGINALS"): "lock + user counter: C15_patch_restored (checked to be [] at rest)",
    ("pdf.pdf_extractor", "_CHAR_MAP_PATCH_DEPTH"): "lock + user counter: C15_patch_restored (checked to be 0 at rest)",
    ("extractors.archive_extractor", "_config"): "rebound only by the public configure_archive_extraction() API",
}
# memoised functions and why they are functions of their key alone (hypothesis `f` of C15_memo_transparent); a new
# lru_cache site is not a memo cell until it is argued here
LRU_PURE = {
    ("archive_extractor", "_get_router_functions"): "no argument, returns two module-level functions",
    ("archive_extractor", "_is_supported_file_cached"): "router decision for a NAME: registry tables + mimetypes database (oracle: the "
                                                        "application does not edit the mimetypes database between extractions)",
    ("archive_extractor", "_get_file_extractor_cached"): "same as _is_supported_file_cached",
    ("epub_extractor", "_guess_content_type"): "mimetypes.guess_type of a NAME (same oracle)",
    ("_shared", "guess_content_type"): "mimetypes.guess_type of a NAME (same oracle)",
}
# class of each allow-listed cell in the Coq store model (C15.Model.kind)
LIB_KIND = {"_FONT_CACHE": "(KMemo 4096)", "_ROUND_KEY_CACHE": "(KMemo 4)", "_TYPE_REGISTRY": "KLazy",
            "_CHAR_MAP_PATCH_ORIGINALS": "KProtocol", "_CHAR_MAP_PATCH_DEPTH": "KProtocol", "_config": "KConfig"}
_CONTAINERS = (dict, list, set, bytearray)


def _allowed(mname, attr):
    return any(mname.endswith(m) and attr == a for (m, a) in LIB_MUTABLE_ALLOW)


def _sig(v, deep):
    import collections
    import types
    t = type(v)
    if t is types.FunctionType or t is type or t is types.BuiltinFunctionType:
        return ("f", id(v))
    if t is types.ModuleType:
        return ("m", v.__name__)
    if v is None or isinstance(v, (bool, int, float)):
        return ("v", v)
    if isinstance(v, (str, bytes)):
        return ("v", v if len(v) <= 64 else _h(v))
    if isinstance(v, (tuple, frozenset)):
        return ("t", len(v), _h(v) if (deep or len(v) <= 32) else None)
    if isinstance(v, _CONTAINERS) or isinstance(v, collections.deque):
        return ("c", id(v), len(v), _h(v) if (deep or len(v) <= 32) else None)
    if isinstance(v, types.ModuleType):
        return ("m", v.__name__)
    if hasattr(v, "cache_info") and hasattr(v, "__wrapped__"):
        return ("lru", id(v))
    if callable(v) or isinstance(v, type):
        return ("f", id(v))
    cls = type(v)
    if (cls.__module__ or "").startswith("sharepoint2text") and hasattr(v, "__dict__"):
        return ("o", id(v), cls.__name__, _h({k: _sig(x, False) for k, x in vars(v).items()}))
    if hasattr(v, "locked"):
        return ("lock", id(v), v.locked())
    return ("x", id(v), cls.__name__)


_LIBMODS = (0, [])


def library_state(deep=False):
    """vars() of every loaded sharepoint2text module (and of the classes defined there): module-level / class-level
    scalars by value, containers by identity + size (+ content hash), functions / instances by identity (instances
    of library classes also by the state of their attributes)."""
    out = {}
    global _LIBMODS
    if _LIBMODS[0] != len(sys.modules):
        _LIBMODS = (len(sys.modules), [(n, m) for n, m in list(sys.modules.items())
                                       if m is not None and n.startswith("sharepoint2text") and ".tests" not in n])
    for mname, mod in _LIBMODS[1]:
        for k, v in list(vars(mod).items()):
            if k[:2] == "__":
                continue
            out[(mname, k)] = _sig(v, deep)
            if isinstance(v, type) and v.__module__ == mname:
                for ck, cv in list(vars(v).items()):
                    if not ck.startswith("__") and (isinstance(cv, _CONTAINERS) or cv is None or isinstance(cv, (int, str, float, bool))):
                        out[(mname, k + "." + ck)] = _sig(cv, deep)
    return out


def pypdf_identities():
    """identity of every module-level function / class (and of the methods of classes) of the loaded pypdf modules"""
    out = {}
    for mname, mod in list(sys.modules.items()):
        if mod is None or not (mname == "pypdf" or mname.startswith("pypdf.")):
            continue
        for k, v in list(vars(mod).items()):
            if callable(v):
                out[(mname, k)] = id(v)
                if isinstance(v, type) and (v.__module__ or "").startswith("pypdf._crypt"):
                    for ck, cv in list(vars(v).items()):
                        if callable(cv):
                            out[(mname, k + "." + ck)] = id(cv)
    return out


# ============================================================================ X: ast inventories over the whole library
GLOBAL_MUTATORS = {
    "mimetypes.add_type", "mimetypes.init", "sys.setrecursionlimit", "sys.setswitchinterval", "sys.settrace", "sys.setprofile",
    "sys.set_int_max_str_digits", "sys.path.append", "sys.path.insert", "sys.path.extend", "sys.path.remove",
    "threading.settrace", "threading.setprofile", "threading.stack_size",
    "locale.setlocale", "os.chdir", "os.putenv", "os.unsetenv", "os.umask", "os.environ.update", "os.environ.setdefault",
    "os.environ.pop", "os.environ.clear", "warnings.filterwarnings", "warnings.simplefilter", "warnings.resetwarnings",
    "warnings.catch_warnings",
    "logging.basicConfig", "logging.disable", "logging.setLoggerClass", "logging.captureWarnings", "logging.addLevelName",
    "signal.signal", "signal.alarm", "signal.setitimer", "socket.setdefaulttimeout", "random.seed", "random.setstate",
    "codecs.register", "codecs.register_error", "xml.etree.ElementTree.register_namespace", "csv.field_size_limit",
    "csv.register_dialect", "gc.disable", "gc.enable", "gc.set_threshold", "gc.freeze", "decimal.setcontext",
    "decimal.getcontext", "atexit.register", "importlib.reload", "faulthandler.enable", "resource.setrlimit", "time.tzset",
    "urllib.request.install_opener", "dotenv.load_dotenv", "tempfile.mkdtemp", "tempfile.mkstemp", "tempfile.mktemp",
    "tempfile.NamedTemporaryFile",
}
# site (file, enclosing def, callee) -> why it is harmless / which model covers it
GLOBAL_SITE_ALLOW = {
    ("parsing/extractors/pdf/pdf_extractor.py", "_patched_build_char_map", "setattr(<module>)"):
        "patch / restore of pypdf's char-map builder under lock + user counter (C15_patch_restored, skeleton obligation)",
    ("parsing/extractors/pdf/_pypdf_aes_fallback.py", "patch_pypdf_fallback_aes", "<module>.attr = ..."):
        "one-way AES fallback installation (known finding aes-fallback-patch:permanent; result neutrality: "
        "C15_aes_result_history_independent)",
    ("sharepoint_io/run_test_setup.py", "<module>", "dotenv.load_dotenv"): "developer script under __main__ guard, not library code",
}


def _library_files():
    root = common.REPO / "sharepoint2text"
    return root, [p for p in sorted(root.rglob("*.py")) if "tests" not in p.relative_to(root).parts]


def _aliases(tree):
    """name -> dotted thing it was imported as (module aliases and from-imports), anywhere in the file"""
    al = {}
    for n in ast.walk(tree):
        if isinstance(n, ast.Import):
            for a in n.names:
                al[a.asname or a.name.split(".")[0]] = a.name if a.asname else a.name.split(".")[0]
        elif isinstance(n, ast.ImportFrom) and n.module:
            for a in n.names:
                al[a.asname or a.name] = n.module + "." + a.name
    return al


def _dotted(node, al):
    parts = []
    while isinstance(node, ast.Attribute):
        parts.append(node.attr)
        node = node.value
    if not isinstance(node, ast.Name):
        return None, None
    base = al.get(node.id, None)
    parts.append(base if base else node.id)
    return ".".join(reversed(parts)), (node.id if base else None)


def _walk_with_context(tree):
    """yield (node, enclosing def name, inside `with warnings.catch_warnings()`, under `if __name__ == '__main__'`)"""
    def rec(node, fn, scoped, main):
        for ch in ast.iter_child_nodes(node):
            f2, s2, m2 = fn, scoped, main
            if isinstance(ch, (ast.FunctionDef, ast.AsyncFunctionDef)):
                f2 = ch.name if fn == "<module>" else fn + "." + ch.name
            if isinstance(ch, ast.With) and any("catch_warnings" in ast.unparse(i.context_expr) for i in ch.items):
                s2 = True
            if isinstance(ch, ast.If) and "__name__" in ast.unparse(ch.test) and "__main__" in ast.unparse(ch.test):
                m2 = True
            yield ch, f2, s2, m2
            yield from rec(ch, f2, s2, m2)
    yield from rec(tree, "<module>", False, False)


def global_mutation_inventory(ctx):
    """X-obligation: every call / assignment in the library that changes interpreter-wide, stdlib-wide or
    third-party-module state must be classified; an unclassified site fails closed."""
    root, files = _library_files()
    sites, unknown = [], []
    for p in files:
        rel = str(p.relative_to(root))
        tree = ast.parse(p.read_text(encoding="utf-8"))
        al = _aliases(tree)
        loopvars = {}
        for node, fn, scoped, main in _walk_with_context(tree):
            if isinstance(node, ast.For):
                for t in ast.walk(node.target):
                    if isinstance(t, ast.Name):
                        loopvars.setdefault(fn, set()).add(t.id)
        for node, fn, scoped, main in _walk_with_context(tree):
            callee = None
            if isinstance(node, ast.Call):
                d, _ = _dotted(node.func, al)
                if d in GLOBAL_MUTATORS or (d and d.replace("xml.etree.ElementTree", "ET") in GLOBAL_MUTATORS):
                    callee = d
                    if d.startswith("tempfile.") and not main:
                        # creating a temp object is only a problem when nothing removes it: it must be the context
                        # expression of a `with` (TemporaryDirectory / NamedTemporaryFile) - mkdtemp/mkstemp never are
                        callee = d
                elif isinstance(node.func, ast.Name) and node.func.id in ("setattr", "delattr") and node.args:
                    a0 = node.args[0]
                    if isinstance(a0, ast.Name) and (a0.id in al or a0.id in loopvars.get(fn, ())) and a0.id not in ("self", "cls"):
                        callee = "setattr(<module>)"
            elif isinstance(node, (ast.Assign, ast.AugAssign, ast.AnnAssign, ast.Delete)):
                tgts = node.targets if isinstance(node, (ast.Assign, ast.Delete)) else [node.target]
                for t in tgts:
                    base = t
                    while isinstance(base, (ast.Attribute, ast.Subscript)):
                        base = base.value
                    if isinstance(t, (ast.Attribute, ast.Subscript)) and isinstance(base, ast.Name) and base.id in al \
                            and "." not in al[base.id].replace("sharepoint2text.", "", 1)[:0] :
                        tgt = al[base.id]
                        # a module (import x / import x.y as z / from pkg import module); from-imported plain names of
                        # library classes / dataclass instances are not modules
                        is_mod = any(isinstance(n, ast.Import) and any((a.asname or a.name.split(".")[0]) == base.id for a in n.names)
                                     for n in ast.walk(tree)) or _is_module_name(tgt)
                        if is_mod:
                            callee = "os.environ[...] = ..." if ast.unparse(t).startswith(base.id + ".environ") else "<module>.attr = ..."
            if callee is None:
                continue
            cls = None
            # NOTE: `with warnings.catch_warnings()` is a save/restore of the interpreter-wide filter list that is only
            # correct for strictly nested (single-threaded) use - it is no classification; such sites need an entry in
            # GLOBAL_SITE_ALLOW naming the lock that serialises them
            if (rel, fn.split(".")[0], callee) in GLOBAL_SITE_ALLOW:
                cls = GLOBAL_SITE_ALLOW[(rel, fn.split(".")[0], callee)]
            elif main and (rel, "<module>", callee) in GLOBAL_SITE_ALLOW:
                cls = GLOBAL_SITE_ALLOW[(rel, "<module>", callee)]
            elif callee.startswith("tempfile.") and callee.endswith("NamedTemporaryFile"):
                cls = None
            sites.append((rel, node.lineno, fn, callee, cls))
            if cls is None:
                unknown.append(f"{rel}:{node.lineno} {fn}: {callee}")
    ctx.extra["global_mutation_sites"] = [f"{r}:{ln} {fn}: {c} -> {k}" for r, ln, fn, c, k in sites]
    ctx.obligation("X:inventory(global-mutating call sites are classified)", not unknown,
                   "unclassified site(s): " + "; ".join(unknown[:8]))
    return unknown


MUT_METHODS = {"append", "add", "update", "pop", "popitem", "clear", "setdefault", "extend", "insert", "remove", "discard",
               "move_to_end", "sort", "reverse", "appendleft", "popleft", "__setitem__", "__delitem__"}
IMMUTABLE_CALLS = {"frozenset", "tuple", "re.compile", "logging.getLogger", "struct.Struct", "str.maketrans", "min", "max", "int",
                   "float", "str", "bytes", "len", "threading.Lock", "threading.RLock", "TypeVar", "typing.TypeVar", "''.join",
                   "os.path.join", "Path", "pathlib.Path", "namedtuple", "collections.namedtuple", "object", "sum", "round",
                   "ET.QName", "bool", "os.environ.get", "os.getenv"}


def shared_mutable_inventory(ctx):
    """X-obligation: every module-level / class-level mutable object (or instance) in the library is either never
    mutated anywhere in the library (checked here on the ast: immutable-after-init; the ResidueMonitor re-checks the
    content at run time), or is on LIB_MUTABLE_ALLOW with a modelled discipline.  Anything else fails closed."""
    root, files = _library_files()
    trees = {str(p.relative_to(root)): ast.parse(p.read_text(encoding="utf-8")) for p in files}
    # names that are mutated somewhere (by any module): X[...] = / del X[...] / X.method() / X op= / global X; X = ...
    mutated, rebound = set(), set()
    classes = {}
    for rel, tree in trees.items():
        for n in ast.walk(tree):
            if isinstance(n, ast.ClassDef):
                classes[n.name] = (rel, n)
            tgts = []
            if isinstance(n, (ast.Assign, ast.Delete)):
                tgts = n.targets
            elif isinstance(n, (ast.AugAssign, ast.AnnAssign)):
                tgts = [n.target]
            for t in tgts:
                if isinstance(t, ast.Subscript):
                    b = t.value
                    nm = b.id if isinstance(b, ast.Name) else (b.attr if isinstance(b, ast.Attribute) else None)
                    if nm:
                        mutated.add(nm)
                if isinstance(n, ast.AugAssign) and isinstance(t, (ast.Name, ast.Attribute)):
                    mutated.add(t.id if isinstance(t, ast.Name) else t.attr)
            if isinstance(n, ast.Call) and isinstance(n.func, ast.Attribute) and n.func.attr in MUT_METHODS:
                b = n.func.value
                nm = b.id if isinstance(b, ast.Name) else (b.attr if isinstance(b, ast.Attribute) else None)
                if nm:
                    mutated.add(nm)
            if isinstance(n, ast.Global):
                rebound.update(n.names)
        # one level of aliasing inside a function: local = <shared name> ; local is then mutated
        for fn_ in ast.walk(tree):
            if not isinstance(fn_, (ast.FunctionDef, ast.AsyncFunctionDef)):
                continue
            alias = {}
            for n in ast.walk(fn_):
                if isinstance(n, ast.Assign) and len(n.targets) == 1 and isinstance(n.targets[0], ast.Name):
                    v = n.value
                    src_nm = v.id if isinstance(v, ast.Name) else (v.attr if isinstance(v, ast.Attribute) else None)
                    if src_nm:
                        alias[n.targets[0].id] = src_nm
            for n in ast.walk(fn_):
                b = None
                if isinstance(n, ast.Call) and isinstance(n.func, ast.Attribute) and n.func.attr in MUT_METHODS:
                    b = n.func.value
                elif isinstance(n, (ast.Assign, ast.AugAssign, ast.Delete)):
                    for t in (n.targets if isinstance(n, (ast.Assign, ast.Delete)) else [n.target]):
                        if isinstance(t, ast.Subscript):
                            b = t.value
                if isinstance(b, ast.Name) and b.id in alias:
                    mutated.add(alias[b.id])

    def class_is_immutable(cname):
        rel, c = classes[cname]
        for d in c.decorator_list:
            u = ast.unparse(d)
            if "dataclass" in u and "frozen=True" in u:
                return True
        for m in c.body:
            if isinstance(m, (ast.FunctionDef, ast.AsyncFunctionDef)) and m.name not in ("__init__", "__post_init__", "__new__"):
                for n in ast.walk(m):
                    tg = []
                    if isinstance(n, (ast.Assign, ast.Delete)):
                        tg = n.targets
                    elif isinstance(n, (ast.AugAssign, ast.AnnAssign)):
                        tg = [n.target]
                    for t in tg:
                        b = t
                        while isinstance(b, (ast.Attribute, ast.Subscript)):
                            b = b.value
                        if isinstance(t, (ast.Attribute, ast.Subscript)) and isinstance(b, ast.Name) and b.id in ("self", "cls"):
                            return False
                    if (isinstance(n, ast.Call) and isinstance(n.func, ast.Attribute) and n.func.attr in MUT_METHODS):
                        b = n.func.value
                        while isinstance(b, (ast.Attribute, ast.Subscript)):
                            b = b.value
                        if isinstance(b, ast.Name) and b.id in ("self", "cls"):
                            return False
        return True

    inv, bad, cells = [], [], []
    for rel, tree in trees.items():
        mod = rel[:-3].replace("/", ".")
        # memoised module-level functions are shared cells too
        for fdef in tree.body:
            if isinstance(fdef, ast.FunctionDef):
                for dec in fdef.decorator_list:
                    u = ast.unparse(dec)
                    if "lru_cache" in u or u in ("cache", "functools.cache"):
                        m_ = re.search(r"maxsize\s*=\s*(\d+)", u)
                        cap = int(m_.group(1)) if m_ else (128 if "(" not in u and "lru" in u else None)
                        if cap is None:
                            try:      # maxsize given by a named constant: ask the live function
                                live = getattr(importlib.import_module("sharepoint2text." + mod), fdef.name)
                                cap = live.cache_parameters()["maxsize"]
                            except Exception:  # noqa
                                cap = None
                        pure = LRU_PURE.get((mod.split(".")[-1], fdef.name))
                        cells.append((f"{mod}.{fdef.name}", f"(KMemo {min(cap, 4096)})" if (cap is not None and pure) else "KRaw"))
                        if cap is None:
                            bad.append(f"{rel}:{fdef.lineno} {fdef.name}: unbounded functools cache without a modelled discipline")
                        if not pure:
                            bad.append(f"{rel}:{fdef.lineno} {fdef.name}: memoised function is not on LRU_PURE - a memo table is transparent "
                                       "only for a function of its key alone (no cwd / file system / clock / environment dependence)")
        scopes = [("", tree.body)] + [(c.name + ".", c.body) for c in tree.body if isinstance(c, ast.ClassDef)]
        for prefix, body in scopes:
            is_dc = False
            if prefix:
                cdef = classes[prefix[:-1]][1]
                is_dc = any("dataclass" in ast.unparse(d) for d in cdef.decorator_list)
            for st in body:
                if not isinstance(st, (ast.Assign, ast.AnnAssign)) or st.value is None:
                    continue
                tg = st.targets[0] if isinstance(st, ast.Assign) else st.target
                if not isinstance(tg, ast.Name) or tg.id.startswith("__"):
                    continue
                v, kind = st.value, None
                if isinstance(v, (ast.Dict, ast.List, ast.Set, ast.DictComp, ast.ListComp, ast.SetComp)):
                    kind = "container"
                elif isinstance(v, ast.Call):
                    f = ast.unparse(v.func)
                    if f in IMMUTABLE_CALLS or (is_dc and f in ("field", "dataclasses.field")):
                        continue
                    if f in ("dict", "list", "set", "OrderedDict", "collections.OrderedDict", "defaultdict", "collections.defaultdict",
                             "deque", "collections.deque", "bytearray", "Counter", "collections.Counter"):
                        kind = "container"
                    elif f in classes:
                        kind = "instance:" + f
                    else:
                        kind = "call:" + f
                if kind is None:
                    continue
                name = prefix + tg.id
                if _allowed(mod, tg.id):
                    verdict = "allow-listed: " + next(d for (m, a), d in LIB_MUTABLE_ALLOW.items() if mod.endswith(m) and a == tg.id)
                elif kind == "container" and tg.id not in mutated and tg.id not in rebound:
                    verdict = "immutable-after-init (no mutating statement on this name anywhere in the library)"
                elif kind.startswith("instance:") and class_is_immutable(kind[9:]) and tg.id not in rebound:
                    verdict = "instance of a class whose methods never assign to self (immutable-after-init)"
                elif kind.startswith("call:") and tg.id not in mutated and tg.id not in rebound:
                    verdict = "result of a module-level call, never mutated or rebound"
                else:
                    verdict = None
                    bad.append(f"{rel}:{st.lineno} {name} ({kind}) is shared by all extractor calls and is mutated / mutable "
                               "without a modelled discipline")
                inv.append(f"{rel}:{st.lineno} {name} [{kind}] -> {verdict}")
                if verdict is None:
                    ck = "KRaw"
                elif not verdict.startswith("allow-listed"):
                    ck = "KConst"
                else:
                    ck = LIB_KIND.get(tg.id, "KRaw")
                cells.append((f"{mod}.{name}", ck))
    for g in sorted(rebound):
        if not any(a == g for (_, a) in LIB_MUTABLE_ALLOW):
            bad.append(f"`global {g}` rebinding without a modelled discipline")
            cells.append((f"global {g}", "KRaw"))
        elif not any(nm.endswith("." + g) for nm, _ in cells):
            cells.append((f"global {g}", LIB_KIND.get(g, "KRaw")))
    ctx.extra["_cells"] = cells
    ctx.extra["shared_mutable_inventory"] = len(inv)
    ctx.extra["shared_mutable_allowlisted"] = [x for x in inv if "allow-listed" in x]
    ctx.obligation("X:inventory(module/class-level mutable objects have a modelled discipline)", not bad, "; ".join(bad[:6]))
    return bad


# ============================================================================ the check
def gen_files(ctx, pe, aes):
    notes = {}
    try:
        sk = translate(pe)
        sk_term, sk_err = sk.coq(), None
    except TranslateError as e:
        sk, sk_term, sk_err = None, "[]", str(e)
    ctx.obligation("X:skeleton-translation(_patched_build_char_map)", sk is not None, sk_err or "")
    try:
        rk_shape, rk_gates = translate_rk(aes)
        rk_err = None
    except TranslateError as e:
        rk_shape, rk_gates, rk_err = "unknown", {}, str(e)
    ctx.obligation("X:shape-translation(_get_round_keys)", rk_err is None, rk_err or "")
    try:
        fk, fk_err = translate_font_key(pe), None
    except TranslateError as e:
        fk, fk_err = "unknown", str(e)
    ctx.obligation("X:key-translation(_FONT_CACHE)", fk_err is None, fk_err or "")
    try:
        aes_mode, aes_err = translate_aes_open(pe), None
    except TranslateError as e:
        aes_mode, aes_err = "unknown", str(e)
    ctx.obligation("X:translation(_open_pdf_reader)", aes_err is None, aes_err or "")
    try:
        ntargets = len(pe._get_pypdf_char_map_patcher()[0])
    except Exception:  # noqa
        ntargets = 0
    from sharepoint2text.parsing.extractors import archive_extractor as ae, epub_extractor as ep
    from sharepoint2text.parsing.extractors.open_office import _shared as oo
    lru = {"archive._is_supported_file_cached": ae._is_supported_file_cached,
           "archive._get_file_extractor_cached": ae._get_file_extractor_cached,
           "epub._guess_content_type": ep._guess_content_type,
           "open_office.guess_content_type": oo.guess_content_type}
    caps = {k: (v.cache_parameters()["maxsize"] if hasattr(v, "cache_parameters") else None) for k, v in lru.items()}
    txt = "(* GENERATED on every check run from the ast / live modules of the repo under test - do not edit. *)\n"
    txt += "From Coq Require Import List.\nImport ListNotations.\nFrom S2T Require Import C15.Model.\n\n"
    txt += f"(* pdf_extractor._patched_build_char_map, statement skeleton{' (TRANSLATION FAILED: ' + sk_err.replace('*)', '') + ')' if sk_err else ''} *)\n"
    txt += f"Definition skeleton : list instr :=\n  {sk_term}.\n\n"
    txt += f"Definition patch_targets : nat := {ntargets}.\n\n"
    txt += f"(* _pypdf_aes_fallback._get_round_keys: shape = {rk_shape} *)\n"
    txt += f"Definition rk_atomic : bool := {'true' if rk_shape == 'locked' else 'false'}.\n"
    txt += f"Definition round_key_cache_max : nat := {int(aes._ROUND_KEY_CACHE_MAX)}.\n\n"
    txt += f"(* pdf_extractor._ttf_get_glyph_features: _FONT_CACHE key = {fk} *)\n"
    txt += f"Definition font_key_has_gids : bool := {'true' if fk in ('keyed', 'nocache') else 'false'}.\n\n"
    txt += f"(* pdf_extractor._open_pdf_reader: AES fallback installation = {aes_mode} *)\n"
    txt += f"Definition aes_install_mode : aes_install := {aes_mode if aes_mode in ('Eager', 'OnEncrypted', 'AtImport') else 'Lazy'}.\n\n"
    txt += "(* functools.lru_cache capacities *)\n"
    txt += "Definition lru_caps : list nat := [" + "; ".join(str(int(c or 0)) for c in caps.values()) + "].\n"
    ctx.gen_write("Gen/C15Skeleton.v", txt)
    notes.update(aes_fallback=aes_mode, skeleton=sk_term, rk_shape=rk_shape, font_key=fk, patch_targets=ntargets, lru_caps=caps)
    return sk, rk_shape, rk_gates, fk, lru, notes


def sched_name(s):
    return "".join("AB CDEFG"[t] if t < 2 else "CDEFGH"[t - 2] for t in s)


def patch_protocol_checks(ctx, pe, sk, notes):
    world = PatchWorld(pe, sk)
    world.reset()
    # ---- schedules from the model (enumerated by Coq over the GENERATED skeleton)
    pre = "From Coq Require Import ZArith.\nFrom S2T Require Import C15.Model C15.Corr Gen.C15Skeleton.\nImport List ListNotations.\n"
    ks = [2] if ctx.tier == "quick" else [2, 3]
    runs = []
    for k in ks:
        ok, out = ctx.coq_eval(f"enum{k}", pre + f"Eval vm_compute in (enum_schedules {k} skeleton).\n", timeout=600)
        scheds = parse_schedules(out) if ok else None
        if scheds is None or any(999 in s for s in scheds):
            ctx.obligation(f"enumeration:k={k}", False, "could not enumerate schedules: " + out[-300:])
            continue
        ctx.obligation(f"enumeration:k={k}", True, f"{len(scheds)} maximal schedules")
        ctx.extra[f"schedules_k{k}"] = len(scheds)
        if k == 3 and len(scheds) > 12000:
            # exhaustive for the statements that touch shared state would take > 5 min serially: keep every
            # 3rd schedule in order plus a seeded sample of the rest
            keep = scheds[::3]
            rest = [s for i, s in enumerate(scheds) if i % 3]
            ctx.rng.shuffle(rest)
            scheds = keep + rest[: max(0, 14000 - len(keep))]
            ctx.extra["schedules_k3_replayed"] = len(scheds)
        for s in scheds:
            runs.append((0, k, s))
        if k == 2:
            for s in scheds:
                runs.append((2, k, s))        # after a history that left two foreign layers behind
    # the model's refuting schedules, always
    BAD = [0, 0, 0, 1, 1, 1, 0, 0, 1, 1]
    UNP = [0, 0, 0, 1, 1, 1, 0, 0, 1]
    runs = [(0, 2, BAD), (0, 2, UNP)] + runs
    # random fine-grained schedules with more threads (not enumerated)
    for _ in range(ctx.n(40, 400)):
        k = ctx.rng.randint(2, 6)
        s = [ctx.rng.randrange(k) for _ in range(ctx.rng.randint(4, 16 * k))]
        runs.append((ctx.rng.choice([0, 0, 1, 3]), k, s))
    cases, infos = [], []
    first = {}
    t0 = time.time()
    for layers, k, s in runs:
        obs, (seen_end, seen), errs, final, _ = run_schedule(world, k, s, layers=layers)
        switches = sum(1 for a, b in zip(s, s[1:]) if a != b)
        ctx.case(("sched", layers, k, tuple(s)), switches >= 1, kind=f"schedule:k={k}:layers={layers}")
        cases.append(f"({layers}, {k}, {coq_nat_list(s)}, {coq_obs(obs)}, "
                     + "[" + "; ".join(coq_nat_list(x) for x in seen_end) + "])")
        infos.append((layers, k, s, obs, seen))
        # property oracle = right-hand sides of C15_patch_restored / C15_patch_inside_wrapped, on the real globals
        # (the run is drained to completion by the harness, so `final` is the all-finished state)
        if errs:
            first.setdefault("error", (layers, k, s, errs))
        if final != (layers, 0, False):
            first.setdefault("unrestored", (layers, k, s, final))
        if any(d != layers + 1 for th in seen for d in th):
            first.setdefault("body-wrong-depth", (layers, k, s, seen))
    world.reset()
    ctx.extra["schedule_replay_s"] = round(time.time() - t0, 1)
    for kind, (layers, k, s, got) in first.items():
        ctx.finding(f"char-map-patch:{kind}",
                    f"patch/extract/restore protocol of _patched_build_char_map: {kind} under schedule {sched_name(s)} "
                    f"({k} threads, {layers} pre-existing layers): observed {got}",
                    {"schedule": s, "threads": k, "layers_before": layers, "observed": got,
                     "gates": {str(k_): v for k_, v in sk.line_label.items()},
                     "expected": f"after all threads left: depth {layers}, counter 0, lock free; every with-body sees depth {layers + 1}",
                     "replay": "tools/props/c15.py: run_schedule(PatchWorld(pe, translate(pe)), threads, schedule, layers=layers_before)"})
    okc, failing, log = coq_eval_shards(ctx, "corr", pre, "(corr_case skeleton)", cases, shard=400,
                                        ty="nat * nat * list nat * list obs * list (list nat)")
    ctx.traces += len(cases)
    ctx.disagreements += len(failing)
    ctx.obligation("correspondence:model(skeleton)==real context manager, observation after every statement",
                   okc and not failing,
                   (f"{len(failing)} disagreements, first: {infos[failing[0]] if failing else ''} " + log)[:1500])
    return world


def real_pdf_interference(ctx, world, pdf_path, baseline):
    """Two (and three) threads extracting the same real PDF under controlled schedules: every digest must equal
    the isolated baseline; afterwards pypdf's function must be the original again."""
    data = Path(pdf_path).read_bytes()
    scheds = [[0, 0, 0, 1, 1, 1, 0, 0, 1, 1], [0, 0, 0, 1, 1, 1, 0, 0, 1], [0, 1] * 14, [1, 0, 0, 1, 1, 0] * 6]
    for _ in range(ctx.n(6, 40)):
        scheds.append([ctx.rng.randrange(2) for _ in range(30)])
    for s in scheds:
        obs, seen, errs, final, res = run_schedule(world, 2, s, work=lambda tid: extract_digest(pdf_path, data))
        ctx.case(("real-pdf", tuple(s)), True, kind="real-pdf-schedule")
        bad = [r for r in res if r != baseline]
        if bad or final[0] != 0:
            ctx.finding("char-map-patch:real-pdf-interference",
                        f"two threads extracting {Path(pdf_path).name} under schedule {sched_name(s)}: digests {res} vs isolated "
                        f"baseline {baseline}; pypdf build_char_map nesting depth afterwards {final[0]}",
                        {"document": pdf_path, "schedule": s, "digests": res, "baseline": baseline, "final": final})
            break
    world.reset()


def memo_checks(ctx, pe, aes, lru, rk_shape, rk_gates, fk):
    rng = ctx.rng
    # ---- lru_cache sites: cached == uncached for random histories (theorem C15_memo_transparent)
    names = ["a.docx", "b.pdf", "c.unknown", "d.tar.gz", "x/y.png", "z.JPG", "noext", "img.svg", "a.xhtml", "t.css", ""]
    for nm, fnc in lru.items():
        if not hasattr(fnc, "__wrapped__"):
            ctx.count("lru:not-a-cache")
            continue
        fnc.cache_clear()
        for _ in range(ctx.n(300, 3000)):
            a = rng.choice(names) + rng.choice(["", "", ".bak", "2"])

            def call(f):
                try:
                    r = f(a)
                    return ("ok", getattr(r, "__name__", r))
                except Exception as e:  # noqa
                    return ("exc", type(e).__name__)
            got, want = call(fnc), call(fnc.__wrapped__)
            ctx.case(("lru", nm, a), True, kind="lru")
            info = fnc.cache_info()
            if got != want or (info.maxsize is not None and info.currsize > info.maxsize):
                ctx.finding(f"lru-not-transparent:{nm}", f"{nm}({a!r}) cached {got} != uncached {want} / size {info}",
                            {"site": nm, "arg": a, "cached": got, "uncached": want})
        fnc.cache_clear()
    # ---- _get_round_keys sequentially: result == _expand_key, table == model (key order), size <= MAX
    pool = [bytes([i]) * ln for i, ln in [(1, 16), (2, 16), (3, 24), (4, 32), (5, 16), (6, 32), (7, 24)]]
    cases = []
    for _ in range(ctx.n(60, 600)):
        aes._ROUND_KEY_CACHE.clear()
        hist = [rng.randrange(len(pool)) for _ in range(rng.randint(1, 14))]
        ok = True
        for i in hist:
            r = aes._get_round_keys(pool[i])
            ok = ok and r == aes._expand_key(pool[i]) and len(aes._ROUND_KEY_CACHE) <= aes._ROUND_KEY_CACHE_MAX
        order = [pool.index(k) for k in aes._ROUND_KEY_CACHE.keys()]
        ctx.case(("rk-seq", tuple(hist)), len(hist) >= 2, kind="round-keys:sequential")
        if not ok:
            ctx.finding("round-key-cache:sequential", f"_get_round_keys differs from _expand_key / exceeds its bound after {hist}",
                        {"history": hist})
        cases.append(f"({coq_nat_list(hist)}, {coq_nat_list(order)})")
    aes._ROUND_KEY_CACHE.clear()
    pre = ("From S2T Require Import C15.Model Gen.C15Skeleton.\nImport List ListNotations.\n"
           "Fixpoint leqb (a b : list nat) : bool := match a, b with [] , [] => true | x :: a', y :: b' => Nat.eqb x y && leqb a' b' | _, _ => false end.\n"
           "Definition rk_case (c : list nat * list nat) : bool :=\n"
           "  leqb (map fst (memo_history Nat.eqb (fun k => k) round_key_cache_max [] (fst c))) (snd c).\n")
    okc, failing, log = coq_eval_shards(ctx, "rk", pre, "rk_case", cases, shard=500, ty="list nat * list nat")
    ctx.traces += len(cases)
    ctx.disagreements += len(failing)
    ctx.obligation("correspondence:memo_history==_ROUND_KEY_CACHE key order after sequential histories", okc and not failing,
                   (f"{len(failing)} disagreements " + log)[:800])
    # ---- _get_round_keys concurrently
    if rk_shape == "unlocked":
        # replay of the model's schedule (C15_round_key_cache_race_refuted) on the real function
        aes._ROUND_KEY_CACHE.clear()
        for i in range(4):
            aes._get_round_keys(pool[i])
        gates = Gates(aes._get_round_keys.__code__, rk_gates)
        keys = [pool[0], pool[4]]
        out = [None, None]

        def worker(tid):
            err = None
            sys.settrace(gates.tracer(tid))
            try:
                out[tid] = ("ok", aes._get_round_keys(keys[tid]) == aes._expand_key(keys[tid]))
            except BaseException as e:  # noqa
                out[tid] = ("exc", type(e).__name__)
            finally:
                sys.settrace(None)
                gates.finish(tid, err)
        ths = [threading.Thread(target=worker, args=(t,), daemon=True) for t in range(2)]
        for t in ths:
            t.start()
        gates.wait_settled(range(2))
        for tid in [0, 1, 1, 1, 0]:
            gates.grant(tid)
        for _ in range(8):
            for tid in (0, 1):
                gates.grant(tid)
        for t in ths:
            t.join(timeout=5)
        ctx.case(("rk-race", "A.get B.get B.set B.trim A.move"), True, kind="round-keys:race-replay")
        aes._ROUND_KEY_CACHE.clear()
        if out[0] != ("ok", True) or out[1] != ("ok", True):
            ctx.finding("round-key-cache:race-get-evict-move",
                        f"_get_round_keys: thread A get(K1) / thread B inserts K5 and evicts K1 / A move_to_end(K1) -> {out[0]} "
                        "(cache pre-filled with K1..K4; schedule A B B B A at statement level)",
                        {"history": "K1 K2 K3 K4 sequentially", "threads": {"A": "K1", "B": "K5"}, "schedule": [0, 1, 1, 1, 0],
                         "gates": {str(k): v for k, v in rk_gates.items()}, "got": out})
    # pre-emptive stress in either case
    sw = sys.getswitchinterval()
    sys.setswitchinterval(1e-6)
    errs = []
    try:
        def hammer(seed):
            import random
            r = random.Random(seed)
            for _ in range(ctx.n(300, 3000)):
                k = pool[r.randrange(len(pool))]
                try:
                    if aes._get_round_keys(k) != aes._expand_key(k):
                        errs.append(("wrong", k.hex()))
                except Exception as e:  # noqa
                    errs.append((type(e).__name__, k.hex()))
        ths = [threading.Thread(target=hammer, args=(rng.random(),)) for _ in range(8)]
        for t in ths:
            t.start()
        for t in ths:
            t.join()
    finally:
        sys.setswitchinterval(sw)
    ctx.case(("rk-stress", 8), True, kind="round-keys:stress")
    if len(aes._ROUND_KEY_CACHE) > aes._ROUND_KEY_CACHE_MAX:
        errs.append(("size", len(aes._ROUND_KEY_CACHE)))
    aes._ROUND_KEY_CACHE.clear()
    if errs:
        ctx.finding("round-key-cache:race-get-evict-move",
                    f"_get_round_keys under 8 pre-emptive threads: {errs[:3]} ({len(errs)} failures)", {"errors": errs[:20]})


def font_cache_checks(ctx, pe, world, wirecard, variant, base):
    """C15_font_cache_*: the value must not depend on which glyph ids an EARLIER caller asked for."""
    import pypdf
    font = None
    for f in pypdf.PdfReader(wirecard).pages[0]["/Resources"]["/Font"].values():
        f = f.get_object()
        try:
            font = f["/DescendantFonts"][0].get_object()["/FontDescriptor"].get_object()["/FontFile2"].get_object().get_data()
            break
        except Exception:  # noqa
            continue
    if font:
        gid_sets = [[24, 25], [30, 31], [25, 24], [30, 31, 34], [24, 25, 30, 31, 34, 36, 37, 49, 51], [1], []]
        for a, b in itertools.permutations(gid_sets, 2):
            pe._FONT_CACHE.clear()
            fresh = pe._ttf_get_glyph_features(font, list(b))
            pe._FONT_CACHE.clear()
            pe._ttf_get_glyph_features(font, list(a))
            after = pe._ttf_get_glyph_features(font, list(b))
            ctx.case(("font", tuple(a), tuple(b)), True, kind="font-cache:function")
            if fresh != after:
                ctx.finding("font-cache:key-ignores-glyph-ids",
                            f"_ttf_get_glyph_features(font, {b}) returns the features of glyph ids {a} after an earlier call "
                            f"with {a} on the same font program (fresh: {sorted(fresh[1]) if fresh else fresh}, "
                            f"after history: {sorted(after[1]) if after else after})",
                            {"font_sha1": hashlib.sha1(font).hexdigest(), "first_call_gids": a, "second_call_gids": b})
                break
        pe._FONT_CACHE.clear()
    if variant:
        # end to end: a document with the same embedded font but fewer NUL-mapped codes, then the fixture
        pe._FONT_CACHE.clear()
        d1 = extract_digest(variant)
        d2 = extract_digest(wirecard)
        ctx.case(("font-history", "variant", "wirecard"), True, kind="font-cache:documents")
        if d2 != base.get(wirecard) or d1 != base.get(variant):
            ctx.finding("font-cache:key-ignores-glyph-ids",
                        f"extracting {Path(wirecard).name} after a PDF embedding the same font program with fewer NUL-mapped "
                        f"codes gives {d2}, isolated baseline {base.get(wirecard)} (first document: {d1} vs {base.get(variant)})",
                        {"history": [variant, wirecard], "got": [d1, d2], "baseline": [base.get(variant), base.get(wirecard)]})
        pe._FONT_CACHE.clear()


def self_overlap_checks(ctx, mon, docs, base, reps, budget_s=90.0, stop_at_first=False):
    """Every given document is extracted by TWO overlapping threads (`reps` times each, switch interval 1e-6): the
    digests must equal the isolated baseline and the residue snapshot must be unchanged afterwards.  This is the
    generator for defects that need two extractions of the same kind to overlap (save/restore of interpreter-wide
    settings that is only correct when nested, shared per-format state): the finding names the document."""
    t0 = time.time()
    sw = sys.getswitchinterval()
    for d in docs:
        if time.time() - t0 > budget_s:
            ctx.count("self-overlap:skipped-for-time")
            continue
        nv = len(ctx.violations)
        bad, lock = [], threading.Lock()
        sys.setswitchinterval(1e-6)
        try:
            def w():
                for _ in range(reps):
                    got = extract_digest(d)
                    if base is not None and got != base.get(d, got):
                        with lock:
                            bad.append(got)
            ths = [threading.Thread(target=w) for _ in range(2)]
            for t in ths:
                t.start()
            for t in ths:
                t.join()
        finally:
            sys.setswitchinterval(sw)
        name = Path(d).name
        if bad:
            ctx.finding(f"concurrent-interference:{name}", f"{name} extracted by two overlapping threads gives {bad[0]}, isolated "
                        f"baseline {base.get(d)} ({len(bad)} of {2 * reps} extractions)",
                        {"document": d, "threads": 2, "repetitions": reps, "got": bad[0], "baseline": base.get(d)})
        mon.step(f"2 overlapping threads x {reps} extractions of {name}", "concurrent",
                 {"document": d, "threads": 2, "repetitions": reps, "switchinterval": 1e-6}, key=f"concurrent:{name}")
        ctx.case(("self-overlap", name), True, kind="self-overlap")
        if stop_at_first and len(ctx.violations) > nv:
            return d
    return None


def workload_checks(ctx, pe, aes, world, docs, base, tmproot, special, aes0=False):
    rng = ctx.rng
    import sharepoint2text  # noqa
    from sharepoint2text.parsing.extractors import serialization
    fast = [d for d in docs if d not in special.values()]
    pe._FONT_CACHE.clear()
    mon = ResidueMonitor(ctx, world, tmproot, aes0)

    def residue(tag, seq):
        mon.step(tag, "phase-end", {"sequence": seq})

    def check_seq(seq, tag):
        for i, d in enumerate(seq):
            got = extract_digest(d)
            mon.step(Path(d).name, got, {"document": d, "history": seq[:i]})
            if got != base[d]:
                hist = [Path(x).name for x in seq[:i]]
                ctx.finding(f"history-dependent:{Path(d).name}",
                            f"{Path(d).name} extracted after {hist} gives {got}, isolated baseline {base[d]}",
                            {"history": seq[:i], "document": d, "got": got, "baseline": base[d]})
        ctx.case((tag, tuple(Path(s).name for s in seq)), len(seq) >= 2, kind=tag)

    # ---- all orderings of short sequences over a pool with every format family and failing inputs
    byfam = {}
    for d in fast:
        byfam.setdefault(Path(d).parent.name + Path(d).suffix, []).append(d)
    pool = [v[0] for v in byfam.values()]
    rng.shuffle(pool)
    core = [d for d in fast if Path(d).suffix == ".pdf"][: ctx.n(2, 3)] + [d for d in fast if d.endswith(".7z")] + \
           [d for d in fast if base[d].startswith("exc:")][:2] + [special[k] for k in ("garbage_pdf", "truncated_docx") if k in special]
    core = list(dict.fromkeys(core + pool[: ctx.n(1, 8)]))
    nseq = 0
    for seq in itertools.permutations(core, 2):
        check_seq(list(seq), "sequence:pairs")
        nseq += 1
    trip = list(itertools.permutations(core[:5], 3))
    rng.shuffle(trip)
    for seq in trip[: ctx.n(12, 60)]:
        check_seq(list(seq), "sequence:triples")
    residue("ordered sequences", core)
    # ---- third-party settings configured by the application after import must survive extractions
    knob_perturbation_checks(ctx, mon, docs, base)
    # ---- failing and border-line calls of the public entry point itself
    entry_point_failure_checks(ctx, mon, [d for d in docs if "/resources/" in d], str(Path(special["garbage_pdf"]).parent))
    # ---- damaged inputs of every format, residue compared after each single (mostly failing) extraction
    t_d = time.time()
    damaged_input_checks(ctx, mon, [d for d in docs if "/resources/" in d])
    ctx.extra.setdefault("phase_s", {})["damaged"] = round(time.time() - t_d, 1)
    # one long random history over everything
    hist = list(fast)
    rng.shuffle(hist)
    check_seq(hist, "sequence:all-fixtures")
    # history with the documents that exercise the caches and the one-way patch
    sp = [special[k] for k in ("font_variant", "enc_aes-128", "enc_aes-256", "wirecard") if k in special]
    if sp:
        # AES-128 before and after the AES-256 document, the font variant before and after the fixture
        order = ["font_variant", "enc_aes-128", "enc_aes-256", "wirecard", "enc_aes-128", "font_variant"]
        seq = [special[k] for k in order if k in special]
        check_seq(seq, "sequence:cache-documents")
        if ctx.tier == "thorough":
            check_seq(seq[::-1], "sequence:cache-documents")
    residue("long histories", hist)
    # serialization registry: lazy fill must not change results (to_json/from_json round trip before/after)
    reg_before = dict(serialization._TYPE_REGISTRY)
    serialization._get_type_registry()
    reg1 = dict(serialization._TYPE_REGISTRY)
    serialization._TYPE_REGISTRY.clear()
    serialization._get_type_registry()
    if dict(serialization._TYPE_REGISTRY) != reg1:
        ctx.finding("type-registry:refill-differs", "serialization._TYPE_REGISTRY differs when refilled", {})
    ctx.case(("type-registry", len(reg1), len(reg_before)), True, kind="type-registry")

    # ---- two overlapping extractions of the same kind, for one (small, extractable) document per extractor module
    from sharepoint2text.parsing import router as _router
    fam = {}
    for d in sorted(fast, key=lambda q: os.path.getsize(q)):
        if base[d].startswith("ok:") and os.path.getsize(d) < 200_000:
            try:
                fam.setdefault((_router.get_extractor(d).__module__, Path(d).suffix), d)
            except Exception:  # noqa
                pass
    t_o = time.time()
    self_overlap_checks(ctx, mon, list(fam.values()), base, ctx.n(16, 40))
    ctx.extra.setdefault("phase_s", {})["self-overlap"] = round(time.time() - t_o, 1)

    # ---- randomised pre-emptive schedules over mixed-format workloads
    sw = sys.getswitchinterval()
    nthreads = ctx.n(6, 8)
    rounds = ctx.n(2, 5)
    mism = []
    lock = threading.Lock()
    try:
        for rnd in range(rounds):
            sys.setswitchinterval(rng.choice([1e-6, 1e-5, 1e-4, 5e-3]))
            work = []
            for t in range(nthreads):
                w = list(fast)
                rng.shuffle(w)
                w = w[: ctx.n(10, len(fast))]
                # PDFs in every thread (the patched critical section), one slow AES document per round
                w += [d for d in fast if d.endswith(".pdf")][:4]
                if "enc_aes-128" in special and t < 4:
                    w += [special["enc_aes-128"]] * 2      # concurrent users of the round-key cache
                if t == 0 and "enc_aes-256" in special and rnd == 0:
                    w.append(special["enc_aes-256"])
                if "font_variant" in special and t % 2:
                    w.insert(0, special["font_variant"])
                rng.shuffle(w)
                work.append(w)

            def run_thread(w):
                for d in w:
                    got = extract_digest(d)
                    if got != base[d]:
                        with lock:
                            mism.append((d, got, base[d]))
            ths = [threading.Thread(target=run_thread, args=(w,)) for w in work]
            for t in ths:
                t.start()
            for t in ths:
                t.join()
            for w in work:
                ctx.case(("preemptive", rnd, tuple(Path(s).name for s in w)), True, kind="preemptive-workload")
    finally:
        sys.setswitchinterval(sw)
    seenk = set()
    for d, got, want in mism:
        k = f"concurrent-interference:{Path(d).name}"
        if k in seenk:
            continue
        seenk.add(k)
        ctx.finding(k, f"{Path(d).name} extracted while {nthreads - 1} other threads extract mixed formats gives {got}, "
                       f"isolated baseline {want} ({sum(1 for m in mism if m[0] == d)} occurrences)",
                    {"document": d, "got": got, "baseline": want, "threads": nthreads})
    ctx.extra["residue_steps"] = mon.steps
    snapc = globals_snapshot(world)
    if snapc["char_map_depth"] != 0 or snapc["char_map_counter"] != 0 or snapc["char_map_lock"]:
        ctx.finding("char-map-patch:unrestored-after-preemptive-workload",
                    f"after {nthreads} threads extracted PDFs pre-emptively pypdf's build_char_map is wrapped "
                    f"{snapc['char_map_depth']} levels deep (counter {snapc['char_map_counter']})",
                    {"threads": nthreads, "after": snapc})
        world.reset()
    nviol = len(ctx.violations)
    residue("pre-emptive workloads", [])
    if len(ctx.violations) > nviol:
        mon.reported.clear()
        self_overlap_checks(ctx, mon, sorted(set(d for w in work for d in w), key=lambda d: os.path.getsize(d)), None, 12,
                            budget_s=60.0, stop_at_first=True)
    pe._FONT_CACHE.clear()


_HISTORY_SNIPPET = r"""
import sys, json, logging
logging.disable(logging.CRITICAL)
sys.path.insert(0, '/verif/tools'); sys.path.insert(0, '/verif/tools/props')
import c15
print('RESULT' + json.dumps([c15.extract_digest(p) for p in json.loads(sys.stdin.read())]))
"""


def fresh_process_history_checks(ctx, family, installers, base):
    """Histories that cannot be observed inside one long-lived process because the library changes process-global
    state one-way (the AES fallback): every ordered pair [a, b] of a document family is extracted in a FRESH
    interpreter and each digest is compared with the document's isolated baseline (= history [] in a fresh
    interpreter).  `installers` are (slow) documents used only in first position."""
    from concurrent.futures import ThreadPoolExecutor
    jobs = [[a, b] for a in family + installers for b in family if a != b]
    if ctx.tier == "thorough":
        jobs += [[a, a] for a in family]

    def one(job):
        p = subprocess.run([sys.executable, "-c", _HISTORY_SNIPPET], input=json.dumps(job), text=True, capture_output=True,
                           timeout=300, env=dict(os.environ))
        m = re.search(r"RESULT(.*)", p.stdout)
        return job, (json.loads(m.group(1)) if m else None), p.stderr[-200:]
    with ThreadPoolExecutor(max_workers=6) as ex:
        results = list(ex.map(one, jobs))
    broken, hits = [], {}
    for job, res, err in results:
        if res is None:
            broken.append(f"{[Path(j).name for j in job]}: {err}")
            continue
        ctx.case(("fresh-history", tuple(Path(j).name for j in job)), True, kind="fresh-process-history")
        for i, (d, got) in enumerate(zip(job, res)):
            if got != base.get(d):
                hits.setdefault(d, []).append((i, job, got))
    for d, hs in hits.items():
        i, job, got = min(hs, key=lambda h: (h[0], h[1]))
        ctx.finding(f"history-dependent:{Path(d).name}",
                    f"in a fresh process {Path(d).name} gives {got} after the history {[Path(j).name for j in job[:i]]}, "
                    f"and {base.get(d)} when extracted first ({len(hs)} of {len(jobs)} histories differ)",
                    {"fresh_process": True, "history": job[:i], "document": d, "got": got, "baseline": base.get(d),
                     "differing_histories": [[Path(j).name for j in h[1]] for h in hs[:12]]})
    ctx.obligation("fresh-process-history-subprocesses-completed", not broken, "; ".join(broken[:3]))


def translate_registry(ser):
    """Shape of serialization._get_type_registry: 'inplace' (if REG: return; for ...: REG[name] = obj),
    'publish' (no item assignment to REG; exactly one REG.update(<local>) statement), 'locked' (whole body under a
    module-level lock).  Returns (shape, {lineno: label}) ; anything else raises."""
    src = Path(ser.__file__).read_text(encoding="utf-8")
    fn = [n for n in ast.parse(src).body if isinstance(n, ast.FunctionDef) and n.name == "_get_type_registry"]
    if len(fn) != 1:
        raise TranslateError("_get_type_registry not found")
    fn = fn[0]
    body = [st for st in fn.body if not (isinstance(st, ast.Expr) and isinstance(st.value, ast.Constant))]
    if len(body) == 1 and isinstance(body[0], ast.With) and len(body[0].items) == 1 and _is_name(body[0].items[0].context_expr):
        lk = getattr(ser, body[0].items[0].context_expr.id, None)
        if hasattr(lk, "acquire") and hasattr(lk, "release"):
            return "locked", {}
    if not (body and isinstance(body[0], ast.If) and _is_name(body[0].test, "_TYPE_REGISTRY") and len(body[0].body) == 1
            and isinstance(body[0].body[0], ast.Return) and isinstance(body[-1], ast.Return)):
        raise TranslateError("_get_type_registry: unknown shape (no `if _TYPE_REGISTRY: return` fast path)")
    stores = [n for n in ast.walk(fn) if isinstance(n, ast.Subscript) and isinstance(n.ctx, ast.Store) and _is_name(n.value, "_TYPE_REGISTRY")]
    updates = [n for n in ast.walk(fn) if isinstance(n, ast.Call) and ast.unparse(n.func) == "_TYPE_REGISTRY.update"]
    other = [n for n in ast.walk(fn) if isinstance(n, ast.Call) and isinstance(n.func, ast.Attribute) and _is_name(n.func.value, "_TYPE_REGISTRY")
             and n.func.attr in MUT_METHODS and n.func.attr != "update"]
    labels = {body[0].lineno: "Check"}
    if other:
        raise TranslateError("_get_type_registry mutates the registry by " + other[0].func.attr)
    if stores and not updates:
        for n in ast.walk(fn):
            if isinstance(n, ast.Assign) and any(t is x for t in n.targets for x in stores):
                labels[n.lineno] = "Fill"
        return "inplace", labels
    if updates and not stores and len(updates) == 1:
        return "publish", labels
    raise TranslateError("_get_type_registry: mixed item assignment / update")


def registry_checks(ctx, shape, labels):
    """Controlled schedules on the real _get_type_registry: thread A is stopped after j in-place assignments, thread
    B then deserialises a result; B must get the dataclass back.  The model is run on the same schedules."""
    import sharepoint2text
    from sharepoint2text.parsing.extractors import serialization as ser
    src = next((str(p) for p in fixtures() if p.name == "sample.html"), None)
    if src is None:
        return
    js = [r.to_json() for r in sharepoint2text.read_file(src)][0]
    want = type(ser.deserialize_extraction(js)).__name__
    n = len(ser._TYPE_REGISTRY)
    cases = []
    for j in (0, 1, 2, 7):
        ser._TYPE_REGISTRY.clear()
        gates = Gates(ser._get_type_registry.__code__, labels)
        out = [None, None]

        def worker(tid):
            sys.settrace(gates.tracer(tid))
            try:
                out[tid] = type(ser.deserialize_extraction(json.loads(json.dumps(js)))).__name__
            except BaseException as e:  # noqa
                out[tid] = "exc:" + type(e).__name__
            finally:
                sys.settrace(None)
                gates.finish(tid)
        ths = [threading.Thread(target=worker, args=(t,), daemon=True) for t in range(2)]
        for t in ths:
            t.start()
        gates.wait_settled(range(2))
        steps = 0
        if shape == "inplace":
            for _ in range(1 + j):          # Check, then j assignments
                gates.grant(0)
                steps += 1
        mid = len(ser._TYPE_REGISTRY)
        guard = 0
        while gates.label(1) not in (None, "Done") and guard < 100000:
            gates.grant(1)
            guard += 1
        b_done_size = len(ser._TYPE_REGISTRY)
        while gates.label(0) not in (None, "Done") and guard < 200000:
            gates.grant(0)
            guard += 1
        for t in ths:
            t.join(timeout=5)
        ctx.case(("type-registry", shape, j, tuple(out)), True, kind="type-registry:schedule")
        ok_b = out[1] == want
        cases.append(f"({n}, {j if shape == 'inplace' else 0}, {'true' if ok_b else 'false'})")
        if out != [want, want]:
            ctx.finding("type-registry:partial-view",
                        f"deserialize_extraction in thread B returns {out[1]} instead of {want} while thread A is inside "
                        f"_get_type_registry with {mid} of {n} names filled (A stopped after {j} assignments; registry checked non-empty "
                        "by B and returned as is)",
                        {"document": src, "schedule": f"A: Check + {j} x Fill; B: runs to completion; A: rest", "got": out, "want": want,
                         "gates": {str(k): v for k, v in labels.items()}, "registry_names": n})
    ser._TYPE_REGISTRY.clear()
    ser._get_type_registry()
    prog = "reg_inplace" if shape == "inplace" else "reg_publish"
    pre = ("From S2T Require Import C15.Model.\nImport List ListNotations.\n"
           "Definition reg_case (c : nat * nat * bool) : bool :=\n"
           "  let '(n, j, okb) := c in\n"
           f"  let st := reg_run n (reg_init 2 ({prog} n)) (repeat 0%nat (if Nat.eqb j 0 then 0 else S j) ++ repeat 1%nat (n + 3)) in\n"
           "  match nth_error (rthreads st) 1 with\n"
           "  | Some th => match rview th with Some v => Bool.eqb (reg_full n v) okb | None => false end\n"
           "  | None => false end.\n")
    okc, failing, log = coq_eval_shards(ctx, "reg", pre, "reg_case", cases, ty="nat * nat * bool")
    ctx.traces += len(cases)
    ctx.obligation("correspondence:registry model==real _get_type_registry under controlled schedules", okc and not failing,
                   (f"{len(failing)} disagreements {cases} " + log)[:600])


def gen_inventory(ctx, unknown_sites, reg_shape):
    cells = ctx.extra.pop("_cells", [])
    from common import coq_str
    txt = "(* GENERATED on every check run from the ast of every library module - do not edit. *)\n"
    txt += "From Coq Require Import List.\nImport ListNotations.\nFrom S2T Require Import Lib.PyStr C15.Model.\n\n"
    txt += "(* every module-level / class-level object shared by extractor calls, with its class *)\n"
    txt += "Definition shared_inventory : list (str * kind) := [\n  "
    txt += ";\n  ".join(f"({coq_str(nm)}, {k})" for nm, k in cells) + "\n].\n\n"
    txt += f"Definition unclassified_mutation_sites : nat := {len(unknown_sites)}.\n\n"
    txt += f"(* serialization._get_type_registry: {reg_shape} *)\n"
    txt += f"Definition registry_shape_modelled : bool := {'true' if reg_shape in ('inplace', 'publish', 'locked') else 'false'}.\n"
    ctx.gen_write("Gen/C15Inventory.v", txt)
    ctx.extra["inventory_cells"] = {k: sum(1 for _, x in cells if x.startswith(k) or x.startswith("(" + k)) for k in
                                    ("KConst", "KMemo", "KLazy", "KProtocol", "KConfig", "KRaw")}


def yield_under_lock_inventory(ctx):
    """X-obligation: no generator of the library suspends (`yield` / `yield from`) lexically inside `with <lock>`: a
    generator is suspended for as long as its consumer likes, so the lock would be process-global state that is not
    restored when the call returns, and two lazily consumed extractions dead-lock."""
    root, files = _library_files()
    bad = []
    for p in files:
        rel = str(p.relative_to(root))
        tree = ast.parse(p.read_text(encoding="utf-8"))
        locks = set()
        for st in tree.body:
            if isinstance(st, (ast.Assign, ast.AnnAssign)) and st.value is not None and isinstance(st.value, ast.Call):
                if ast.unparse(st.value.func).split(".")[-1] in ("Lock", "RLock", "Semaphore", "BoundedSemaphore", "Condition"):
                    tg = st.targets[0] if isinstance(st, ast.Assign) else st.target
                    if isinstance(tg, ast.Name):
                        locks.add(tg.id)
        for w in ast.walk(tree):
            if isinstance(w, (ast.With, ast.AsyncWith)):
                held = [ast.unparse(i.context_expr) for i in w.items
                        if ast.unparse(i.context_expr).split(".")[-1] in locks or "lock" in ast.unparse(i.context_expr).lower()]
                if not held:
                    continue
                for st in w.body:
                    for n in ast.walk(st):
                        if isinstance(n, (ast.Yield, ast.YieldFrom)):
                            bad.append(f"{rel}:{n.lineno} yields while holding {held[0]}")
    ctx.obligation("X:inventory(no yield while a lock is held)", not bad, "; ".join(bad[:5]))
    return bad


OPENERS = {"open", "io.open", "os.open", "os.fdopen", "os.popen", "codecs.open", "gzip.open", "bz2.open", "lzma.open",
           "socket.socket", "tempfile.NamedTemporaryFile", "tempfile.TemporaryFile", "tempfile.mkstemp", "zipfile.ZipFile",
           "tarfile.open", "mmap.mmap", "Path.open", "path.open"}
CLOSERS = {"os.close"}


def translate_read_file():
    """Fail-closed translation of sharepoint2text.read_file into C15.Handles.rblock."""
    import sharepoint2text
    src = Path(sharepoint2text.__file__).read_text(encoding="utf-8")
    tree = ast.parse(src)
    fns = [n for n in tree.body if isinstance(n, ast.FunctionDef) and n.name == "read_file"]
    if len(fns) != 1:
        raise TranslateError("read_file not found")
    al = _aliases(tree)

    def opener(call):
        if not isinstance(call, ast.Call):
            return None
        d, _ = _dotted(call.func, al)
        if d in OPENERS or (isinstance(call.func, ast.Attribute) and call.func.attr == "open"):
            return d or "open"
        return None

    def has_opener(node):
        return any(opener(n) for n in ast.walk(node))

    def blk(items):
        out = "BNil"
        for it in reversed(items):
            out = f"(BCons {it} {out})"
        return out

    def stmts(body):
        out = []
        for st in body:
            if isinstance(st, ast.Expr) and isinstance(st.value, ast.Constant):
                continue
            if isinstance(st, (ast.Import, ast.ImportFrom)):
                out.append("RAny")
                continue
            if isinstance(st, ast.Expr) and isinstance(st.value, ast.Call) and ast.unparse(st.value.func).startswith("logger."):
                continue
            if isinstance(st, ast.Expr) and isinstance(st.value, (ast.Yield, ast.YieldFrom)):
                if has_opener(st.value):
                    raise TranslateError("opener inside a yield expression")
                out.append("RYield" if isinstance(st.value, ast.Yield) else "(RLoop (BCons RAny (BCons RYield BNil)))")
                continue
            if isinstance(st, ast.Raise):
                out.append("RRaise")
                continue
            if isinstance(st, ast.Return):
                raise TranslateError("return inside read_file is not modelled")
            if isinstance(st, (ast.Assign, ast.AnnAssign, ast.AugAssign, ast.Expr)):
                v = st.value
                if v is not None and has_opener(v):
                    d, _ = _dotted(v.func, al) if isinstance(v, ast.Call) else (None, None)
                    out.append("ROpenRaw")        # a handle acquired outside a with statement
                elif isinstance(v, ast.Call) and _dotted(v.func, al)[0] in CLOSERS or \
                        (isinstance(v, ast.Call) and isinstance(v.func, ast.Attribute) and v.func.attr == "close"):
                    out.append("RCloseRaw")
                else:
                    out.append("RAny")
                continue
            if isinstance(st, ast.If):
                if has_opener(st.test):
                    raise TranslateError("opener in an if test")
                out.append("RAny")               # the test may raise (path.stat())
                out.append(f"(RIf {blk(stmts(st.body))})")
                if st.orelse:
                    out.append(f"(RIf {blk(stmts(st.orelse))})")
                continue
            if isinstance(st, ast.With):
                if len(st.items) != 1:
                    raise TranslateError("with statement with several items")
                ce = st.items[0].context_expr
                op = opener(ce)
                if op is None:
                    raise TranslateError("with over something that is not a known opener: " + ast.unparse(ce)[:60])
                inner = blk(stmts(st.body))
                out.append(f"(RWrapRaw {inner})" if op == "os.fdopen" else f"(RWith {inner})")
                continue
            if isinstance(st, ast.Try):
                if st.finalbody or st.orelse:
                    raise TranslateError("try with finally/else in read_file is not modelled")
                for h in st.handlers:
                    for hs in h.body:
                        if not (isinstance(hs, ast.Raise) or (isinstance(hs, ast.Expr) and isinstance(hs.value, ast.Call)
                                                              and ast.unparse(hs.value.func).startswith("logger."))):
                            raise TranslateError("exception handler that does more than re-raise: " + ast.unparse(hs)[:60])
                        if has_opener(hs):
                            raise TranslateError("opener in an exception handler")
                out.append(f"(RTry {blk(stmts(st.body))})")
                continue
            if isinstance(st, (ast.For, ast.While)):
                head = st.iter if isinstance(st, ast.For) else st.test
                if has_opener(head) or st.orelse:
                    raise TranslateError("opener in a loop head / loop-else")
                out.append("RAny")               # creating the iterator may raise
                out.append(f"(RLoop {blk(['RAny'] + stmts(st.body))})")     # every next() may raise
                continue
            raise TranslateError(f"unsupported statement in read_file at line {st.lineno}: " + ast.unparse(st)[:80])
        return out
    return blk(stmts(fns[0].body))


def read_file_handle_correspondence(ctx, observations):
    """every observed (way out of read_file, change of the number of open handles) must be one of the exits the
    model computes for the regenerated skeleton"""
    code = {"normal": "ONormal", "raise": "ORaise", "abandon": "OAbandon"}
    cases = [f"({code[o]}, {max(0, d)})" for o, d in observations]
    pre = "From S2T Require Import C15.Handles Gen.C15ReadFile.\nImport List ListNotations.\n"
    okc, failing, log = coq_eval_shards(ctx, "handles", pre, "(fun r => res_in r (exec_b 2 read_file_skeleton 0))", cases,
                                        ty="outcome * nat")
    ctx.traces += len(cases)
    ctx.disagreements += len(failing)
    ctx.obligation("correspondence:observed exits of read_file (outcome, handle delta) are exits of the model", okc and not failing,
                   (f"{len(failing)} disagreements, first: {observations[failing[0]] if failing else ''} " + log)[:600])


_MODNAME_CACHE = {}


def _is_module_name(dotted: str) -> bool:
    """does `from pkg import name` / `import a.b as c` name a MODULE (not a class or function)?"""
    if dotted not in _MODNAME_CACHE:
        try:
            import importlib.util
            _MODNAME_CACHE[dotted] = importlib.util.find_spec(dotted) is not None
        except Exception:  # noqa
            _MODNAME_CACHE[dotted] = False
    return _MODNAME_CACHE[dotted]


def third_party_knobs():
    """(module, attribute) pairs: module-level scalar settings of third-party / stdlib modules that the library's
    source reads or writes through a module alias (`pypdf_filters.ZLIB_MAX_OUTPUT_LENGTH`, `Image.MAX_IMAGE_PIXELS`, ...)."""
    root, files = _library_files()
    knobs = {}
    for p in files:
        tree = ast.parse(p.read_text(encoding="utf-8"))
        al = _aliases(tree)
        for n in ast.walk(tree):
            # only settings the library WRITES (protocol constants such as re.IGNORECASE or xlrd.XL_CELL_TEXT are read-only
            # uses and must not be perturbed)
            if isinstance(n, ast.Attribute) and isinstance(n.ctx, ast.Store) and isinstance(n.value, (ast.Name, ast.Attribute)):
                d, base = _dotted(n.value, al)
                if not d or base is None or d.startswith("sharepoint2text") or not _is_module_name(d):
                    continue
                try:
                    mod = importlib.import_module(d)
                    v = getattr(mod, n.attr)
                except Exception:  # noqa
                    continue
                if isinstance(v, (bool, int, float)) and not isinstance(v, type) and not n.attr.startswith("__"):
                    knobs[(d, n.attr)] = str(p.relative_to(root))
    return knobs


def third_party_scalars():
    """module-level scalar settings (UPPER_CASE ints / floats / bools / None) of the third-party packages the library
    imports - part of the residue snapshot"""
    global _TP_PKGS
    if _TP_PKGS is None:
        root, files = _library_files()
        pk = set()
        std = getattr(sys, "stdlib_module_names", set())
        for p in files:
            for n in ast.walk(ast.parse(p.read_text(encoding="utf-8"))):
                if isinstance(n, ast.Import):
                    pk.update(a.name.split(".")[0] for a in n.names)
                elif isinstance(n, ast.ImportFrom) and n.module and n.level == 0:
                    pk.add(n.module.split(".")[0])
        _TP_PKGS = {x for x in pk if x not in std and x != "sharepoint2text"}
    global _TP_MODS
    if _TP_MODS[0] != len(sys.modules):
        _TP_MODS = (len(sys.modules), [(n, m) for n, m in list(sys.modules.items())
                                       if m is not None and n.split(".")[0] in _TP_PKGS])
    out = {}
    for mname, mod in _TP_MODS[1]:
        for k, v in vars(mod).items():
            if k.isupper() and (v is None or isinstance(v, (bool, int, float))):
                out[(mname, k)] = v
    return out


_TP_PKGS = None
_TP_MODS = (0, [])


def knob_perturbation_checks(ctx, mon, docs, base):
    """The application may have configured a third-party setting AFTER the library was imported.  For every such
    setting the library's source mentions: set it to a value different from the import-time one (small, so that
    guarded paths actually run), extract documents, and require the setting to be exactly what the application
    had set after every single extraction."""
    knobs = third_party_knobs()
    ctx.extra["third_party_knobs"] = {f"{m}.{a}": src for (m, a), src in knobs.items()}
    pdfs = [d for d in docs if d.endswith(".pdf") and "/resources/" in d and os.path.getsize(d) < 300_000]
    others = [d for d in docs if "/resources/" in d and os.path.getsize(d) < 60_000][:12]
    for (m, a), src in sorted(knobs.items()):
        mod = importlib.import_module(m)
        old = getattr(mod, a)
        if isinstance(old, bool):
            cands = [not old]
        elif isinstance(old, int):
            cands = [max(1, old // 5000), old * 2 + 1]
        else:
            cands = [old / 2 if old else 1.5]
        work = pdfs if m.split(".")[0] == "pypdf" else others
        try:
            for new in cands:
                for d in work:
                    setattr(mod, a, new)
                    got = guarded_digest(d, None)
                    now = getattr(mod, a)
                    ctx.case(("knob", m, a, new, Path(d).name), True, kind="third-party-setting-perturbed")
                    if got == "hang":
                        return
                    if now != new:
                        ctx.finding(f"residue:third-party-config:{m}.{a}",
                                    f"the application had set {m}.{a} = {new!r}; after extracting {Path(d).name} ({got}) it is {now!r} "
                                    f"(import-time value {old!r}): a third-party setting is not put back to the value that was found",
                                    {"setting": f"{m}.{a}", "set_by_application": new, "after": now, "import_time": old, "document": d,
                                     "how": f"import {m}; {m}.{a} = {new!r}; list(read_file(document)); {m}.{a}"})
                        break
        finally:
            setattr(mod, a, old)
    mon.interp = interp_snapshot()
    mon.tp = third_party_scalars()


def entry_point_failure_checks(ctx, mon, fx, tmpdocs):
    """Failed (and border-line successful) calls of the PUBLIC entry point read_file with its own parameters and path
    kinds - not only damaged contents handed to an extractor: size limit around the file size, directory, missing
    file, unsupported / no extension, empty file, symlink, str and Path.  Every call is made three times (a leak per
    call shows at the second occurrence at the latest); the residue is compared after each."""
    import sharepoint2text
    byext = {}
    for p in sorted((Path(x) for x in fx if "password" not in x), key=lambda q: q.stat().st_size):
        byext.setdefault(p.suffix, p)
    picks = [byext[e] for e in (".txt", ".pdf", ".docx", ".xlsx", ".odt", ".eml", ".zip", ".7z", ".doc", ".html", ".rtf", ".epub") if e in byext]
    d = Path(tmpdocs) / "entry"
    d.mkdir(exist_ok=True)
    (d / "empty.docx").write_bytes(b"")
    (d / "empty.pdf").write_bytes(b"")
    (d / "data.unknownext").write_bytes(b"hello")
    (d / "noext").write_bytes(b"hello")
    (d / "adir.pdf").mkdir(exist_ok=True)
    if picks and not (d / "link.txt").exists():
        os.symlink(str(picks[0]), str(d / "link.txt"))

    observations = []

    def call(path, **kw):
        gc.collect()
        n0 = len(fd_table())
        try:
            r = digest_results(list(sharepoint2text.read_file(path, **kw)))
            how = "normal"
        except Exception as e:  # noqa
            r = "exc:" + type(e).__name__
            how = "raise"
        gc.collect()
        observations.append((how, len(fd_table()) - n0))
        return r

    def abandon(path):
        gc.collect()
        n0 = len(fd_table())
        try:
            g = sharepoint2text.read_file(path)
            next(g)
            g.close()
            how = "abandon"
        except StopIteration:
            how = "normal"
        except Exception:  # noqa
            how = "raise"
        gc.collect()
        observations.append((how, len(fd_table()) - n0))
        return how
    cases = []
    for p in picks:
        n = p.stat().st_size
        for lim, tag in ((0, "limit=0"), (1, "limit=1"), (n - 1, "limit=size-1"), (n, "limit=size"), (n + 1, "limit=size+1")):
            cases.append((f"{p.name}[max_file_size:{tag}]", str(p), {"max_file_size": lim}, p.name))
        cases.append((f"{p.name}[Path object]", p, {}, p.name))
    for nm in ("empty.docx", "empty.pdf", "data.unknownext", "noext", "adir.pdf", "link.txt", "missing.docx", "adir.pdf/"):
        cases.append((f"{nm}[path kind]", str(d / nm) if not nm.endswith("/") else str(d / nm[:-1]) + "/", {}, nm))
    kinds = {}
    for name, path, kw, key in cases:
        outs = []
        for _ in range(3):
            outs.append(call(path, **kw))
            mon.step(f"read_file({name})", outs[-1], {"path": str(path), "kwargs": kw, "call": "sharepoint2text.read_file(path, **kwargs)"},
                     key="read_file-entry-point")        # one finding per kind of residue; the first failing call is in the replay
        if len(set(outs)) != 1:
            ctx.finding(f"history-dependent:read_file:{name}", f"read_file({name}) gives {outs} on three consecutive calls",
                        {"path": str(path), "kwargs": kw, "outcomes": outs})
        k = f"entry-point:{'fails' if outs[0].startswith('exc:') else 'ok'}:{outs[0].split(':')[1] if outs[0].startswith('exc:') else ''}"
        kinds[k] = kinds.get(k, 0) + 1
        ctx.case(("entry", name, outs[0]), True, kind=k)
    for p in picks:
        how = abandon(str(p))
        mon.step(f"read_file({p.name}) abandoned after its first result", how, {"path": str(p), "call": "g = read_file(p); next(g); g.close()"},
                 key="read_file-entry-point")
        ctx.case(("entry-abandon", p.name, how), True, kind="entry-point:abandoned")
    ctx.extra["entry_point_cases"] = kinds
    read_file_handle_correspondence(ctx, observations)


_AMBIENT_SNIPPET = r"""
import sys, json, os, io, logging
logging.disable(logging.CRITICAL)
sys.path.insert(0, '/verif/tools'); sys.path.insert(0, '/verif/tools/props')
import c15
job = json.loads(sys.stdin.read())
os.chdir(job['cwd'])
data = open(job['data_from'], 'rb').read() if job.get('data_from') else None
print('RESULT' + json.dumps(c15.extract_digest(job['path'], data)))
"""


def ambient_change_checks(ctx, fx, tmpdocs):
    """Histories in which the MEANING of the same call changes between two extractions because the environment
    changed: os.chdir() between two reads of the same relative path, the parent folder of a path hint created in
    between, a symlinked folder retargeted.  The second result must equal what a FRESH interpreter gives in the new
    environment (whatever is memoised across calls must have everything it depends on in its key)."""
    from concurrent.futures import ThreadPoolExecutor
    byext = {}
    for p in sorted((Path(x) for x in fx if "password" not in x), key=lambda q: q.stat().st_size):
        byext.setdefault(p.suffix, p)
    picks = [byext[e] for e in (".txt", ".docx", ".eml", ".zip", ".pdf") if e in byext][: ctx.n(4, 5)]
    root = Path(tmpdocs) / "ambient"
    old_cwd = os.getcwd()
    jobs, results = [], {}
    import shutil
    try:
        for p in picks:
            ext = p.suffix
            w = root / ext.strip(".")
            for sub in ("d1/in", "d2/in"):
                (w / sub).mkdir(parents=True, exist_ok=True)
                shutil.copy(str(p), str(w / sub / ("report" + ext)))
            rel = "in/report" + ext
            # (1) chdir between two reads of the same relative path
            os.chdir(w / "d1")
            a1 = extract_digest(rel)
            os.chdir(w / "d2")
            a2 = extract_digest(rel)
            results[("chdir", ext)] = (a2, {"cwd": str(w / "d2"), "path": rel},
                                       [f"chdir({w / 'd1'}); read_file({rel!r})", f"chdir({w / 'd2'}); read_file({rel!r})"])
            # (2) folder of a path hint created between two extractions from memory
            os.chdir(w)
            hint = "later/report" + ext
            data = p.read_bytes()
            extract_digest(hint, data)
            (w / "later").mkdir(exist_ok=True)
            b2 = extract_digest(hint, data)
            results[("mkdir", ext)] = (b2, {"cwd": str(w), "path": hint, "data_from": str(p)},
                                       [f"extractor(BytesIO, path={hint!r}) while {w / 'later'} does not exist", "mkdir later", "same call again"])
            # (3) symlinked folder retargeted
            link = w / "cur"
            if link.is_symlink():
                link.unlink()
            os.symlink(str(w / "d1" / "in"), str(link))
            extract_digest("cur/report" + ext)
            link.unlink()
            os.symlink(str(w / "d2" / "in"), str(link))
            c2 = extract_digest("cur/report" + ext)
            results[("symlink", ext)] = (c2, {"cwd": str(w), "path": "cur/report" + ext},
                                         ["read_file('cur/report…') with cur -> d1/in", "retarget cur -> d2/in", "same call again"])
    finally:
        os.chdir(old_cwd)

    def fresh(item):
        key, (got, job, hist) = item
        pr = subprocess.run([sys.executable, "-c", _AMBIENT_SNIPPET], input=json.dumps(job), text=True, capture_output=True,
                            timeout=300, env=dict(os.environ))
        m = re.search(r"RESULT(.*)", pr.stdout)
        return key, got, hist, job, (json.loads(m.group(1)) if m else "baseline-failed:" + pr.stderr[-200:])
    with ThreadPoolExecutor(max_workers=6) as ex:
        out = list(ex.map(fresh, results.items()))
    broken = []
    for (scen, ext), got, hist, job, want in out:
        ctx.case(("ambient", scen, ext), True, kind=f"ambient-change:{scen}")
        if str(want).startswith("baseline-failed"):
            broken.append(f"{scen}{ext}: {want}")
        elif got != want:
            ctx.finding(f"history-dependent:ambient-{scen}",
                        f"after the history {hist} the last call gives {got}; a fresh process in the same final environment gives {want}",
                        {"history": hist, "final_environment": job, "got": got, "fresh_process": want})
    ctx.obligation("ambient-change-baselines-computed", not broken, "; ".join(broken[:3]))


_LOCKSTEP_SNIPPET = r"""
import sys, json, logging, threading
logging.disable(logging.CRITICAL)
sys.path.insert(0, '/verif/tools'); sys.path.insert(0, '/verif/tools/props')
import c15, sharepoint2text
job = json.loads(sys.stdin.read())
def say(*a):
    print(json.dumps(a), flush=True)
def held_locks():
    out = []
    for (m, k), sig in c15.library_state().items():
        if sig[0] == 'lock' and sig[2]:
            out.append(m.split('.')[-1] + '.' + k)
    return out
for d in job['docs']:
    say('START1', d)
    g = sharepoint2text.read_file(d)
    try:
        first = next(g, None)
        say('HELD', d, held_locks())
    except Exception as e:
        say('HELD', d, [])
    g.close()
for a, b in job['pairs']:
    say('START2', a, b)
    ga, gb = sharepoint2text.read_file(a), sharepoint2text.read_file(b)
    ra, rb, ea, eb = [], [], None, None
    live = [True, True]
    while any(live):
        for i, (g, r) in enumerate(((ga, ra), (gb, rb))):
            if live[i]:
                try:
                    r.append(next(g))
                except StopIteration:
                    live[i] = False
                except Exception as e:
                    live[i] = False
                    if i == 0: ea = 'exc:' + type(e).__name__
                    else: eb = 'exc:' + type(e).__name__
    say('DONE2', a, b, ea or c15.digest_results(ra), eb or c15.digest_results(rb))
say('END')
"""


def lockstep_generator_checks(ctx, docs, base):
    """Generator suspension points as pre-emption points: two extractions consumed lazily in lock-step in ONE thread
    (zip(gen_a, gen_b)), for every ordered pair of multi-result documents, and a partly consumed generator held while
    the module-level locks of the library are inspected.  Runs in a forked interpreter under a watchdog: a dead-lock
    is reported with the pair that hung."""
    multi = [d for d in docs if d.endswith((".zip", ".tar", ".tar.gz", ".7z", ".mbox")) and "password" not in d and "/resources/" in d]
    single = [d for d in docs if d.endswith((".pdf", ".docx", ".eml")) and "/resources/" in d and os.path.getsize(d) < 300_000][:3]
    pairs = [(a, b) for a in multi for b in multi] + [(a, b) for a in multi[:2] for b in single] + [(b, a) for a in multi[:2] for b in single]
    job = {"docs": multi + single, "pairs": pairs}
    try:
        pr = subprocess.run([sys.executable, "-c", _LOCKSTEP_SNIPPET], input=json.dumps(job), text=True, capture_output=True,
                            timeout=ctx.n(90, 240), env=dict(os.environ))
        out, hung = pr.stdout, False
    except subprocess.TimeoutExpired as e:
        out = e.stdout.decode("utf-8", "replace") if isinstance(e.stdout, bytes) else (e.stdout or "")
        hung = True
    events = []
    for line in out.splitlines():
        try:
            events.append(json.loads(line))
        except Exception:  # noqa
            pass
    last = None
    for ev in events:
        if ev[0] == "HELD":
            ctx.case(("held-generator", Path(ev[1]).name), True, kind="generator:held-after-first-result")
            if ev[2]:
                ctx.finding(f"residue:lock-held-by-suspended-generator:{Path(ev[1]).name}",
                            f"read_file({Path(ev[1]).name}) suspended after its first result keeps {ev[2]} locked: process-global "
                            "state is not back when the call has returned, any other extraction needing the lock blocks",
                            {"document": ev[1], "call": "g = read_file(doc); next(g)", "locks_held": ev[2]})
        elif ev[0] in ("START1", "START2"):
            last = ev
        elif ev[0] == "DONE2":
            last = None
            a, b, da, db = ev[1:5]
            ctx.case(("lockstep", Path(a).name, Path(b).name), True, kind="generator:lockstep-pairs")
            for d, got in ((a, da), (b, db)):
                if got != base.get(d, got):
                    ctx.finding(f"concurrent-interference:lockstep:{Path(d).name}",
                                f"{Path(d).name} consumed in lock-step with {Path(b if d == a else a).name} in one thread gives {got}, "
                                f"isolated baseline {base.get(d)}", {"pair": [a, b], "got": [da, db], "baseline": [base.get(a), base.get(b)]})
    finished = any(ev[0] == "END" for ev in events)
    if hung and last is not None:
        names = [Path(x).name for x in last[1:]]
        ctx.finding(f"concurrent-interference:lockstep-deadlock:{'+'.join(names)}",
                    f"two extractions consumed lazily in lock-step in one thread never finish: {names} "
                    f"(no progress within the watchdog time; step {last[0]})",
                    {"documents": last[1:], "how": "ga, gb = read_file(a), read_file(b); alternate next(ga), next(gb)", "watchdog_s": ctx.n(90, 240)})
    ctx.obligation("lockstep-subprocess-completed", finished or (hung and last is not None), (out[-300:] if not finished else ""))


def import_whole_library():
    """import every module of the library (the extractor modules are imported lazily by the router) so that the state
    they have right after import - before anything was extracted - can be recorded"""
    root, files = _library_files()
    for p in files:
        rel = p.relative_to(root)
        if rel.name in ("run_test_setup.py", "cli.py", "__main__.py"):
            continue
        mod = "sharepoint2text." + str(rel)[:-3].replace("/", ".")
        if mod.endswith(".__init__"):
            mod = mod[: -len(".__init__")]
        try:
            importlib.import_module(mod)
        except Exception:  # noqa
            pass


def first_use_checks(ctx, world, tmproot, aes0, docs, base):
    """FIRST use of every format in this process, one small document per extractor module and suffix, with the
    residue snapshot (taken right after importing the whole library, before anything was extracted) compared after
    each: module-level / class-level state that only changes on first use (lazily built tables, registries) shows here
    and is attributed to the document that triggered it."""
    from sharepoint2text.parsing import router as _router
    import_whole_library()
    mon = ResidueMonitor(ctx, world, tmproot, aes0)
    fam = {}
    for d in sorted((x for x in docs if "/resources/" in x and "password" not in x), key=lambda q: os.path.getsize(q)):
        if base.get(d, "").startswith("ok:") and os.path.getsize(d) < 400_000:
            try:
                fam.setdefault((_router.get_extractor(d).__module__, Path(d).suffix), d)
            except Exception:  # noqa
                pass
    for d in fam.values():
        got = extract_digest(d)
        mon.step(f"first {Path(d).suffix} document of the process ({Path(d).name})", got, {"document": d, "first_use": True},
                 key=f"first-use:{Path(d).suffix}")
        if got != base[d]:
            ctx.finding(f"history-dependent:{Path(d).name}", f"{Path(d).name} extracted first in this process gives {got}, isolated "
                        f"baseline {base[d]}", {"document": d, "got": got, "baseline": base[d]})
        ctx.case(("first-use", Path(d).name), True, kind="first-use:sequential")
    return list(fam.values())


_FIRST_USE_SNIPPET = r"""
import sys, json, logging, threading, time
logging.disable(logging.CRITICAL)
sys.path.insert(0, '/verif/tools'); sys.path.insert(0, '/verif/tools/props')
import c15, sharepoint2text
job = json.loads(sys.stdin.read())
docs, n, slow0 = job['docs'], job['threads'], job['slow_thread0']
out = [None] * n
bar = threading.Barrier(n)
def tracer(frame, event, arg):
    # thread 0 gives the processor away at every line of library code: whatever it initialises lazily on first use
    # is observed half-built by the other threads if it is built in place
    if 'sharepoint2text' in frame.f_code.co_filename and 'tests' not in frame.f_code.co_filename:
        def local(frame, event, arg):
            if event == 'line':
                time.sleep(0)
            return local
        return local
    return None
def work(i):
    if slow0 and i == 0:
        sys.settrace(tracer)
    bar.wait()
    try:
        out[i] = c15.extract_digest(docs[i % len(docs)])
    finally:
        sys.settrace(None)
sys.setswitchinterval(1e-6)
ths = [threading.Thread(target=work, args=(i,), daemon=True) for i in range(n)]
[t.start() for t in ths]
[t.join(120) for t in ths]
print('RESULT' + json.dumps(out))
"""


def first_use_concurrency_checks(ctx, docs, base):
    """Race on FIRST use: in a fresh interpreter (nothing of that format extracted yet) N threads behind a barrier
    extract documents of ONE format at switch interval 1e-6 - once plainly, once with thread 0 yielding the processor at
    every line of library code; every thread's digest must equal the isolated baseline."""
    from concurrent.futures import ThreadPoolExecutor
    from sharepoint2text.parsing import router as _router
    byfmt = {}
    for d in sorted((x for x in docs if "/resources/" in x and "password" not in x), key=lambda q: os.path.getsize(q)):
        if base.get(d, "").startswith("ok:") and os.path.getsize(d) < ctx.n(300_000, 1_000_000):
            try:
                byfmt.setdefault(_router.get_extractor(d).__module__.split(".")[-1], []).append(d)
            except Exception:  # noqa
                pass
    jobs = []
    for fmt, ds in sorted(byfmt.items()):
        ds = ds[:3]
        for slow in ((True,) if ctx.tier == "quick" else (True, False)):
            jobs.append((fmt, slow, {"docs": ds, "threads": ctx.n(4, 8), "slow_thread0": slow}))

    def one(j):
        fmt, slow, job = j
        try:
            pr = subprocess.run([sys.executable, "-c", _FIRST_USE_SNIPPET], input=json.dumps(job), text=True, capture_output=True,
                                timeout=240, env=dict(os.environ))
            m = re.search(r"RESULT(.*)", pr.stdout)
            return fmt, slow, job, (json.loads(m.group(1)) if m else None), pr.stderr[-200:]
        except subprocess.TimeoutExpired:
            return fmt, slow, job, "timeout", ""
    with ThreadPoolExecutor(max_workers=6) as ex:
        results = list(ex.map(one, jobs))
    broken, seen = [], set()
    for fmt, slow, job, res, err in results:
        if res is None:
            broken.append(f"{fmt}: {err}")
            continue
        ctx.case(("first-use-threads", fmt, slow), True, kind="first-use:concurrent")
        if res == "timeout":
            if fmt not in seen:
                seen.add(fmt)
                ctx.finding(f"concurrent-interference:first-use-hang:{fmt}", f"{job['threads']} threads extracting {fmt} documents as the first "
                            "use in a fresh process do not finish within 240 s", job)
            continue
        for i, got in enumerate(res):
            d = job["docs"][i % len(job["docs"])]
            if got != base.get(d) and fmt not in seen:
                seen.add(fmt)
                ctx.finding(f"concurrent-interference:first-use:{fmt}",
                            f"fresh process, {job['threads']} threads behind a barrier extracting {fmt} documents for the first time"
                            f"{' (thread 0 yielding at every library line)' if slow else ''}: thread {i} gets {got} for {Path(d).name}, isolated "
                            f"baseline {base.get(d)}",
                            {"fresh_process": True, "documents": job["docs"], "threads": job["threads"], "thread0_yields_per_line": slow,
                             "switchinterval": 1e-6, "results": res, "baselines": [base.get(x) for x in job["docs"]]})
    ctx.obligation("first-use-subprocesses-completed", not broken, "; ".join(broken[:3]))


def write_damaged_files(fx, tmpdocs):
    """two failing variants (late failures preferred) of the smallest fixture of every suffix, as files"""
    out, seen = [], set()
    for p in sorted((Path(x) for x in fx), key=lambda q: q.stat().st_size):
        if p.suffix in seen or p.stat().st_size > 400_000:
            continue
        seen.add(p.suffix)
        data = p.read_bytes()
        vs = zip_member_variants(p)[:2] or []
        b = bytearray(data)
        o = len(b) // 2
        b[o:o + 8] = bytes(x ^ 0xFF for x in b[o:o + 8])
        vs.append(("flip8", bytes(b)))
        for i, (tag, d) in enumerate(vs[:2]):
            q = Path(tmpdocs) / f"dmg{i}_{p.name}"
            q.write_bytes(d)
            out.append(str(q))
    return out


def run(ctx):
    import logging
    logging.disable(logging.CRITICAL)
    tmproot = tempfile.mkdtemp(prefix="c15-", dir="/var/tmp")
    tmpdocs = tempfile.mkdtemp(prefix="c15docs-", dir="/var/tmp")
    tempfile.tempdir = tmproot
    os.environ["TMPDIR"] = tmproot
    try:
        _run(ctx, tmproot, tmpdocs)
    finally:
        tempfile.tempdir = None
        import shutil
        shutil.rmtree(tmproot, ignore_errors=True)
        shutil.rmtree(tmpdocs, ignore_errors=True)


def _run(ctx, tmproot, tmpdocs):
    from sharepoint2text.parsing.extractors.pdf import pdf_extractor as pe
    from sharepoint2text.parsing.extractors.pdf import _pypdf_aes_fallback as aes
    ctx.rule = ("a case is a schedule of k>=2 threads through the real patch/extract/restore context manager (non-trivial: "
                ">=1 context switch), a history of >=2 extractions / memo calls, or a pre-emptive multi-thread workload")
    ctx.trusted += [
        "oracle assumption: statement-level atomicity under the GIL (one model step = one Python statement of the "
        "context manager); `DEPTH += 1` counted as one statement",
        "X-translators (tools/props/c15.py translate/translate_rk/translate_font_key): python `ast`, fail-closed mapping of "
        "_patched_build_char_map to C15.Model.instr; one patch target (pypdf < 6.6: pypdf._page.build_char_map)",
        "line-gated scheduler: sys.settrace line events of CPython 3.12 (with-line visited again on exit = Release)",
        "oracles: pypdf (wrapper is result-neutral apart from the digit map), mimetypes.guess_type / router functions as pure "
        "functions (lru sites), _expand_key (proved in C20), TTF parsing (`features`)",
        "isolated baselines = fresh interpreter per document (testing); digests = sha1 of sorted-key to_json()",
        "store model (C15_no_other_shared_state): its hypothesis is the ast inventory Gen/C15Inventory.v; 'never mutated' is decided "
        "per identifier name over all library modules (aliasing through function arguments is not tracked - the ResidueMonitor "
        "re-checks contents at run time)",
        "NOT modelled (third-party / runtime): codecs search-function list (not inspectable from Python; inventory only); whole-"
        "extraction overlaps are forced probabilistically (switch interval 1e-6), controlled line-level schedules exist only for the "
        "char-map patch, _get_round_keys, _get_type_registry and omml_to_latex; lru_cache internals (CPython C code, thread-safe by "
        "its own lock) are an oracle - the memo model covers their observable behaviour; PDF crypt-filter variants that need "
        "re-encryption (/Identity, distinct /StmF and /StrF) are not generated",
    ]
    ctx.assumptions += ["CPython 3.12 GIL; pypdf 6.5.0 API (build_char_map in pypdf._page)", "threading.Lock (non re-entrant)"]
    import pypdf._crypt_providers._fallback as fb
    aes0 = fb.aes_cbc_decrypt is aes.aes_cbc_decrypt
    sk, rk_shape, rk_gates, fk, lru, notes = gen_files(ctx, pe, aes)
    ctx.extra["generated"] = notes

    ctx.prove("C15/Props.v", ["C15/ProofsPatch.vo", "C15/ProofsMemo.vo", "C15/ProofsShared.vo", "C15/Handles.vo"], expected=[
        "C15_patch_refuted", "C15_patch_interference_refuted", "C15_patch_nesting_unbounded", "C15_patch_restored",
        "C15_patch_inside_wrapped", "C15_patch_no_deadlock", "C15_sequential_residue_free", "C15_memo_transparent",
        "C15_round_keys_atomic_is_memo", "C15_round_key_cache_race_refuted", "C15_font_cache_transparent_refuted",
        "C15_font_cache_keyed_transparent", "C15_aes_patch_residue_refuted", "C15_aes_result_history_refuted",
        "C15_aes_result_history_independent", "C15_aes_guard_complete_independent", "C15_aes_guard_incomplete_refuted",
        "C15_type_registry_inplace_refuted", "C15_type_registry_publish_complete", "C15_no_other_shared_state",
        "C15_unclassified_shared_state_refuted", "C15_aes_residue_by_extraction_refuted", "C15_aes_at_import_residue_free",
        "C15_read_file_handles_closed", "C15_raw_open_then_wrap_refuted"])
    ctx.prove("C15/Inst.v", ["Gen/C15Skeleton.vo", "C15/Corr.vo", "C15/ProofsPatch.vo"], expected=[
        "C15_skeleton_is_locked_protocol", "C15_skeleton_restored", "C15_skeleton_inside_wrapped",
        "C15_single_patch_target", "C15_skeleton_safe_k2", "C15_skeleton_safe_k3_after_history"])
    ctx.prove("C15/InstMemo.v", ["Gen/C15Skeleton.vo"], expected=[
        "C15_round_key_cache_atomic", "C15_font_cache_key_has_glyph_ids", "C15_aes_fallback_install_safe"])

    # ---- documents and isolated baselines
    fx = [str(p) for p in fixtures()]
    wirecard = next((p for p in fx if "wirecard" in p), None)
    special = {}
    if wirecard:
        made = make_documents(wirecard, tmpdocs, ctx.tier)
        special.update({k: v for k, v in made.items() if k == "font_variant" or k.startswith("enc_") and k != "enc_error"})
        special["wirecard"] = wirecard
        ctx.extra["made_documents"] = {k: (v if k.endswith("error") else Path(v).name) for k, v in made.items()}
    g = Path(tmpdocs) / "garbage.pdf"
    g.write_bytes(b"%PDF-1.4\n" + bytes(ctx.rng.randrange(256) for _ in range(600)))
    special["garbage_pdf"] = str(g)
    docx = next((p for p in fx if p.endswith("headings.docx")), None)
    if docx:
        t = Path(tmpdocs) / "truncated.docx"
        t.write_bytes(Path(docx).read_bytes()[:9000])
        special["truncated_docx"] = str(t)
    formula_docs = []
    for kind in ("radical", "plain"):
        fp = str(Path(tmpdocs) / f"formula_{kind}.docx")
        make_formula_docx(fp, kind, 12)
        formula_docs.append(fp)
    docs = list(dict.fromkeys(fx + formula_docs + [v for k, v in special.items()]))
    t0 = time.time()
    base = isolated_baselines(docs, per_proc=1)
    ctx.extra["baseline_s"] = round(time.time() - t0, 1)
    badb = [d for d, v in base.items() if v.startswith("baseline-failed")]
    ctx.obligation("isolated-baselines-computed", not badb, f"{badb[:3]}")
    for d in badb:
        docs.remove(d)

    tm = ctx.extra.setdefault("phase_s", {})
    t1 = time.time()
    # nothing has been extracted in this process so far (baselines and generated documents come from subprocesses)
    first_use_checks(ctx, PatchWorld(pe, sk if sk is not None else Skeleton()), tmproot, aes0, docs, base)
    first_use_concurrency_checks(ctx, docs, base)
    tm["first-use"] = round(time.time() - t1, 1); t1 = time.time()
    unknown_sites = global_mutation_inventory(ctx)
    shared_mutable_inventory(ctx)
    yield_under_lock_inventory(ctx)
    try:
        rf_term, rf_err = translate_read_file(), None
    except TranslateError as e:
        rf_term, rf_err = "BNil", str(e)
    ctx.obligation("X:skeleton-translation(read_file)", rf_err is None, rf_err or "")
    ctx.gen_write("Gen/C15ReadFile.v", "(* GENERATED on every check run from the ast of sharepoint2text/__init__.py - do not edit. *)\n"
                  "From S2T Require Import C15.Handles.\n\n(* sharepoint2text.read_file"
                  + (" (TRANSLATION FAILED: " + rf_err.replace("*)", "") + ")" if rf_err else "") + " *)\n"
                  f"Definition read_file_skeleton : rblock :=\n  {rf_term}.\n")
    ctx.extra["read_file_skeleton"] = rf_term
    ctx.prove("C15/InstHandles.v", ["Gen/C15ReadFile.vo", "C15/Handles.vo"], expected=[
        "C15_read_file_no_raw_handles", "C15_read_file_skeleton_handles_closed", "C15_read_file_skeleton_exits"])
    from sharepoint2text.parsing.extractors import serialization as _ser
    try:
        reg_shape, reg_labels = translate_registry(_ser)
        reg_err = None
    except TranslateError as e:
        reg_shape, reg_labels, reg_err = "unknown", {}, str(e)
    ctx.obligation("X:shape-translation(_get_type_registry)", reg_err is None, reg_err or "")
    gen_inventory(ctx, unknown_sites, reg_shape)
    ctx.prove("C15/InstShared.v", ["Gen/C15Inventory.vo", "C15/ProofsShared.vo"], expected=[
        "C15_inventory_classified", "C15_mutation_sites_classified", "C15_inventory_no_other_shared_state",
        "C15_type_registry_shape_modelled"])
    if reg_shape in ("inplace", "publish"):
        registry_checks(ctx, reg_shape, reg_labels)
    import_order_checks(ctx, fx, tmpdocs, write_damaged_files(fx, tmpdocs))
    tm["inventories+import-order"] = round(time.time() - t1, 1); t1 = time.time()
    enc_family = [v for k, v in sorted(special.items()) if k.startswith("enc_") and "aes-256" not in k and v in base]
    enc_family += [d for d in docs if "password_protected" in d and d.endswith(".pdf")]
    enc_slow = [v for k, v in sorted(special.items()) if k.startswith("enc_aes-256") and v in base]
    fresh_process_history_checks(ctx, enc_family + ([] if ctx.tier == "quick" else enc_slow),
                                 enc_slow[:1] if ctx.tier == "quick" else [], base)
    tm["fresh-histories"] = round(time.time() - t1, 1); t1 = time.time()
    lockstep_generator_checks(ctx, docs, base)
    ambient_change_checks(ctx, fx, tmpdocs)
    small = [d for d in docs if "/resources/" in d and os.path.getsize(d) < 120_000][: ctx.n(36, 80)]
    common.env_sweep(ctx, "extraction-digest(read_file(fixture))", extract_digest, small, describe=lambda c: Path(c).name)
    tm["lockstep+ambient+env"] = round(time.time() - t1, 1); t1 = time.time()
    formula_concurrency_checks(ctx, tmpdocs, base)
    tm["formulas"] = round(time.time() - t1, 1); t1 = time.time()
    if sk is not None:
        world = patch_protocol_checks(ctx, pe, sk, notes)
        tm["schedules"] = round(time.time() - t1, 1); t1 = time.time()
        if wirecard:
            real_pdf_interference(ctx, world, wirecard, base[wirecard])
        tm["real_pdf"] = round(time.time() - t1, 1); t1 = time.time()
    else:
        world = PatchWorld(pe, Skeleton())
    memo_checks(ctx, pe, aes, lru, rk_shape, rk_gates, fk)
    tm["memo"] = round(time.time() - t1, 1); t1 = time.time()
    if wirecard:
        font_cache_checks(ctx, pe, world, wirecard, special.get("font_variant"), base)
    tm["font"] = round(time.time() - t1, 1); t1 = time.time()
    workload_checks(ctx, pe, aes, world, docs, base, tmproot, special, aes0)
    tm["workloads"] = round(time.time() - t1, 1)


META = {
    "technique": "Coq proof over an interleaving small-step semantics (unbounded threads, all schedules) of the patch/extract/"
                 "restore protocol + memo-table transparency; protocol term regenerated from the ast each run (fail-closed) "
                 "and obliged to be the proved protocol; line-gated scheduler replays the model's schedules on the real code",
    "design_ref": "DESIGN.md §5 C15, §10 scheduler probe",
    "level_text": "Kernel-checked: for the lock+counter protocol (the skeleton regenerated from pdf_extractor.py must equal it), for "
                  "ANY number of threads and ANY schedule, pypdf's function is exactly one wrapper deep while any with-body runs and "
                  "is restored (counter 0, lock free) when all have left, from any prior history; no deadlock; refutations with "
                  "vm_compute witnesses for the lock-free protocol (unbounded nesting), the font cache keyed by font bytes only and "
                  "the get/evict/move_to_end race of the round-key cache; lru/round-key memo transparency and boundedness for all "
                  "histories. Validated (testing): model==real context manager after every statement for all interleavings of 2 "
                  "(thorough: 3) threads, to_json digests under controlled and pre-emptive schedules and orderings vs fresh-process "
                  "baselines, temp-dir / fd / globals residue.",
    "level_note": "Trusted: Coq kernel+VM; statement-level atomicity under the GIL; the ast translators; sys.settrace line events; "
                  "pypdf, mimetypes, TTF parsing as oracles. The one-way AES fallback patch is a recorded known finding.",
}
