"""C08 — encrypted input is rejected as encrypted (before any content), plain input never is.

X: guard-dominance skeletons (ast -> C08.Flow.gs) of every extractor with an encryption check, regenerated
   each run into Gen/C08Skeletons.v; `guarded` re-decided by the kernel (C08/Inst.v).
G: constants of the detectors dumped into Gen/C08Tables.v.
D: generated encrypted/plain pairs per mechanism; the parsed view is recorded from the real libraries
   (olefile, zipfile, ElementTree, pypdf) or is the writer's own header description, handed to the Coq models,
   and compared with the implementation; the property oracle (exception class, results before it, all three
   entry points, no false positive, empty-password PDF == plain) is evaluated on the implementation directly.
"""
from __future__ import annotations

import contextlib
import glob
import io
import logging
import os
import struct
import tempfile
import zipfile
from xml.etree import ElementTree as ET

import common
from common import coq_str, coq_list, coq_bool, coq_eval_shards
from props import c08_flow as flow
from props import c08_writers as W

P = "sharepoint2text.parsing.extractors."
SKELETONS = [
    # (module, qualname, guard tests (outermost first), kwargs)
    (P + "ms_modern.docx_extractor", "read_docx", ["is_ooxml_encrypted(file_like)"], {}),
    (P + "ms_modern.xlsx_extractor", "read_xlsx", ["is_ooxml_encrypted(file_like)"], {}),
    (P + "ms_modern.pptx_extractor", "read_pptx", ["is_ooxml_encrypted(file_like)"], {}),
    (P + "ms_legacy.xls_extractor", "read_xls", ["is_xls_encrypted(file_like)"], {}),
    (P + "ms_legacy.ppt_extractor", "read_ppt", ["is_ppt_encrypted(file_like)"], {}),
    (P + "open_office.odt_extractor", "read_odt", ["is_odf_encrypted(file_like)"], {}),
    (P + "open_office.ods_extractor", "read_ods", ["is_odf_encrypted(file_like)"], {}),
    (P + "open_office.odp_extractor", "read_odp", ["is_odf_encrypted(file_like)"], {}),
    (P + "open_office.odg_extractor", "read_odg", ["is_odf_encrypted(file_like)"], {}),
    (P + "open_office.odf_extractor", "read_odf", ["is_odf_encrypted(file_like)"], {}),
    (P + "pdf.pdf_extractor", "read_pdf", ["reader.is_encrypted", "decrypt_result == 0"], {}),
    (P + "epub_extractor", "read_epub", ["_is_epub_encrypted(ctx)"], {}),
    (P + "archive_extractor", "_extract_from_7z_optimized", ["szf.needs_password()"], {}),
    # read_doc: the check lives in the callee; `document = doc.read()` is the guard of the generator and the
    # callee skeleton (return value = delivery) is guarded by the FIB test
    (P + "ms_legacy.doc_extractor", "read_doc", [], {"guard_stmt": "doc.read()"}),
    (P + "ms_legacy.doc_extractor", "_DocReader._parse_content", ["flags & FIB_ENCRYPTED_FLAG"],
     {"callee_mode": True, "drop_first": "if self._content is not None:\n    return self._content"}),
]
# registered extractors whose format has no encryption mechanism named by the property
NO_MECHANISM = [
    (P + "ms_legacy.rtf_extractor", "read_rtf", "RTF has no container-level encryption"),
    (P + "mail.msg_email_extractor", "read_msg_format_mail", "S/MIME bodies are attachments, not a container wrapper"),
    (P + "mail.mbox_email_extractor", "read_mbox_format_mail", "plain mailbox text"),
    (P + "mail.eml_email_extractor", "read_eml_format_mail", "plain RFC 822 text"),
    (P + "plain_extractor", "read_plain_text", "plain text"),
    (P + "html_extractor", "read_html", "plain markup"),
    (P + "mhtml_extractor", "read_mhtml", "MIME text"),
]
# the detector named in a guard must be THE detector of util/encryption.py
DETECTOR_NAMES = {"is_ooxml_encrypted", "is_xls_encrypted", "is_ppt_encrypted", "is_odf_encrypted"}

RES = None  # fixtures dir, set in run()


# ============================================================================ X + G
def gen_skeletons(ctx):
    import importlib
    from sharepoint2text.parsing.exceptions import ExtractionFileEncryptedError
    from sharepoint2text.parsing.extractors.util import encryption
    from sharepoint2text.parsing import router
    out, errors = [], []
    for mod, qn, tests, kw in SKELETONS:
        try:
            term, ng = flow.skeleton(mod, qn, ExtractionFileEncryptedError, tests, **kw)
            out.append((f"{mod}.{qn}", term))
            m = importlib.import_module(mod)
            for t in tests:
                nm = t.split("(")[0]
                if nm in DETECTOR_NAMES and getattr(m, nm, None) is not getattr(encryption, nm):
                    errors.append(f"{mod}.{qn}: {nm} is not util.encryption.{nm}")
        except Exception as e:  # noqa
            errors.append(f"{mod}.{qn}: {e}")
            out.append((f"{mod}.{qn}", "GYield"))  # fail closed: an unguarded skeleton
    # read_doc's callee chain: _DocReader.read is `return self._parse_content()`, a fresh reader has no cache
    try:
        import ast
        import inspect
        from sharepoint2text.parsing.extractors.ms_legacy import doc_extractor as de
        tree = ast.parse(inspect.getsource(de))
        rd = flow.find_function(tree, "_DocReader.read")
        body = [b for b in rd.body if not (isinstance(b, ast.Expr) and isinstance(b.value, ast.Constant))]
        if [ast.unparse(b) for b in body] != ["return self._parse_content()"]:
            errors.append("_DocReader.read is not `return self._parse_content()`")
        if de._DocReader(io.BytesIO(b""))._content is not None:
            errors.append("_DocReader starts with a cached _content")
    except Exception as e:  # noqa
        errors.append(f"_DocReader.read: {e}")
    # every registered extractor that mentions the encrypted error has a skeleton here (new ones fail closed)
    covered = {(m, q.split(".")[0]) for m, q, _, _ in SKELETONS}
    import inspect as _i
    seen = set()
    for _, (mod, fn) in router._EXTRACTOR_REGISTRY.items():
        if (mod, fn) in seen:
            continue
        seen.add((mod, fn))
        src = _i.getsource(getattr(importlib.import_module(mod), fn))
        if "ExtractionFileEncryptedError" in src and (mod, fn) not in covered:
            errors.append(f"{mod}.{fn} raises the encrypted error but has no skeleton")
    # ZIP route: two passes (flag check of every member, then yields)
    zip_prefix = "GYield"
    try:
        p1, ng, zip_prefix = flow.zip_two_pass(P + "archive_extractor", "_extract_from_zip_optimized", ExtractionFileEncryptedError,
                                               "info.flag_bits & 1", "files_to_process.append((info, filename, basename))")
        out.append((P + "archive_extractor._extract_from_zip_optimized#pass1-member", p1))
    except Exception as e:  # noqa
        errors.append(f"zip two-pass: {e}")
        out.append((P + "archive_extractor._extract_from_zip_optimized#pass1-member", "GYield"))
    # every registered extractor is classified; an unclassified (new) one fails closed
    classified = {}
    for mod, qn, _, _ in SKELETONS:
        classified[(mod, qn.split(".")[0])] = "guard-skeleton"
    classified[(P + "archive_extractor", "read_archive")] = "delegates: zip two-pass skeleton + model, 7z skeleton, tar has no encryption"
    for mod, fn, why in NO_MECHANISM:
        classified[(mod, fn)] = "no encryption mechanism of the property: " + why
    inv = {}
    for (mod, fn) in sorted(seen):
        inv[f"{mod.split('.')[-1]}.{fn}"] = classified.get((mod, fn), "UNCLASSIFIED")
        if (mod, fn) not in classified:
            errors.append(f"{mod}.{fn} is a registered extractor without a classification (guard skeleton / delegate / no mechanism)")
    ra = _i.getsource(getattr(importlib.import_module(P + "archive_extractor"), "read_archive"))
    for callee in ("_extract_from_zip_optimized", "_extract_from_7z_optimized"):
        if f"yield from {callee}(" not in ra:
            errors.append(f"read_archive no longer delegates with `yield from {callee}(`")
    ctx.extra["extractor_inventory"] = inv
    sbg = {}
    for mod, qn, tests, kw in SKELETONS:
        try:
            sbg[f"{mod.split('.')[-1]}.{qn}"] = flow.statements_before_guard(mod, qn, tests, kw.get("guard_stmt"))
        except Exception as e:  # noqa
            sbg[f"{mod.split('.')[-1]}.{qn}"] = f"error: {e}"
    ctx.extra["statements_before_guard"] = sbg
    ctx.obligation("translator:all-guard-skeletons-translated", not errors, "; ".join(errors))
    txt = "(* GENERATED on every check run from /repo's source by tools/props/c08_flow.py — do not edit. *)\n"
    txt += "From Coq Require Import String List.\nFrom S2T Require Import C08.Flow.\nImport ListNotations.\nOpen Scope string_scope.\n\n"
    # strict = the skeleton of a whole generator/callee: with the detector true it must END WITH AN EXCEPTION
    # (no silent return); the per-member body of the ZIP pass-1 loop legitimately `continue`s for directories
    txt += "Definition skeletons : list (string * bool * gs) := [\n" + ";\n".join(
        f'  ("{n}", {"false" if "#pass1-member" in n else "true"}, {t})' for n, t in out) + "\n].\n"
    txt += f"\n(* the with-block of the ZIP route up to (excluding) the second loop *)\nDefinition zip_prefix : gs := {zip_prefix}.\n"
    ctx.gen_write("Gen/C08Skeletons.v", txt)
    return errors


def gen_tables(ctx):
    from sharepoint2text.parsing.extractors.util import encryption, sevenzip
    from sharepoint2text.parsing.extractors.ms_legacy import doc_extractor as de
    from sharepoint2text.parsing.extractors import epub_extractor as ee

    def consts(f):
        out = []
        for c in f.__code__.co_consts:
            if isinstance(c, tuple):
                out += list(c)
            else:
                out.append(c)
        return out
    enc = [c for c in consts(encryption._has_ole_encryption_stream) if isinstance(c, str)]
    ppt = [c for c in consts(encryption.is_ppt_encrypted) if isinstance(c, str)]
    xls_ints = [c for c in consts(encryption.is_xls_encrypted) if isinstance(c, int) and not isinstance(c, bool) and c >= 0]
    find = [c for c in consts(ee._is_epub_encrypted) if isinstance(c, str) and "EncryptedData" in c]
    obf = sorted(getattr(ee, "_FONT_OBFUSCATION_ALGORITHMS", ()))
    txt = "(* GENERATED on every check run from the live modules of /repo — do not edit. *)\n"
    txt += "From S2T Require Import Lib.PyStr.\n\n"
    txt += "Definition g_enc_streams : list str := " + coq_list([coq_str(x) for x in enc]) + ".\n"
    txt += "Definition g_ppt_streams : list str := " + coq_list([coq_str(x) for x in ppt]) + ".\n"
    txt += f"Definition g_ppt_token_aware : bool := {coq_bool(ppt_token_aware())}.\n"
    txt += "Definition g_xls_ints : list N := [" + "; ".join(str(x) for x in xls_ints) + "]%N.\n"
    txt += f"Definition g_min_doc_size : nat := {int(de.MIN_DOC_SIZE)}.\n"
    txt += f"Definition g_doc_magics : list N := [{int(de.FIB_MAGIC_WORD97)}; {int(de.FIB_MAGIC_WORD95)}]%N.\n"
    txt += f"Definition g_fib_flags_offset : nat := {int(de.FIB_FLAGS_OFFSET)}.\n"
    txt += f"Definition g_fib_flag : N := {int(de.FIB_ENCRYPTED_FLAG)}%N.\n"
    txt += "Definition g_aes_prefix : list N := " + common.coq_bytes(sevenzip.CODER_AES_PREFIX) + ".\n"
    txt += "Definition g_epub_findall : str := " + (coq_str(find[0]) if find else "[]") + ".\n"
    txt += "Definition g_obfuscation : list str := " + coq_list([coq_str(x) for x in obf]) + ".\n"
    ctx.gen_write("Gen/C08Tables.v", txt)


# ============================================================================ Coq terms of views
def cb(b: bytes) -> str:
    return common.coq_bytes(b)


def c_xml(e) -> str:
    tag = e.tag if isinstance(e.tag, str) else "#comment"
    if tag.startswith("{"):
        ns, local = tag[1:].split("}", 1)
    else:
        ns, local = "", tag
    attrs = []
    for k, v in e.attrib.items():
        k2 = k.split("}", 1)[1] if k.startswith("{") else k
        attrs.append(f"({coq_str(k2)}, {coq_str(v)})")
    kids = [c_xml(c) for c in list(e) if isinstance(c.tag, str)]
    return f"(El {coq_str(ns) if ns else '[]'} {coq_str(local)} {coq_list(attrs)} {coq_list(kids)})"


def c_opt_strs(x) -> str:
    return "None" if x is None else "(Some " + coq_list([coq_str(n) for n in x]) + ")"


# ============================================================================ environment
def env_cases(ctx, e2e):
    """A sample of the generated pairs (every mechanism, both verdicts) must give the same outcome under DEBUG
    logging, in a worker thread, under other time zones and in another cwd (common.env_sweep)."""
    from sharepoint2text.parsing import router
    rng = ctx.rng
    by_kind = {}
    for s in e2e.sample:
        by_kind.setdefault(s[0], []).append(s)
    picked = []
    per = ctx.n(14, 60)
    for kind, lst in sorted(by_kind.items()):
        rng.shuffle(lst)
        picked += lst[:per]

    def outcome(case):
        kind, key, ext, data = case
        fn = router.get_extractor("x" + ext)
        o = run_gen(fn, data, path="x" + ext)
        return (o.cls, o.n)
    restore_pristine_pypdf()
    common.env_sweep(ctx, "extract-outcome", outcome, picked, describe=lambda c: f"{c[0]}:{c[1]} ({len(c[3])} bytes)")
    restore_pristine_pypdf()


# ============================================================================ running the implementation
class Outcome:
    def __init__(self, cls, n, msg=""):
        self.cls, self.n, self.msg = cls, n, msg

    @property
    def enc(self):
        return self.cls == "ExtractionFileEncryptedError"

    def __repr__(self):
        return f"{self.cls or 'ok'}/{self.n}"


def run_gen(fn, data: bytes, path=None) -> Outcome:
    n = 0
    try:
        for _ in fn(io.BytesIO(data), path=path):
            n += 1
        return Outcome(None, n)
    except Exception as e:  # noqa
        return Outcome(type(e).__name__, n, str(e))


def run_read_file(tmpdir, name, data) -> Outcome:
    import sharepoint2text
    fp = os.path.join(tmpdir, name)
    with open(fp, "wb") as f:
        f.write(data)
    n = 0
    try:
        for _ in sharepoint2text.read_file(fp):
            n += 1
        return Outcome(None, n)
    except Exception as e:  # noqa
        return Outcome(type(e).__name__, n, str(e))


def run_cli(tmpdir, name, data):
    from sharepoint2text import cli
    fp = os.path.join(tmpdir, name)
    with open(fp, "wb") as f:
        f.write(data)
    so, se = io.StringIO(), io.StringIO()
    with contextlib.redirect_stdout(so), contextlib.redirect_stderr(se):
        try:
            rc = cli.main([fp])
        except SystemExit as e:  # noqa
            rc = e.code
    return rc, so.getvalue(), se.getvalue()


class E2E:
    """End-to-end oracle over the three entry points."""
    def __init__(self, ctx, tmpdir):
        self.ctx, self.tmp = ctx, tmpdir
        self.sample = []

    def check(self, key, kind, fn, ext, data, expect_enc, cli=True):
        ctx = self.ctx
        o1 = run_gen(fn, data, path="x" + ext)
        o2 = run_read_file(self.tmp, "case" + ext, data)
        # second occurrence: the same stream object handed to the extractor again must be treated the same
        bio = io.BytesIO(data)
        reps = []
        for _ in range(2):
            n = 0
            try:
                for _r in fn(bio, path="x" + ext):
                    n += 1
                reps.append((None, n))
            except Exception as e:  # noqa
                reps.append((type(e).__name__, n))
        if reps[0] != reps[1] or reps[0] != (o1.cls, o1.n):
            ctx.finding(key + ":repeat", f"{kind}: extracting the same stream again gives {reps[1]} after {reps[0]} (fresh stream: {o1!r})",
                        {"kind": kind, "ext": ext, "input": data, "runs": reps})
        if len(data) < 200000 and not (kind == "pdf" and "AES" in key):
            self.sample.append((kind, key, ext, data))
        ctx.case((kind, key, expect_enc, len(data), hash(data) & 0xFFFFFFFF), True, kind=f"{kind}:{'enc' if expect_enc else 'plain'}")
        rep = {"kind": kind, "ext": ext, "input": data, "expected_encrypted": expect_enc,
               "extractor": repr(o1), "read_file": repr(o2)}
        if expect_enc:
            for via, o in (("extractor", o1), ("read_file", o2)):
                if not o.enc or o.n != 0:
                    ctx.finding(key, f"{kind}: encrypted input not rejected as encrypted before any content via {via}: "
                                f"got {o!r} ({o.msg[:80]})", rep)
            if cli:
                rc, so, se = run_cli(self.tmp, "cli" + ext, data)
                if rc != 1 or so != "" or o2.msg not in se:
                    ctx.finding(key, f"{kind}: CLI on encrypted input: rc={rc} stdout={len(so)}B stderr={se[:80]!r}", rep)
        else:
            for via, o in (("extractor", o1), ("read_file", o2)):
                if o.enc:
                    ctx.finding(key, f"{kind}: plain input rejected as encrypted via {via} after {o.n} result(s) ({o.msg[:60]})", rep)
            if cli and o2.cls is None and o2.n > 0:
                rc, so, se = run_cli(self.tmp, "cli" + ext, data)
                if rc != 0:
                    ctx.finding(key, f"{kind}: CLI fails on plain input: rc={rc} stderr={se[:80]!r}", rep)
        return o1


# ============================================================================ mechanism: BIFF / XLS
class FakeOle:
    """Stands for olefile inside util.encryption (the container parser is the oracle): arbitrary small
    streams reach the real record walk."""
    def __init__(self, entries, streams):
        self.entries, self.streams = entries, streams

    def isOleFile(self, f):
        return True

    def OleFileIO(self, f):
        return self

    def __enter__(self):
        return self

    def __exit__(self, *a):
        return False

    def _find(self, name):
        for e in self.entries:
            if e.lower() == name.lower():
                return e
        return None

    def exists(self, name):
        return self._find(name) is not None

    def openstream(self, name):
        return io.BytesIO(self.streams[self._find(name).lower()])


def ser_recs(recs) -> bytes:
    return b"".join(struct.pack("<HH", i, len(p)) + p for i, p in recs)


def biff_cases(ctx, cases, info):
    from sharepoint2text.parsing.extractors.util import encryption
    rng = ctx.rng
    ids = [0x0809, 0x000A, 0x002F, 0x022F, 0x2F00, 0x0042, 0x00E1, 0x0085, 0x0000, 0xFFFF]
    streams = []
    for _ in range(ctx.n(120, 1500)):
        recs = []
        for _ in range(rng.randint(0, 9)):
            rid = rng.choice(ids) if rng.random() < 0.8 else rng.randrange(65536)
            if rid == 0x2F and rng.random() < 0.6:
                rid = 0x0809
            ln = rng.choice([0, 0, 2, 4, 6, 16, rng.randint(0, 40)])
            pl = bytes(rng.choice([0x2F, 0x00, rng.randrange(256)]) for _ in range(ln))
            recs.append((rid, pl))
        tail = bytes(rng.randrange(256) for _ in range(rng.randint(0, 3)))
        streams.append((ser_recs(recs) + tail, any(r[0] == 0x2F for r in recs), "wellformed"))
        # FILEPASS at every record index of this stream
        if len(recs) <= 5 and not any(r[0] == 0x2F for r in recs):
            for i in range(len(recs) + 1):
                r2 = recs[:i] + [(0x2F, bytes(rng.randrange(256) for _ in range(rng.choice([0, 4, 6, 54]))))] + recs[i:]
                streams.append((ser_recs(r2) + tail, True, "filepass-at-index"))
    for _ in range(ctx.n(60, 600)):  # malformed: arbitrary bytes, truncated records, lying lengths
        k = rng.randint(0, 40)
        streams.append((bytes(rng.choice([0x2F, 0, 1, 4, 0xFF, rng.randrange(256)]) for _ in range(k)), None, "malformed"))
    saved = encryption.olefile
    try:
        for data, expect, kind in streams:
            nm = rng.choice(["Workbook", "Workbook", "Book", "WORKBOOK", "book", "Other"])
            entries = [nm, "\x05SummaryInformation"]
            other = bytes(rng.randrange(256) for _ in range(rng.randint(0, 8)))
            both = rng.random() < 0.15
            if both:
                entries.append("Book" if nm.lower() == "workbook" else "Workbook")
            st = {nm.lower(): data}
            for e in entries:
                st.setdefault(e.lower(), other)
            encryption.olefile = FakeOle(entries, st)
            got = bool(encryption.is_xls_encrypted(io.BytesIO(b"x")))
            view = (f"(Some {{| x_entries := {coq_list([coq_str(e) for e in entries])}; "
                    f"x_workbook := {cb(st.get('workbook', b''))}; x_book := {cb(st.get('book', b''))} |}})")
            cases.append(f"CXls {view} {coq_bool(got)}")
            info.append(("xls-walk", kind, data.hex()[:80], got))
            ctx.case(("biff", data, nm, both), kind != "malformed", kind="biff:" + kind)
            if expect is not None and nm.lower() in ("workbook", "book") and not both and got != expect:
                ctx.finding(f"biff-walk:{kind}", f"is_xls_encrypted={got} on a well-formed record stream whose FILEPASS "
                            f"presence is {expect}", {"stream": data, "stream_name": nm})
    finally:
        encryption.olefile = saved
    encryption.olefile = saved
    cases.append("CXls None false")
    info.append(("xls-not-ole", "", "", False))


def xls_e2e(ctx, e2e):
    from sharepoint2text.parsing.extractors.ms_legacy.xls_extractor import read_xls
    rng = ctx.rng
    for fx in sorted(glob.glob(str(RES / "legacy_ms" / "*.xls"))):
        data = open(fx, "rb").read()
        base = os.path.basename(fx)
        e2e.check(f"xls-plain:{base}", "xls", read_xls, ".xls", data, False, cli=False)
        try:
            wb = W.ole_read_stream(data, "Workbook")
            W.ole_stream_offsets(data, "Workbook")
        except Exception:  # noqa
            continue
        offs, off = [], 0
        while off + 4 <= len(wb):
            offs.append(off)
            off += 4 + struct.unpack_from("<H", wb, off + 2)[0]
        pick = [0, 1, len(offs) - 1] + [rng.randrange(len(offs)) for _ in range(ctx.n(3, 25))]
        for i in sorted(set(p for p in pick if 0 <= p < len(offs))):
            enc = W.ole_patch(data, "Workbook", [(offs[i], b"\x2f\x00")])  # record i becomes FILEPASS (same length)
            e2e.check(f"xls-filepass-at-record:{base}", "xls", read_xls, ".xls", enc, True, cli=(i == 0))
    # the three FILEPASS flavours ([MS-XLS] 2.4.117) inserted after the first BOF of every fixture's Workbook
    # stream, the payload of the following records scrambled as an encrypter would leave it (headers in clear)
    flavours = {
        "xor-obfuscation": struct.pack("<HHH", 0, 0x5A5A, 0x1234),
        "rc4": struct.pack("<HHH", 1, 1, 1) + bytes(rng.randrange(256) for _ in range(48)),
        "rc4-cryptoapi": struct.pack("<HHHI", 1, 4, 2, 0x04) + struct.pack("<I", 0x7E) + struct.pack("<IIIIIIII", 0x04, 0, 0x6801, 0x8004, 128, 1, 0, 0)
        + "Microsoft Enhanced Cryptographic Provider v1.0".encode("utf-16-le") + b"\0\0" + struct.pack("<I", 16)
        + bytes(rng.randrange(256) for _ in range(32)) + struct.pack("<I", 20) + bytes(rng.randrange(256) for _ in range(20)),
    }
    for fx in sorted(glob.glob(str(RES / "legacy_ms" / "*.xls"))):
        base = os.path.basename(fx)
        try:
            streams = W.ole_all_streams(open(fx, "rb").read())
        except ValueError:
            ctx.count("xls-filepass-flavours-skipped(nested storage)")
            continue
        wb = dict(streams).get("Workbook") or dict(streams).get("Book")
        if not wb:
            continue
        first = 4 + struct.unpack_from("<H", wb, 2)[0]
        for nm, payload in flavours.items():
            rest, off = bytearray(), first
            ks = W.rc4(b"c08" + nm.encode(), bytes(len(wb)))
            while off + 4 <= len(wb):
                rid, ln = struct.unpack_from("<HH", wb, off)
                body = wb[off + 4: off + 4 + ln]
                if rid not in (0x0809, 0x002F, 0x00E1, 0x00E2):       # BOF, FILEPASS, INTERFACEHDR/END stay in the clear
                    body = bytes(a ^ b for a, b in zip(body, ks[off: off + ln]))
                rest += wb[off: off + 4] + body
                off += 4 + ln
            new_wb = wb[:first] + struct.pack("<HH", 0x2F, len(payload)) + payload + bytes(rest)
            nm_stream = "Workbook" if dict(streams).get("Workbook") else "Book"
            data = W.cfb([(n, new_wb if n == nm_stream else d) for n, d in streams])
            e2e.check(f"xls-filepass-flavour:{nm}", "xls", read_xls, ".xls", data, True, cli=(nm == "rc4"))
        e2e.check(f"xls-rebuilt-plain:{base}", "xls", read_xls, ".xls", W.cfb(streams), False, cli=False)
    # synthetic container, BIFF stream with FILEPASS after BOF
    recs = [(0x0809, b"\0\6\5\0" + b"\0" * 12), (0x2F, b"\1\0\1\0" + b"\0" * 50), (0x0A, b"")]
    e2e.check("xls-synthetic-filepass", "xls", read_xls, ".xls", W.cfb([("Workbook", ser_recs(recs))]), True)
    e2e.check("xls-synthetic-book-filepass", "xls", read_xls, ".xls", W.cfb([("Book", ser_recs(recs))]), True)
    e2e.check("xls-synthetic-plain", "xls", read_xls, ".xls", W.cfb([("Workbook", ser_recs([recs[0], recs[2]]))]), False, cli=False)


# ============================================================================ mechanism: OLE stream names
NAME_POOL = ["EncryptionInfo", "EncryptedPackage", "DataSpaces", "\x06DataSpaces", "encryptioninfo", "ENCRYPTEDPACKAGE",
             "dataspaces", "WordDocument", "Workbook", "PowerPoint Document", "EncryptedSummary",
             "EncryptedSummaryInformation", "encryptedsummary", "Current User", "\x05SummaryInformation",
             "EncryptionInfo2", "XEncryptedPackage", "Encrypted", "Package", "1Table"]


def ppt_token_aware() -> bool:
    """Does today's is_ppt_encrypted look at CurrentUserAtom.headerToken (0xF3D1C4DF)?  (G: co_consts)"""
    from sharepoint2text.parsing.extractors.util import encryption
    def ints(code):
        out = []
        for c in code.co_consts:
            if isinstance(c, int) and not isinstance(c, bool):
                out.append(c)
            elif isinstance(c, bytes):
                out.append(int.from_bytes(c, "little"))
                out.append(int.from_bytes(c, "big"))
            elif hasattr(c, "co_consts"):
                out += ints(c)
        return out
    return 0xF3D1C4DF in ints(encryption.is_ppt_encrypted.__code__)


def ppt_crypto_cases(ctx, cases, info, e2e):
    """Legacy PPT really encrypted with RC4 CryptoAPI ([MS-PPT] 2.3.7) by the harness writer, with and without
    encrypted document properties (= with and without an EncryptedSummary stream), plus header-token surgery."""
    import olefile
    from sharepoint2text.parsing.extractors.util import encryption
    from sharepoint2text.parsing.extractors.ms_legacy.ppt_extractor import read_ppt
    aware = ppt_token_aware()
    for fx in sorted(glob.glob(str(RES / "legacy_ms" / "*.ppt"))):
        data = open(fx, "rb").read()
        base = os.path.basename(fx)
        variants = []
        try:
            rebuilt = W.cfb(W.ole_all_streams(data))
            variants.append(("rebuilt-plain", rebuilt, False))
            for pw in ("pw123", ""):
                variants.append((f"cryptsession10-no-encryptedsummary", W.ppt_encrypt(data, password=pw, doc_props_encrypted=False), True))
                variants.append((f"cryptsession10-with-encryptedsummary", W.ppt_encrypt(data, password=pw, doc_props_encrypted=True), True))
        except (AssertionError, ValueError):
            ctx.count("ppt-encrypt-writer-skipped(multi-edit or nested storage)")
        # header-token surgery alone (same size): marked encrypted / token cleared on an encrypted one
        try:
            variants.append(("header-token-set", W.ole_patch(data, "Current User", [(12, bytes.fromhex("DFC4D1F3"))]), None))
        except Exception:  # noqa
            pass
        for nm, d, expect in variants:
            with olefile.OleFileIO(io.BytesIO(d)) as ole:
                listed = [p[0] for p in ole.listdir(streams=True, storages=True) if len(p) == 1]
                cu = ole.openstream("Current User").read() if ole.exists("Current User") else b""
            tok = f"(Some {int.from_bytes(cu[12:16], 'little')})" if len(cu) >= 16 else "None"
            g = bool(encryption.is_ppt_encrypted(io.BytesIO(d)))
            cases.append(f"CPpt {coq_bool(aware)} {c_opt_strs(listed)} {tok} {coq_bool(g)}")
            info.append(("ppt-crypto", base, nm, g))
            if expect is None:
                ctx.case(("ppt-token", base), True, kind="ppt:token-surgery")
                continue
            e2e.check(f"ppt-{nm}", "ppt", read_ppt, ".ppt", d, expect, cli=(nm != "rebuilt-plain"))


def ole_cases(ctx, cases, info, e2e):
    import olefile
    from sharepoint2text.parsing.extractors.util import encryption
    from sharepoint2text.parsing.extractors.ms_modern.docx_extractor import read_docx
    from sharepoint2text.parsing.extractors.ms_modern.xlsx_extractor import read_xlsx
    from sharepoint2text.parsing.extractors.ms_modern.pptx_extractor import read_pptx
    from sharepoint2text.parsing.extractors.ms_legacy.ppt_extractor import read_ppt
    rng = ctx.rng
    sets = [[n] for n in NAME_POOL] + [["EncryptionInfo", "EncryptedPackage", "\x06DataSpaces"], []]
    for _ in range(ctx.n(40, 400)):
        sets.append(rng.sample(NAME_POOL, rng.randint(0, 5)))
    for names in sets:
        lowered = set()
        names = [n for n in names if not (n.lower() in lowered or lowered.add(n.lower()))]
        storages = [n for n in names if n.endswith("DataSpaces") or (n == "Package" and rng.random() < 0.5)]
        streams = [(n, bytes(rng.randrange(256) for _ in range(8))) for n in names if n not in storages]
        data = W.cfb(streams, storages)
        with olefile.OleFileIO(io.BytesIO(data)) as ole:
            listed = [p[0] for p in ole.listdir(streams=True, storages=True) if len(p) == 1]
        if sorted(listed) != sorted(names):
            ctx.obligation("harness:cfb-writer-roundtrip", False, f"{names!r} vs {listed!r}")
            continue
        g1 = bool(encryption.is_ooxml_encrypted(io.BytesIO(data)))
        g2 = bool(encryption.is_ppt_encrypted(io.BytesIO(data)))
        cases.append(f"COoxml {c_opt_strs(listed)} {coq_bool(g1)}")
        info.append(("ooxml-names", repr(listed), "", g1))
        cases.append(f"CPpt {coq_bool(ppt_token_aware())} {c_opt_strs(listed)} None {coq_bool(g2)}")
        info.append(("ppt-names", repr(listed), "", g2))
        low = {n.lower() for n in names}
        want1 = bool(low & {"encryptioninfo", "encryptedpackage", "dataspaces"})
        want2 = want1 or bool(low & {"encryptedsummary", "encryptedsummaryinformation"})
        ctx.case(("ole", tuple(sorted(names))), True, kind="ole-names:" + ("enc" if want2 else "plain"))
        if g1 != want1:
            ctx.finding("ooxml-stream-names", f"is_ooxml_encrypted={g1} for root entries {names!r}", {"input": data})
        if g2 != want2:
            ctx.finding("ppt-stream-names", f"is_ppt_encrypted={g2} for root entries {names!r}", {"input": data})
    for blob in (b"", b"PK\x03\x04" + b"\0" * 40, bytes.fromhex("D0CF11E0A1B11AE1"), b"%PDF-1.4"):
        try:
            is_ole = olefile.isOleFile(io.BytesIO(blob))
        except Exception:  # noqa
            is_ole = False
        if not is_ole:
            g = bool(encryption.is_ooxml_encrypted(io.BytesIO(blob)))
            cases.append(f"COoxml None {coq_bool(g)}")
            info.append(("ooxml-not-ole", blob[:8].hex(), "", g))
    # end to end: each wrapper stream alone and the full ECMA-376 layout, for the three OOXML readers and PPT
    payload = bytes(rng.randrange(256) for _ in range(5000))
    for ext, fn in ((".docx", read_docx), (".xlsx", read_xlsx), (".pptx", read_pptx)):
        for nm in ("EncryptionInfo", "EncryptedPackage"):
            e2e.check(f"ooxml-ole-wrapped{ext}:{nm}", "ooxml-ole", fn, ext, W.cfb([(nm, payload)]), True, cli=(nm == "EncryptedPackage"))
        e2e.check(f"ooxml-ole-wrapped{ext}:full", "ooxml-ole", fn, ext,
                  W.cfb([("EncryptionInfo", payload[:300]), ("EncryptedPackage", payload)], ["\x06DataSpaces"]), True)
        e2e.check(f"ooxml-ole-wrapped{ext}:DataSpaces", "ooxml-ole", fn, ext, W.cfb([("x", b"1")], ["DataSpaces"]), True, cli=False)
    for nm in ("EncryptedSummary", "EncryptionInfo"):
        e2e.check(f"ppt-ole:{nm}", "ppt", read_ppt, ".ppt", W.cfb([(nm, payload), ("PowerPoint Document", payload)]), True)
    for fx in sorted(glob.glob(str(RES / "modern_ms" / "*.*x"))) + sorted(glob.glob(str(RES / "legacy_ms" / "*.ppt"))):
        ext = os.path.splitext(fx)[1]
        fn = {".docx": read_docx, ".xlsx": read_xlsx, ".pptx": read_pptx, ".ppt": read_ppt}.get(ext)
        if fn:
            e2e.check(f"plain-fixture:{os.path.basename(fx)}", "plain-fixture", fn, ext, open(fx, "rb").read(), False, cli=False)


# ============================================================================ mechanism: DOC FIB flag
def doc_cases(ctx, cases, info, e2e):
    from sharepoint2text.parsing.extractors.ms_legacy.doc_extractor import read_doc
    rng = ctx.rng

    def code(o: Outcome):
        if o.enc:
            return 0
        if o.cls == "LegacyMicrosoftParsingError" and ("small" in o.msg or "valid .doc" in o.msg):
            return 1
        return 2
    for fx in sorted(glob.glob(str(RES / "legacy_ms" / "*.doc"))) + sorted(glob.glob(str(RES / "legacy_ms" / "password_protected" / "*.doc"))):
        data = open(fx, "rb").read()
        base = os.path.basename(fx)
        try:
            wd = W.ole_read_stream(data, "WordDocument")
        except Exception:  # noqa  (two fixtures of the repository are empty files)
            continue
        protected = "password" in base
        for setbit in (True, False):
            b11 = (wd[11] | 1) if setbit else (wd[11] & 0xFE)
            variant = W.ole_patch(data, "WordDocument", [(11, bytes([b11]))])
            o = e2e.check(f"doc-fib-bit:{base}:{'set' if setbit else 'clear'}", "doc-fib", read_doc, ".doc", variant, setbit,
                          cli=setbit and not protected)
            wd2 = wd[:11] + bytes([b11]) + wd[12:600]
            cases.append(f"CDoc {cb(wd2)} {code(o)}")
            info.append(("doc-fib", base, f"bit={setbit}", repr(o)))
        # other flag bits must not matter
        for _ in range(ctx.n(2, 10)):
            lo, hi = rng.randrange(256), rng.randrange(256)
            variant = W.ole_patch(data, "WordDocument", [(10, bytes([lo, hi]))])
            e2e.check(f"doc-fib-flags:{base}", "doc-fib", read_doc, ".doc", variant, bool(hi & 1), cli=False)
    # synthetic WordDocument streams: size, magic and flag decide
    for _ in range(ctx.n(25, 200)):
        magic = rng.choice([0xA5EC, 0xA5EC, 0xA5DC, 0xA5EB, 0x0000])
        flags = rng.choice([0x0100, 0x0000, 0xFEFF, 0x0101, rng.randrange(65536)])
        wd = bytearray(rng.randrange(256) for _ in range(4096))
        struct.pack_into("<H", wd, 0, magic)
        struct.pack_into("<H", wd, 10, flags)
        data = W.cfb([("WordDocument", bytes(wd)), ("1Table", bytes(4096))])
        o = run_gen(read_doc, data)
        ctx.case(("doc-synth", magic, flags), True, kind="doc-synthetic")
        cases.append(f"CDoc {cb(bytes(wd[:600]))} {code(o)}")
        info.append(("doc-synth", hex(magic), hex(flags), repr(o)))
        want = magic in (0xA5EC, 0xA5DC) and bool(flags & 0x100)
        if o.enc != want or (o.enc and o.n):
            ctx.finding("doc-fib-synthetic", f"read_doc -> {o!r} for magic {magic:#x} flags {flags:#x}", {"input": data})


# ============================================================================ mechanism: ODF manifest
MANIFEST_NS = "urn:oasis:names:tc:opendocument:xmlns:manifest:1.0"
ENC_CHILD = ('<manifest:encryption-data manifest:checksum-type="SHA1/1K" manifest:checksum="AAAA">'
             '<manifest:algorithm manifest:algorithm-name="Blowfish CFB" manifest:initialisation-vector="AAAA"/>'
             '<manifest:key-derivation manifest:key-derivation-name="PBKDF2" manifest:iteration-count="1024" manifest:salt="AAAA"/>'
             '</manifest:encryption-data>')


def odf_view(data: bytes):
    """(coq term of the odf_view, spec: does the manifest contain an encryption-data element)"""
    if not zipfile.is_zipfile(io.BytesIO(data)):
        return "OdfNotZip", False
    with zipfile.ZipFile(io.BytesIO(data)) as zf:
        try:
            raw = zf.read("META-INF/manifest.xml")
        except KeyError:
            return "OdfNoManifest", False
    try:
        root = ET.fromstring(raw)
    except ET.ParseError:
        return "OdfBadManifest", False
    spec = any(isinstance(e.tag, str) and e.tag.rsplit("}", 1)[-1] == "encryption-data" for e in root.iter())
    return f"(OdfManifest {c_xml(root)})", spec


def odf_cases(ctx, cases, info, e2e):
    from sharepoint2text.parsing.extractors.util import encryption
    from sharepoint2text.parsing.extractors.open_office.odt_extractor import read_odt
    from sharepoint2text.parsing.extractors.open_office.ods_extractor import read_ods
    from sharepoint2text.parsing.extractors.open_office.odp_extractor import read_odp
    from sharepoint2text.parsing.extractors.open_office.odg_extractor import read_odg
    from sharepoint2text.parsing.extractors.open_office.odf_extractor import read_odf
    readers = {".odt": read_odt, ".ods": read_ods, ".odp": read_odp, ".odg": read_odg, ".odf": read_odf}
    rng = ctx.rng

    def man_edit(f):
        def ed(items):
            return [(n, f(d) if n == "META-INF/manifest.xml" else d) for n, d in items]
        return ed

    def one(key, ext, data, expect, cli=False):
        view, spec = odf_view(data)
        got = bool(encryption.is_odf_encrypted(io.BytesIO(data)))
        cases.append(f"COdf {view} {coq_bool(got)}")
        info.append(("odf", key, "", got))
        if expect is None:
            expect = spec
        e2e.check(key, "odf", readers[ext], ext, data, expect, cli=cli)
        if got != expect:
            ctx.finding(key, f"is_odf_encrypted={got}, manifest has encryption-data element: {expect}", {"input": data, "ext": ext})

    plain = sorted(p for p in glob.glob(str(RES / "open_office" / "*.od?")))
    for fx in plain:
        ext = os.path.splitext(fx)[1]
        if ext not in readers:
            continue
        data = open(fx, "rb").read()
        base = os.path.basename(fx)
        one(f"odf-plain:{base}", ext, data, False)
        if base not in ("sample_document.odt", "sample_spreadsheet.ods", "sample_presentation.odp", "drawing.odg", "formular.odf") \
                and ctx.tier == "quick":
            continue
        # plain packages whose manifest merely MENTIONS the words
        mention = [
            ("member-named-encryption-data", lambda d: d.replace(b"</manifest:manifest>", b'<manifest:file-entry manifest:full-path="encryption-data.xml" manifest:media-type="text/xml"/></manifest:manifest>')),
            ("comment", lambda d: d.replace(b"</manifest:manifest>", b"<!-- no manifest:encrypted-key here --></manifest:manifest>")),
            ("media-type-attr", lambda d: d.replace(b"</manifest:manifest>", b'<manifest:file-entry manifest:full-path="x/manifest:algorithm.txt" manifest:media-type="text/plain"/></manifest:manifest>')),
        ]
        for nm, f in mention:
            one(f"odf-substring-false-positive:{nm}", ext, W.rezip(data, man_edit(f)), False, cli=(nm == "comment"))
        # encryption-data inserted under the k-th file-entry (content replaced by noise, as an encrypter would)
        man = zipfile.ZipFile(io.BytesIO(data)).read("META-INF/manifest.xml")
        n_entries = man.count(b"<manifest:file-entry")
        idxs = sorted(set([0, 1, n_entries - 1] + [rng.randrange(n_entries) for _ in range(ctx.n(1, 6))]))
        for k in idxs:
            def ins(d, k=k):
                parts = d.split(b"<manifest:file-entry")
                seg = parts[k + 1]
                end = seg.find(b"/>")
                gt = seg.find(b">")
                if end >= 0 and end < gt + 1:
                    seg = seg[:end] + b">" + ENC_CHILD.encode() + b"</manifest:file-entry>" + seg[end + 2:]
                else:
                    seg = seg[:gt + 1] + ENC_CHILD.encode() + seg[gt + 1:]
                parts[k + 1] = seg
                return b"<manifest:file-entry".join(parts)

            def ed(items, ins=ins):
                return [(n, ins(d) if n == "META-INF/manifest.xml" else
                         (bytes(rng.randrange(256) for _ in range(len(d) % 997 + 64)) if n == "content.xml" else d)) for n, d in items]
            one(f"odf-encryption-data-at-entry:{ext}", ext, W.rezip(data, ed), True, cli=(k == 0))
    for fx in sorted(glob.glob(str(RES / "open_office" / "password_protected" / "*"))):
        ext = os.path.splitext(fx)[1]
        data = open(fx, "rb").read()
        base = os.path.basename(fx)
        one(f"odf-protected-fixture:{base}", ext, data, True, cli=True)
        spell = [
            ("utf16-manifest", lambda d: d.decode("utf-8").replace('encoding="UTF-8"', 'encoding="UTF-16"').encode("utf-16")),
            ("other-prefix", lambda d: d.replace(b"manifest:", b"m:").replace(b"xmlns:m=", b"xmlns:m=") if b"xmlns:manifest=" not in d
             else d.replace(b"xmlns:manifest=", b"xmlns:m=").replace(b"<manifest:", b"<m:").replace(b"</manifest:", b"</m:").replace(b" manifest:", b" m:")),
            ("char-refs-in-attrs", lambda d: d.replace(b'manifest:media-type="', b'manifest:media-type="&#x20;')),
        ]
        for nm, f in spell:
            one(f"odf-manifest-spelling:{nm}", ext, W.rezip(data, man_edit(f)), True)
    # structural edge cases
    base = open(str(RES / "open_office" / "sample_document.odt"), "rb").read()
    one("odf-no-manifest", ".odt", W.rezip(base, lambda it: [(n, d) for n, d in it if n != "META-INF/manifest.xml"]), False)
    one("odf-unparsable-manifest", ".odt", W.rezip(base, man_edit(lambda d: d[: len(d) // 2])), False)
    one("odf-not-a-zip", ".odt", b"hello world", False)


# ============================================================================ mechanism: ZIP
def zip_cases(ctx, cases, info, e2e):
    from sharepoint2text.parsing.extractors import archive_extractor as ax
    rng = ctx.rng
    pool = [("a.txt", b"alpha text"), ("docs/b.md", b"# beta"), ("c.csv", b"x,y\n1,2\n"), ("skip.bin", b"\0\1\2"),
            (".hidden.txt", b"h"), ("d.json", b'{"k": 1}'), ("e.txt", b"epsilon " * 40), ("inner.zip", b"PK\x05\x06" + b"\0" * 18)]
    n_cases = ctx.n(60, 600)
    for ci in range(n_cases):
        k = rng.randint(1, 5)
        members = rng.sample(pool, k)
        if rng.random() < 0.25:      # only members the library never hands to an extractor
            members = [m for m in pool if m[0] in ("skip.bin", ".hidden.txt", "inner.zip")][:rng.randint(1, 3)]
        with_dir = rng.random() < 0.4
        bio = io.BytesIO()
        with zipfile.ZipFile(bio, "w") as z:
            if with_dir:
                z.writestr("docs/", b"")
            for n, d in members:
                z.writestr(n, d, compress_type=rng.choice([zipfile.ZIP_STORED, zipfile.ZIP_DEFLATED]))
        data = bio.getvalue()
        mode = rng.choice(["plain", "plain", "flag-one", "flag-one", "flag-all", "flag-dir-only", "unsupported-method",
                           "flag-local-only", "other-flag-bits", "bad-crc"])
        names = [n for n, _ in members]
        expect = False
        if mode == "flag-one":
            data = W.zip_patch(data, rng.choice(names).encode(), flag_or=1)
            expect = True
        elif mode == "flag-all":
            for n in names:
                data = W.zip_patch(data, n.encode(), flag_or=1)
            expect = True
        elif mode == "flag-dir-only":
            if not with_dir:
                mode = "plain"
            else:
                data = W.zip_patch(data, b"docs/", flag_or=1)
        elif mode == "unsupported-method":
            data = W.zip_patch(data, rng.choice(names).encode(), method=rng.choice([9, 97, 98]))
        elif mode == "flag-local-only":
            data = W.zip_patch(data, rng.choice(names).encode(), flag_or=1, where=("local",))
        elif mode == "other-flag-bits":
            data = W.zip_patch(data, rng.choice(names).encode(), flag_or=rng.choice([0x0800, 0x0002, 0x0004]))
        elif mode == "bad-crc":
            i = data.find(b"PK\x03\x04")
            d2 = bytearray(data)
            d2[i + 14] ^= 0xFF
            j = data.find(b"PK\x01\x02")
            d2[j + 16] ^= 0xFF
            data = bytes(d2)
        # view (zipfile = oracle; per-member extraction = oracle)
        ms = []
        with zipfile.ZipFile(io.BytesIO(data)) as zf:
            for inf in zf.infolist():
                fn, bn = inf.filename, os.path.basename(inf.filename)
                skip = bool(ax._should_skip_file(fn, bn))
                big = inf.file_size > ax._config.max_memory_size
                rd = "ZOther"
                if not inf.is_dir():
                    try:
                        raw = zf.read(inf)
                        rd = f"(ZOk {len(list(ax._process_archive_entry(fn, raw, 'x.zip', bn)))})"
                    except NotImplementedError:
                        rd = "ZNotImpl"
                    except RuntimeError:
                        rd = "ZRuntime"
                    except Exception:  # noqa
                        rd = "ZOther"
                ms.append(f"{{| z_dir := {coq_bool(inf.is_dir())}; z_flags := {inf.flag_bits}; z_skip := {coq_bool(skip)}; "
                          f"z_big := {coq_bool(big)}; z_read := {rd} |}}")
        o = run_gen(lambda f, path=None: ax._extract_from_zip_optimized(f, path), data, path="x.zip")
        code = 0 if o.cls is None else (1 if o.enc else 2)
        cases.append(f"CZip {coq_list(ms)} {o.n} {code}")
        info.append(("zip", mode, repr(names), repr(o)))
        e2e.check(f"zip:{mode}", "zip", ax.read_archive, ".zip", data, expect, cli=(ci < 12))


# ============================================================================ mechanism: 7z
def sevenz_cases(ctx, cases, info, e2e):
    from sharepoint2text.parsing.extractors import archive_extractor as ax
    rng = ctx.rng
    coders = [(W.COPY, None), (W.COPY, None), (W.BCJ, None), (W.AES, b"\x13\x00"), (b"\x06\xf1\x07", None),
              (b"\x06\xf1\x07\x01\x02", b"\x00"), (b"\x06\xf1", None), (b"\x06\xf1\x08\x01", None), (b"\x07\xf1\x07\x01", None),
              (b"\x00\x06\xf1\x07", None)]
    pool = [("a.txt", b"alpha text"), ("b.md", b"# beta"), ("c.csv", b"x,y\n1,2\n")]
    # member population: what the archive holds must not matter for "encrypted => rejected"
    unsupported = [("scan.png", b"\x89PNG\r\n\x1a\n" + b"\0" * 20), ("tool.exe", b"MZ" + b"\0" * 30), ("backup.zip", b"PK\x05\x06" + b"\0" * 18),
                   (".hidden.txt", b"h"), ("photo.jpg", b"\xff\xd8\xff\xd9"), ("inner.tar.gz", b"\x1f\x8b" + b"\0" * 16), ("lib.dll", b"MZ\0\0")]
    for ci in range(ctx.n(70, 500)):
        k = rng.randint(1, 3)
        population = rng.choice(["supported", "supported", "unsupported-only", "unsupported-only", "mixed"])
        if population == "supported":
            members = pool[:k]
        elif population == "unsupported-only":
            members = rng.sample(unsupported, k)
        else:
            members = rng.sample(pool, 1) + rng.sample(unsupported, k - 1) if k > 1 else rng.sample(unsupported, 1)
            rng.shuffle(members)
        fcs = []
        for _ in range(k):
            nc = rng.choice([1, 1, 2])
            cs = [rng.choice(coders) if rng.random() < 0.5 else (W.COPY, None) for _ in range(nc)]
            fcs.append(cs)
        header = rng.choice(["plain", "plain", "lzma", "aes"])
        data = W.sevenz(members, fcs, header=header)
        aes_main = any(c[0].startswith(b"\x06\xf1\x07") for cs in fcs for c in cs)
        expect = aes_main or header == "aes"
        hdr = "None" if header == "plain" else ("(Some [[" + cb(W.LZMA if header == "lzma" else W.AES) + "]])")
        main = coq_list([coq_list([cb(c[0]) for c in cs]) for cs in fcs])
        o = e2e.check(f"7z:{'header-' + header if header != 'plain' else 'plain-header'}:{'aes' if aes_main else 'noaes'}:members-{population}",
                      "7z", ax.read_archive, ".7z", data, expect, cli=(ci < 10))
        cases.append(f"C7z {{| sz_hdr := {hdr}; sz_main := {main} |}} {coq_bool(o.enc)}")
        info.append(("7z", header, repr(fcs), repr(o)))
    fx = RES / "archives" / "test_archive.7z"
    e2e.check("7z-plain-fixture", "7z", ax.read_archive, ".7z", open(fx, "rb").read(), False)


# ============================================================================ mechanism: EPUB
XMLENC = "http://www.w3.org/2001/04/xmlenc#"
OBF = ["http://www.idpf.org/2008/embedding", "http://ns.adobe.com/pdf/enc#RC"]
REAL = ["http://www.w3.org/2001/04/xmlenc#aes128-cbc", "http://www.w3.org/2001/04/xmlenc#aes256-cbc", "urn:example:drm"]


def epub_cases(ctx, cases, info, e2e):
    from sharepoint2text.parsing.extractors import epub_extractor as ee
    rng = ctx.rng
    base = open(str(RES / "epub" / "sample.epub"), "rb").read()

    def ed(alg, ns=XMLENC, method=True):
        m = f'<enc:EncryptionMethod Algorithm="{alg}"/>' if method and alg is not None else ("<enc:EncryptionMethod/>" if method else "")
        return (f'<enc:EncryptedData xmlns:enc="{ns}">{m}<enc:CipherData><enc:CipherReference URI="OEBPS/x"/></enc:CipherData>'
                f'</enc:EncryptedData>')

    docs = [("absent", None, False), ("empty", '<encryption xmlns="urn:oasis:names:tc:opendocument:xmlns:container"/>', False),
            ("malformed", "<encryption", False),
            ("root-is-EncryptedData", ed(REAL[0]), False),
            ("wrong-namespace", f'<encryption xmlns="urn:x">{ed(REAL[0], ns="urn:not-xmlenc")}</encryption>', False)]
    for a in OBF:
        docs.append((f"font-obfuscation:{a.split('/')[-1]}", f'<encryption xmlns="urn:x">{ed(a)}{ed(a)}</encryption>', False))
    for a in REAL:
        docs.append((f"drm:{a.split('#')[-1]}", f'<encryption xmlns="urn:x">{ed(a)}</encryption>', True))
    docs.append(("drm-no-method", f'<encryption xmlns="urn:x">{ed(None, method=False)}</encryption>', True))
    docs.append(("drm-method-without-algorithm", f'<encryption xmlns="urn:x">{ed(None)}</encryption>', True))
    docs.append(("drm-nested-deep", f'<encryption xmlns="urn:x"><a><b>{ed(REAL[0])}</b></a></encryption>', True))
    for _ in range(ctx.n(20, 200)):  # DRM entry at any position among obfuscated fonts
        n = rng.randint(1, 5)
        algs = [rng.choice(OBF) for _ in range(n)]
        drm = rng.random() < 0.6
        if drm:
            algs[rng.randrange(n)] = rng.choice(REAL)
        docs.append(("mixed:" + ("drm" if drm else "fonts-only"), '<encryption xmlns="urn:x">' + "".join(ed(a) for a in algs) + "</encryption>", drm))
    for key, xml, drm in docs:
        for rights in ((False, True) if key in ("absent", "empty", "malformed") or key.startswith("font") else (False,)):
            def add(items, xml=xml, rights=rights):
                items = list(items)
                if xml is not None:
                    items.append(("META-INF/encryption.xml", xml.encode()))
                if rights:
                    items.append(("META-INF/rights.xml", b"<rights/>"))
                return items
            data = W.rezip(base, add)
            if xml is None:
                ev = "EncAbsent"
            else:
                try:
                    ev = f"(EncRoot {c_xml(ET.fromstring(xml))})"
                except ET.ParseError:
                    ev = "EncUnparsable"
            ctxo = ee._EpubContext(io.BytesIO(data))
            try:
                got = bool(ee._is_epub_encrypted(ctxo))
            finally:
                ctxo.close()
            cases.append(f"CEpub {{| e_encxml := {ev}; e_rights := {coq_bool(rights)} |}} {coq_bool(got)}")
            info.append(("epub", key, f"rights={rights}", got))
            k2 = f"epub-{key}" + ("+rights" if rights else "")
            e2e.check(k2, "epub", ee.read_epub, ".epub", data, drm or rights, cli=not key.startswith("mixed"))
    for fx in sorted(glob.glob(str(RES / "epub" / "*.epub"))):
        e2e.check(f"epub-plain-fixture:{os.path.basename(fx)}", "epub", ee.read_epub, ".epub", open(fx, "rb").read(), False, cli=False)


# ============================================================================ mechanism: PDF
@contextlib.contextmanager
def independent_aes_for_writing():
    """pypdf's fallback provider cannot do AES.  For WRITING test inputs only, plug the harness's own AES
    (c08_writers, built from the algebraic S-box definition) into the fallback's encrypt side, and undo it
    afterwards so that the extractor under test meets the unpatched provider."""
    import secrets
    import pypdf._crypt_providers._fallback as fb
    import pypdf._encryption as pe
    saved = {}

    class CryptAES(fb.CryptBase):
        def __init__(self, key):
            self.key = key

        def encrypt(self, data):
            iv = secrets.token_bytes(16)
            p = 16 - len(data) % 16
            return iv + W.aes_cbc_encrypt(self.key, iv, data + bytes([p]) * p)

        def decrypt(self, data):
            raise fb.DependencyError("harness AES is write-only")

    def ecb(key, data):
        return W.aes_ecb_encrypt(key, data)

    def cbc_enc(key, iv, data):
        return W.aes_cbc_encrypt(key, iv, data)
    targets = [(fb, "CryptAES", CryptAES), (fb, "aes_ecb_encrypt", ecb), (fb, "aes_cbc_encrypt", cbc_enc)]
    for mod in (pe, __import__("pypdf._crypt_providers", fromlist=["x"])):
        for nm, v in (("CryptAES", CryptAES), ("aes_ecb_encrypt", ecb), ("aes_cbc_encrypt", cbc_enc)):
            if hasattr(mod, nm):
                targets.append((mod, nm, v))
    for mod, nm, v in targets:
        saved[(mod, nm)] = getattr(mod, nm)
        setattr(mod, nm, v)
    try:
        yield
    finally:
        for (mod, nm), v in saved.items():
            setattr(mod, nm, v)


def _pypdf_state():
    import pypdf._crypt_providers as providers
    import pypdf._crypt_providers._fallback as fb
    import pypdf._encryption as pe
    st = []
    for mod in (fb, providers, pe):
        for nm in ("aes_ecb_encrypt", "aes_ecb_decrypt", "aes_cbc_encrypt", "aes_cbc_decrypt", "CryptAES"):
            if hasattr(mod, nm):
                st.append((mod, nm, getattr(mod, nm)))
    for nm in ("__init__", "encrypt", "decrypt"):
        st.append((fb.CryptAES, nm, fb.CryptAES.__dict__.get(nm)))
    return st


_PRISTINE = _pypdf_state()   # taken when the harness is imported, before any extraction ran


def restore_pristine_pypdf():
    """Every PDF case starts from the library state of a fresh process (the repository's AES fallback is a
    permanent process-wide patch; whether it is installed must not depend on earlier cases)."""
    for obj, nm, v in _PRISTINE:
        if v is None:
            if nm in obj.__dict__:
                delattr(obj, nm)
        else:
            setattr(obj, nm, v)


# ============================================================================ the AES fallback's padding / CBC layer
def _page_view(docs):
    return [[(p.text, [(getattr(i, "data", None), getattr(i, "caption", None), getattr(i, "width", None),
                        getattr(i, "height", None)) for i in p.images], len(p.tables)) for p in d.pages]
            + [d.metadata.total_pages] for d in docs]


def pkcs7_cases(ctx, cases, info):
    """Every string and stream of an AES PDF passes through _pkcs7_unpad(CBC-decrypt(...)).  Three layers:
    (1) the helpers against the Coq model (Pad.v) on all length residues, every valid padding value and
        invalid paddings; (2) the patched CryptAES / aes_cbc_* against the harness's independent AES, for
        AES-128 and AES-256 keys and plaintext lengths covering every residue mod 16 on both sides of block
        boundaries; (3) (pdf_boundary_cases) whole PDFs whose string / stream lengths sweep the residues."""
    from sharepoint2text.parsing.extractors.pdf import _pypdf_aes_fallback as fbk
    rng = ctx.rng
    BS = 16

    def rb(n):
        return bytes(rng.randrange(256) for _ in range(n))
    # ---- (1) helpers
    datas = []
    for n in list(range(0, 50)) + [63, 64, 65, 255, 256, 257]:
        datas.append(("pad", rb(n)))
        datas.append(("pad", bytes([rng.choice([0, 16, 15, 1])]) * n))     # data that itself looks like padding
    for kind, d in datas:
        try:
            padded = bytes(fbk._pkcs7_pad(d, BS))
        except Exception as e:  # noqa
            ctx.finding("pkcs7-pad-raises", f"_pkcs7_pad raised {type(e).__name__} on {len(d)} bytes", {"data": d})
            continue
        cases.append(f"CPad {BS} {cb(d)} {cb(padded)}")
        info.append(("pkcs7-pad", len(d), "", len(padded)))
        try:
            back = bytes(fbk._pkcs7_unpad(padded, BS))
        except Exception as e:  # noqa
            back = None
        ctx.case(("pkcs7", d), True, kind=f"pkcs7-roundtrip:len%16={len(d) % 16}")
        if back != d:
            ctx.finding(f"pkcs7-roundtrip:len%16=={len(d) % 16}",
                        f"_pkcs7_unpad(_pkcs7_pad(d)) != d for len(d)={len(d)} ({'raised' if back is None else str(len(back)) + ' bytes back'})",
                        {"data": d, "padded": padded, "got": back})
    un = []
    for p in range(0, 20):                       # every claimed padding value, valid tail
        for pre in (0, 1, 15, 16, 17, rng.randint(0, 40)):
            un.append(rb(pre) + bytes([p]) * max(p, 1))
    for _ in range(ctx.n(80, 600)):              # arbitrary tails: wrong fill bytes, p > len, big p
        n = rng.randint(0, 36)
        d = bytearray(rb(n))
        if n and rng.random() < 0.7:
            p = rng.choice([0, 1, 2, 15, 16, 17, 32, 255, rng.randrange(256)])
            d[-1] = p
            if rng.random() < 0.6:
                for k in range(1, min(p, n) + 1):
                    d[-k] = p
                if p and rng.random() < 0.3 and n >= 2:
                    d[-min(p, n)] ^= 1
        un.append(bytes(d))
    for d in un:
        try:
            got = bytes(fbk._pkcs7_unpad(d, BS))
            term = f"(Some {cb(got)})"
        except ValueError:
            got, term = None, "None"
        except Exception as e:  # noqa
            ctx.finding("pkcs7-unpad-raises", f"_pkcs7_unpad raised {type(e).__name__}", {"data": d})
            continue
        cases.append(f"CUnpad {BS} {cb(d)} {term}")
        info.append(("pkcs7-unpad", d.hex()[:60], "", None if got is None else len(got)))
        ctx.case(("unpad", d), True, kind="pkcs7-unpad")
    # ---- (2) CryptAES / CBC of the patched provider vs the independent AES
    restore_pristine_pypdf()
    try:
        if not fbk.patch_pypdf_fallback_aes():
            ctx.count("aes-fallback-not-in-use")
            return
        import pypdf._crypt_providers._fallback as fb
        lengths = sorted(set(list(range(0, 50)) + [79, 80, 81, 511, 512, 513] + [rng.randint(50, 400) for _ in range(ctx.n(6, 60))]))
        for klen in (16, 32):
            for n in lengths:
                key, iv, d = rb(klen), rb(16), rb(n)
                pad = 16 - n % 16
                ct = iv + W.aes_cbc_encrypt(key, iv, d + bytes([pad]) * pad)     # what a conforming writer stores
                tag = f"aes{klen * 8}:len%16=={n % 16}"
                ctx.case(("cryptaes", klen, n), True, kind="cryptaes:" + ("boundary" if n % 16 == 0 else "inner"))
                try:
                    got = bytes(fb.CryptAES(key).decrypt(ct))
                except Exception as e:  # noqa
                    got = repr(e)
                if got != d:
                    ctx.finding(f"cryptaes-decrypt:{tag}", f"fallback CryptAES.decrypt of a correctly encrypted {n}-byte plaintext "
                                f"returns {len(got) if isinstance(got, bytes) else got} (AES-{klen * 8})",
                                {"key": key, "ciphertext": ct, "plaintext": d, "got": got})
                try:
                    ct2 = bytes(fb.CryptAES(key).encrypt(d))
                    ok = (len(ct2) == 16 + n + pad and ct2[16:] == W.aes_cbc_encrypt(key, ct2[:16], d + bytes([pad]) * pad)
                          and bytes(fb.CryptAES(key).decrypt(ct2)) == d)
                except Exception as e:  # noqa
                    ok, ct2 = False, repr(e).encode()
                if not ok:
                    ctx.finding(f"cryptaes-encrypt:{tag}", f"fallback CryptAES.encrypt/decrypt round trip or ciphertext differs from "
                                f"the independent AES for a {n}-byte plaintext (AES-{klen * 8})", {"key": key, "plaintext": d, "ciphertext": ct2})
    finally:
        restore_pristine_pypdf()


def synthetic_pdf(content_mod, img_len, alt_len, algorithm=None, user="", owner="owner-pw", lines=8):
    """One page: UNCOMPRESSED content stream whose length is = content_mod (mod 16), an unfiltered gray image of
    img_len bytes with an /Alt string of alt_len characters.  Nothing hides a trailing padding block."""
    from pypdf import PdfWriter
    from pypdf.generic import (DecodedStreamObject, DictionaryObject, NameObject, NumberObject, TextStringObject)
    w = PdfWriter()
    page = w.add_blank_page(612, 792)
    font = DictionaryObject({NameObject("/Type"): NameObject("/Font"), NameObject("/Subtype"): NameObject("/Type1"),
                             NameObject("/BaseFont"): NameObject("/Helvetica")})
    img = DecodedStreamObject()
    img.set_data(bytes((7 * k + 3) & 0xFF for k in range(img_len)))
    img.update({NameObject("/Type"): NameObject("/XObject"), NameObject("/Subtype"): NameObject("/Image"),
                NameObject("/Width"): NumberObject(img_len), NameObject("/Height"): NumberObject(1),
                NameObject("/ColorSpace"): NameObject("/DeviceGray"), NameObject("/BitsPerComponent"): NumberObject(8),
                NameObject("/Alt"): TextStringObject("".join(chr(97 + k % 26) for k in range(alt_len)))})
    page[NameObject("/Resources")] = DictionaryObject({
        NameObject("/Font"): DictionaryObject({NameObject("/F1"): w._add_object(font)}),
        NameObject("/XObject"): DictionaryObject({NameObject("/Im0"): w._add_object(img)})})
    ops = ["BT /F1 12 Tf 72 760 Td 14 TL"] + ["(line %02d alpha beta gamma) Tj T*" % i for i in range(lines)] + ["ET"]
    ops.append("q 40 0 0 40 72 300 cm /Im0 Do Q")
    data = "\n".join(ops).encode("ascii") + b"\n"
    while len(data) % 16 != content_mod:
        data += b"\n"
    st = DecodedStreamObject()
    st.set_data(data)
    page[NameObject("/Contents")] = w._add_object(st)
    if algorithm is not None:
        with (independent_aes_for_writing() if algorithm.startswith("AES") else contextlib.nullcontext()):
            w.encrypt(user_password=user, owner_password=owner, algorithm=algorithm)
            out = io.BytesIO()
            w.write(out)
    else:
        out = io.BytesIO()
        w.write(out)
    return out.getvalue()


def pdf_step_cases(ctx, cases, info, data, tag):
    """_open_pdf_reader + the password test against the Coq model pdf_decide, from a fresh library state and
    from a state in which an earlier document already installed the AES fallback."""
    from pypdf import PdfReader
    from pypdf.errors import DependencyError
    import pypdf._crypt_providers as providers
    import pypdf._crypt_providers._fallback as fb
    from sharepoint2text.parsing.extractors.pdf import _pypdf_aes_fallback as fbk
    from sharepoint2text.parsing.extractors.pdf.pdf_extractor import read_pdf
    restore_pristine_pypdf()
    try:
        PdfReader(io.BytesIO(data))
        ctor = False
    except DependencyError as e:
        ctor = "AES algorithm" in str(e)
    except Exception:  # noqa
        return
    on_fb = providers.crypt_provider[0] == "local_crypt_fallback"
    fbk.patch_pypdf_fallback_aes()
    try:
        r = PdfReader(io.BytesIO(data))
        is_enc = bool(r.is_encrypted)
        try:
            dec = f"(DecReturns {int(r.decrypt(''))})" if is_enc else "(DecReturns 0)"
        except Exception:  # noqa
            dec = "DecRaises"
    except Exception:  # noqa
        restore_pristine_pypdf()
        return
    env = (f"{{| ctor_needs_aes := {coq_bool(ctor)}; on_fallback := {coq_bool(on_fb)}; "
           f"pe_view := {{| p_is_encrypted := {coq_bool(is_enc)}; p_decrypt_empty := {dec} |}} |}}")
    for installed0 in (False, True):
        restore_pristine_pypdf()
        if installed0:
            fbk.patch_pypdf_fallback_aes()
        o = run_gen(read_pdf, data, path="x.pdf")
        installed = fb.aes_cbc_decrypt is fbk.aes_cbc_decrypt
        code = 1 if o.enc else (0 if "cryptography" in o.msg or "DependencyError" in o.msg else 2)
        if o.cls == "ExtractionFailedError" and not installed and is_enc:
            code = 0 if ctor else 2
        cases.append(f"CPdfStep {env} {coq_bool(installed0)} {code} {coq_bool(installed)}")
        info.append(("pdf-step", tag, f"installed0={installed0}", f"{o!r} installed={installed}"))
        ctx.case(("pdf-step", tag, installed0), True, kind=f"pdf-step:{'fresh' if not installed0 else 'after-earlier-aes-document'}")
        if is_enc and on_fb and o.cls is None and not installed:
            ctx.finding(f"pdf-aes-not-installed:{tag}", f"encrypted PDF ({tag}) was read to the end without the AES fallback installed "
                        f"(installed before: {installed0})", {"input": data})
    restore_pristine_pypdf()


def pdf_boundary_cases(ctx, e2e, cases=None, info=None):
    """Empty-user-password twins of synthetic PDFs: the lengths of the content stream, the image stream and the
    /Alt string sweep the residues mod 16 (quick: all 16 residues jointly for AES-128, a sample for the other
    algorithms and for independent residues; thorough: all residues for every algorithm)."""
    from sharepoint2text.parsing.extractors.pdf.pdf_extractor import read_pdf
    rng = ctx.rng
    plans = []
    full = ["AES-128"] if ctx.tier == "quick" else ["AES-128", "AES-256-R5", "RC4-128", "AES-256"]
    for alg in full:
        # AES-256 (revision 6: ~10 s per document in pure Python) runs last, boundary residues first, under a budget
        for r in ([0, 15, 1, 8] + [x for x in range(16) if x not in (0, 15, 1, 8)]):
            plans.append((alg, r, 16 + r if r else 32, 16 + r if r else 16))
    R6_BUDGET_S = 300
    r6_spent, r6_done, r6_skipped = 0.0, 0, 0
    import time as _time
    for alg in (["AES-256-R5", "RC4-128", "RC4-40"] if ctx.tier == "quick" else ["RC4-40"]):
        for r in (0, 1, 15):
            plans.append((alg, r, 16 + r if r else 32, 16 + r if r else 16))
    for _ in range(ctx.n(6, 40)):          # independent residues per object
        plans.append((rng.choice(["AES-128", "AES-256-R5"]), rng.randrange(16), rng.randint(1, 70), rng.randint(0, 40)))
    ref_cache = {}
    plans.sort(key=lambda pl: pl[0] == "AES-256")      # stable: revision-6 documents last
    for alg, cmod, ilen, alen in plans:
        k = (cmod, ilen, alen)
        if alg == "AES-256":
            if r6_spent > R6_BUDGET_S:
                r6_skipped += 1
                continue
            _t0 = _time.time()
        try:
            if k not in ref_cache:
                plain = synthetic_pdf(cmod, ilen, alen)
                ref_cache[k] = (plain, _page_view(list(read_pdf(io.BytesIO(plain), path="x.pdf"))))
            plain, ref = ref_cache[k]
            data = synthetic_pdf(cmod, ilen, alen, algorithm=alg)
        except Exception as e:  # noqa
            ctx.count(f"pdf-writer-unavailable:{alg}")
            ctx.extra.setdefault("pdf_writer_errors", {})[alg] = repr(e)[:200]
            continue
        if not ref or not ref[0] or not ref[0][0][0].strip() or not ref[0][0][1]:
            ctx.obligation("harness:synthetic-pdf-has-text-and-image", False, f"plain synthetic PDF extracts as {ref!r}"[:300])
            continue
        restore_pristine_pypdf()
        try:
            got = _page_view(list(read_pdf(io.BytesIO(data), path="x.pdf")))
            err = None
        except Exception as e:  # noqa
            got, err = None, f"{type(e).__name__}: {e}"
        if cases is not None and alg != "AES-256":
            pdf_step_cases(ctx, cases, info, data, f"{alg}:content%16={cmod}")
            if (cmod, ilen, alen) == plans[0][1:]:
                pdf_step_cases(ctx, cases, info, plain, "plain")
        if alg == "AES-256":
            r6_spent += _time.time() - _t0
            r6_done += 1
        ctx.case(("pdf-boundary", alg, cmod, ilen, alen), True,
                 kind=f"pdf-boundary:{alg}:{'multiple-of-16' if 0 in (cmod, ilen % 16, alen % 16) else 'inner'}")
        if got != ref:
            which = []
            if got is not None:
                if got[0][0][0] != ref[0][0][0]:
                    which.append("page text")
                if [i[0] for i in got[0][0][1]] != [i[0] for i in ref[0][0][1]]:
                    which.append("image bytes")
                if [i[1] for i in got[0][0][1]] != [i[1] for i in ref[0][0][1]]:
                    which.append("image caption")
            ctx.finding(f"pdf-boundary:{alg}:content%16=={cmod}:image%16=={ilen % 16}:alt%16=={alen % 16}",
                        f"empty-user-password {alg} PDF (content stream {cmod} mod 16, image {ilen} bytes, /Alt {alen} chars) does not "
                        f"extract like its plain original: {err or 'differs in ' + ', '.join(which)}",
                        {"input": data, "original": plain, "expected": ref, "got": got})
    restore_pristine_pypdf()
    ctx.extra["aes256_r6_boundary"] = {"done": r6_done, "skipped_over_budget": r6_skipped, "budget_s": R6_BUDGET_S,
                                       "spent_s": round(r6_spent, 1), "tier": ctx.tier}


def pdf_cases(ctx, cases, info, e2e):
    from pypdf import PdfReader, PdfWriter
    from sharepoint2text.parsing.extractors.pdf.pdf_extractor import read_pdf
    srcs = [RES / "pdf" / "sample.pdf", RES / "pdf" / "multi_image.pdf", RES / "pdf" / "two_tables_horizontal.pdf"]
    if ctx.tier == "quick":
        srcs = srcs[:2]
    algs = ["RC4-40", "RC4-128", "AES-128", "AES-256-R5", "AES-256"]
    for src in srcs:
        plain = open(src, "rb").read()
        base = os.path.basename(src)
        ref = list(read_pdf(io.BytesIO(plain), path="x.pdf"))
        e2e.check(f"pdf-plain:{base}", "pdf", read_pdf, ".pdf", plain, False, cli=False)
        for alg in algs:
            for up, op in (("", "owner-pw"), ("", None), ("user-pw", "owner-pw"), ("user-pw", None)):
                if ctx.tier == "quick" and alg.startswith("AES") and (op is None or base != "sample.pdf"):
                    continue
                if ctx.tier == "quick" and alg == "AES-256":   # R6 key derivation: ~10 s per read in pure Python
                    continue
                try:
                    with (independent_aes_for_writing() if alg.startswith("AES") else contextlib.nullcontext()):
                        w = PdfWriter(clone_from=io.BytesIO(plain))
                        w.encrypt(user_password=up, owner_password=op, algorithm=alg)
                        bio = io.BytesIO()
                        w.write(bio)
                    data = bio.getvalue()
                except Exception as e:  # noqa
                    ctx.count(f"pdf-writer-unavailable:{alg}")
                    ctx.extra.setdefault("pdf_writer_errors", {})[alg] = repr(e)[:200]
                    continue
                key = f"pdf:{alg}:{'empty' if up == '' else 'nonempty'}-user-password"
                restore_pristine_pypdf()
                o = e2e.check(key, "pdf", read_pdf, ".pdf", data, up != "", cli=(base == "sample.pdf"))
                # view recorded from pypdf (oracle), after the extractor has installed its AES fallback if needed
                try:
                    r = PdfReader(io.BytesIO(data))
                    is_enc = bool(r.is_encrypted)
                    try:
                        dec = f"(DecReturns {int(r.decrypt(''))})" if is_enc else "(DecReturns 0)"
                    except Exception:  # noqa
                        dec = "DecRaises"
                    cases.append(f"CPdf {{| p_is_encrypted := {coq_bool(is_enc)}; p_decrypt_empty := {dec} |}} {coq_bool(o.enc)}")
                    info.append(("pdf", key, base, repr(o)))
                except Exception as e:  # noqa
                    ctx.count("pdf-view-unavailable")
                if up == "":
                    restore_pristine_pypdf()
                    try:
                        got = list(read_pdf(io.BytesIO(data), path="x.pdf"))
                    except Exception:  # noqa
                        got = None
                    same = got is not None and _page_view(got) == _page_view(ref)
                    if not same:
                        ctx.finding(key + ":content", f"empty-user-password PDF ({alg}) does not extract the same content as the "
                                    f"plain original: {o!r}", {"input": data, "original": base})
    cases.append("CPdf {| p_is_encrypted := false; p_decrypt_empty := DecReturns 0 |} false")
    info.append(("pdf", "plain", "", False))


# ============================================================================ fourth entry point: e-mail attachments
def _eml(attachments, subject="c08") -> bytes:
    from email.message import EmailMessage
    m = EmailMessage()
    m["From"], m["To"], m["Subject"], m["Date"] = "a@example.org", "b@example.org", subject, "Mon, 01 Jan 2024 10:00:00 +0000"
    m.set_content("body text")
    for name, data in attachments:
        m.add_attachment(data, maintype="application", subtype="octet-stream", filename=name)
    return m.as_bytes()


def attachment_cases(ctx, cases, info):
    """EmailContent.iterate_supported_attachments: an encrypted attachment of any kind at any position, and the
    method invoked REPEATEDLY on the same object (count first / process later, retry after the error)."""
    from sharepoint2text.parsing import router
    from sharepoint2text.parsing.exceptions import ExtractionFileFormatNotSupportedError
    from sharepoint2text.parsing.extractors.mail.eml_email_extractor import read_eml_format_mail
    rng = ctx.rng
    enc_pool = [(os.path.basename(f), open(f, "rb").read()) for f in sorted(glob.glob(str(RES / "**" / "password_protected" / "*"), recursive=True))]
    bio = io.BytesIO()
    with zipfile.ZipFile(bio, "w") as z:
        z.writestr("a.txt", b"alpha")
    enc_pool.append(("flagged.zip", W.zip_patch(bio.getvalue(), b"a.txt", flag_or=1)))
    enc_pool.append(("aes.7z", W.sevenz([("a.txt", b"alpha")], [[(W.AES, b"\x13\x00")]])))
    plain_pool = [("note.txt", b"hello attachment"), ("data.csv", b"a,b\n1,2\n"), ("plain.zip", bio.getvalue()),
                  ("doc.odt", open(str(RES / "open_office" / "sample_document.odt"), "rb").read()),
                  ("blob.bin", b"\0\1\2\3"), ("broken.docx", b"PK\x03\x04 not a real docx"), ("page.html", b"<p>hi</p>")]

    def classify(name, data):
        try:
            fn = router.get_extractor(name)
        except ExtractionFileFormatNotSupportedError:
            return "AtSkip", "AtSkip"      # application/octet-stream is not in MIME_TYPE_MAPPING
        o = run_gen(fn, data, path=name)
        if o.enc:
            return f"(AtEnc {o.n})", "AtEnc"
        if o.cls is None:
            return f"(AtOk {o.n})", "AtOk"
        return f"(AtFail {o.n})", "AtFail"
    cls_cache = {}
    mails = []
    for _ in range(ctx.n(30, 200)):
        k = rng.randint(1, 4)
        atts = [rng.choice(plain_pool) for _ in range(k)]
        if rng.random() < 0.75:
            atts[rng.randrange(k)] = rng.choice(enc_pool)
        mails.append(atts)
    for e in enc_pool:                     # every kind alone and behind a plain one
        mails.append([e])
        mails.append([plain_pool[0], e, plain_pool[1]])
    for atts in mails:
        terms, kinds = [], []
        for name, data in atts:
            if name not in cls_cache:
                cls_cache[name] = classify(name, data)
            terms.append(cls_cache[name][0])
            kinds.append(cls_cache[name][1])
        expect_enc = "AtEnc" in kinds
        raw = _eml(atts)
        # (the mbox reader skips attachment parts by design; .msg needs an Outlook OLE writer — not built)
        for container, reader, blob in (("eml", read_eml_format_mail, raw),):
            try:
                mail = list(reader(io.BytesIO(blob), path="m." + container))[0]
            except Exception as e:  # noqa
                ctx.count(f"attachment-mail-unparsed:{type(e).__name__}")
                continue
            if len(mail.attachments) != len(atts):
                ctx.count("attachment-count-differs(harness)")
                continue
            for call in (1, 2, 3):
                n, enc, other = 0, False, None
                try:
                    for _ in mail.iterate_supported_attachments():
                        n += 1
                except Exception as e:  # noqa
                    enc = type(e).__name__ == "ExtractionFileEncryptedError"
                    other = None if enc else type(e).__name__
                ctx.case(("att", container, tuple(a[0] for a in atts), call), True,
                         kind=f"attachments:{'enc' if expect_enc else 'plain'}:call{call}")
                cases.append(f"CAtt {coq_list(terms)} {n} {coq_bool(enc)}")
                info.append(("attachments", container, [a[0] for a in atts], f"call {call}: n={n} enc={enc}"))
                if other or enc != expect_enc:
                    which = next((a[0] for a, k in zip(atts, kinds) if k == "AtEnc"), None)
                    ctx.finding(f"attachment-entry:{container}:invocation-{'first' if call == 1 else 'repeated'}",
                                f"iterate_supported_attachments, invocation {call}, attachments {[a[0] for a in atts]}: "
                                f"{'raised ' + other if other else ('encrypted attachment ' + str(which) + ' not rejected (' + str(n) + ' results, no error)' if expect_enc else 'plain attachments rejected as encrypted')}",
                                {"mail": blob, "container": container, "attachments": [a[0] for a in atts], "invocation": call})


# ============================================================================ protected fixtures
def fixture_cases(ctx, e2e):
    import sharepoint2text
    from sharepoint2text.parsing import router
    fixtures = sorted(glob.glob(str(RES / "**" / "password_protected" / "*"), recursive=True))
    ctx.extra["protected_fixtures"] = len(fixtures)
    for fx in fixtures:
        ext = os.path.splitext(fx)[1]
        fn = router.get_extractor(fx)
        e2e.check(f"protected-fixture:{os.path.basename(fx)}", "fixture", fn, ext, open(fx, "rb").read(), True)
    ctx.obligation("harness:protected-fixtures-found(>=10)", len(fixtures) >= 10, f"found {len(fixtures)}")


# ============================================================================ run
def run(ctx):
    global RES
    logging.disable(logging.CRITICAL)
    RES = common.REPO / "sharepoint2text" / "tests" / "resources"
    ctx.rule = ("an encrypted/plain pair: every generated case is a document with a known ground truth (wrapped/flagged by one "
                "mechanism, or the plain counterpart); non-trivial = not a malformed-stream case")
    ctx.trusted += [
        "X-translator tools/props/c08_flow.py (ast -> C08.Flow.gs): guard pattern `if <detector>: raise ExtractionFileEncryptedError`, "
        "allow-list of non-suppressing context managers, everything else over-approximated as GAny",
        "G-dump of detector constants (co_consts of the detector functions, doc_extractor/sevenzip module constants)",
        "oracles (inputs of the models, recorded from the real library in the correspondence): olefile (isOleFile, directory, "
        "streams), zipfile (infolist, flag_bits, is_dir, read's exception class), ElementTree parsing, pypdf (is_encrypted, "
        "decrypt('')), the 7z header parser (the view is the writer's own header description), per-member extraction in archives",
        "7z from the bytes (C08/Props7z.v): the byte-level header parser and the 7z path of read_archive are C10's model "
        "(C10/Parse.v, C10/Ser.v), tied to the code by C10's correspondence; C08 proves its statement over that model and "
        "keeps its own decision-level correspondence (C7z cases)",
        "harness writers tools/props/c08_writers.py (CFB, 7z, ZIP patching, OLE surgery, independent AES for writing PDFs)",
    ]
    ctx.assumptions += ["str.lower is modelled for ASCII stream names only in the correspondence (theorems are parametric in lower)",
                        "legacy PPT RC4 CryptoAPI inputs are built by the harness from [MS-PPT] 2.3.7 / [MS-OFFCRYPTO] 2.3.5 "
                        "(persist objects really RC4-encrypted, CryptSession10Container, header token); no independent reader "
                        "was available to validate the writer",
                        "XLS FILEPASS flavours (XOR, RC4, RC4 CryptoAPI): record layout per [MS-XLS] 2.4.117, following payloads "
                        "scrambled with a keystream, not with the real cipher (irrelevant to a detector that reads record ids)",
                        "raw BIFF2-4 files (no OLE container) are not a supported input of read_xls even when plain, so they are "
                        "outside the pairs"]
    gen_skeletons(ctx)
    gen_tables(ctx)

    ctx.prove("C08/Props.v", ["C08/Proofs.vo", "C08/Flow.vo", "C08/Pad.vo"], expected=[
        "C08_biff_terminates", "C08_biff_filepass_any_position", "C08_xls_sound", "C08_xls_complete", "C08_ooxml_iff",
        "C08_ppt_iff", "C08_doc_fib_flag", "C08_odf_sound", "C08_odf_complete", "C08_zip_sound_any_member", "C08_zip_complete",
        "C08_7z_needs_password_iff", "C08_7z_sound", "C08_7z_complete", "C08_epub_iff", "C08_pdf_iff", "C08_reject_before_yield",
        "C08_pkcs7_roundtrip", "C08_pkcs7_full_block", "C08_pkcs7_padded_length", "C08_pkcs7_rejects_bad_byte",
        "C08_ppt_token_sound_refuted", "C08_ppt_sound_partial", "C08_ppt_token_aware_iff", "C08_reject_never_silent",
        "C08_attachment_encrypted_any_position", "C08_attachment_complete",
        "C08_pdf_aes_installed_before_pages", "C08_pdf_aes_legacy_refuted", "C08_pdf_decision_history_free"])
    ctx.prove("C08/Props7z.v", ["C08/SevenZ.vo", "Gen/C10Tables.vo"], expected=[
        "C08_7z_decision_from_bytes", "C08_7z_encoded_header_from_bytes", "C08_7z_tables_premise"])
    ctx.prove("C08/Inst.v", ["Gen/C08Skeletons.vo", "Gen/C08Tables.vo", "C08/Flow.vo", "C08/Model.vo", "C08/Corr.vo"], expected=[
        "C08_all_guarded", "C08_no_result_before_rejection", "C08_skeleton_count", "C08_constants",
        "C08_zip_pass1_delivers_nothing", "C08_zip_prefix_has_the_guard", "C08_rejected_never_silent"])

    cases, info = [], []
    with tempfile.TemporaryDirectory(dir="/var/tmp", prefix="c08-") as td:
        e2e = E2E(ctx, td)
        import time
        timing = ctx.extra.setdefault("section_seconds", {})
        for nm, f in (("fixtures", lambda: fixture_cases(ctx, e2e)), ("biff", lambda: biff_cases(ctx, cases, info)),
                      ("xls", lambda: xls_e2e(ctx, e2e)), ("ole", lambda: ole_cases(ctx, cases, info, e2e)), ("ppt-crypto", lambda: ppt_crypto_cases(ctx, cases, info, e2e)),
                      ("doc", lambda: doc_cases(ctx, cases, info, e2e)), ("odf", lambda: odf_cases(ctx, cases, info, e2e)),
                      ("zip", lambda: zip_cases(ctx, cases, info, e2e)), ("7z", lambda: sevenz_cases(ctx, cases, info, e2e)),
                      ("epub", lambda: epub_cases(ctx, cases, info, e2e)), ("pdf", lambda: pdf_cases(ctx, cases, info, e2e)),
                      ("pkcs7+cbc", lambda: pkcs7_cases(ctx, cases, info)), ("attachments", lambda: attachment_cases(ctx, cases, info)),
                      ("env-sweep", lambda: env_cases(ctx, e2e)), ("pdf-boundary", lambda: pdf_boundary_cases(ctx, e2e, cases, info))):
            t0 = time.time()
            f()
            timing[nm] = round(time.time() - t0, 1)

    pre = "From Coq Require Import NArith List.\nFrom S2T Require Import Lib.PyStr C08.Model C08.Corr.\nImport ListNotations.\nOpen Scope N_scope.\n"
    ok, failing, log = coq_eval_shards(ctx, "corr", pre, "corr_case", cases, shard=150, ty="ccase")
    ctx.traces += len(cases)
    ctx.disagreements += len(failing)
    ctx.extra["corr_cases"] = len(cases)
    detail = f"{len(failing)} disagreements; first: {[info[i] for i in failing[:4]]} {log}"
    if failing:
        # would the model of the code BEFORE the repairs explain them?
        ok2, f2, _ = coq_eval_shards(ctx, "corrlegacy", pre, "corr_case_legacy", [cases[i] for i in failing], shard=150, ty="ccase")
        detail = (f"{len(failing)} disagreements ({len(failing) - len(f2)} of them agree with the model of the code before "
                  f"fixes/C08-*.patch); first: {[info[i] for i in failing[:4]]}")
        ctx.extra["corr_disagreements"] = [list(map(str, info[i])) for i in failing[:12]]
    ctx.obligation("correspondence:detector models == implementation on recorded views", ok and not failing, detail[:1800])


META = {
    "technique": "Coq proof of every detector predicate (FILEPASS record walk with termination, OLE stream names, FIB flag, ODF "
                 "manifest elements, ZIP two-pass flag check, 7z coder scan incl. encoded header, EPUB EncryptedData/rights, PDF "
                 "decrypt('')) + kernel-decided guard dominance on skeletons translated from the ast of every extractor + "
                 "vm_compute differential correspondence on recorded container views + end-to-end oracle on generated "
                 "encrypted/plain pairs through extractor, read_file and CLI",
    "design_ref": "DESIGN.md §5 C08",
    "level_text": "Kernel-checked: for each mechanism soundness (encrypted by the mechanism, at any record position / member / "
                  "folder / element depth => detector true) and completeness (plain => false) of an executable model of the "
                  "repository's detector logic, termination of the BIFF walk on all byte strings, and — on skeletons regenerated "
                  "from the source — that in every execution where the detector answers true no result is delivered. Container "
                  "parsing (olefile, zipfile, ElementTree, pypdf, 7z header parser) is an oracle; the tie is a differential run on "
                  "generated pairs plus the 10 protected fixtures through all three entry points.",
    "level_note": "Trusted: Coq kernel+VM; ast translator and its guard pattern; constant dump; hand-written models (validated "
                  "differentially); harness writers. Validated only: exception class at the entry points, CLI behaviour, "
                  "empty-password PDF content equality (pypdf + the repo's AES fallback; AES-256 revision 6 boundary "
                  "documents only in the thorough tier under a 300 s budget, the count done/skipped is in the evidence). "
                  "Open finding: PPT CryptSession10 without EncryptedSummary (proposed patch not applied). Cannot be modelled: "
                  "olefile/zipfile/pypdf/ElementTree internals (oracles); xlrd's own 'Workbook is encrypted' error is never "
                  "reached because the record walk runs first.",
}
