"""C02 / PPTX — slide text assembly: every token once, ordered by position, ties in document order.

Rule the code implements (pptx_extractor._process_slide_from_context): the text items of a slide are
its text shapes (every p:sp below p:spTree, group children included) and its tables (p:graphicFrame);
they are collected in ONE pass in document order (fixes/C02-pptx-shapes-document-order.patch; before it:
[all p:sp] ++ [all p:graphicFrame], so a table sharing a position with a later text shape came last), sorted
STABLY by the key (y, x) of _get_shape_position (a:off; shapes without offset: title placeholder (0,0),
body placeholder idx n (1+n,0), anything else (999999999,999999999)), their texts joined by "\n";
the sort is applied twice (shapes, then content items) — idempotent.  PptxContent.get_full_text()
joins the slides.

Coq (C02/Pptx.v, PropsPptx.v): insertion-sort model `ssort` of Python's stable list.sort(key=...) with
theorems permutation / sorted / equal keys keep their order, and `slide_order` = the rule above; the
correspondence hands Coq (kind, key, token-id) lists in document order together with the order in
which the implementation emitted them.
Oracle (property): each token exactly once; different keys -> position order; equal keys -> document
order.
"""
from __future__ import annotations

import io
import zipfile
from xml.etree import ElementTree as ET

from common import coq_list, coq_eval_shards

NS = ('xmlns:p="http://schemas.openxmlformats.org/presentationml/2006/main" '
      'xmlns:a="http://schemas.openxmlformats.org/drawingml/2006/main" '
      'xmlns:r="http://schemas.openxmlformats.org/officeDocument/2006/relationships"')
TABLE_URI = "http://schemas.openxmlformats.org/drawingml/2006/table"
BIG = 999999999

PROPS_EXPECTED = ["C02_pptx_sort_permutation", "C02_pptx_sort_sorted", "C02_pptx_sort_stable",
                  "C02_pptx_position_order", "C02_pptx_ties_document_order", "C02_pptx_each_item_once",
                  "C02_pptx_table_tie_refuted_before_fix"]


def para(tokens):
    return "".join(f"<a:p><a:r><a:rPr/><a:t>{t}</a:t></a:r></a:p>" for t in tokens)


def sp_xml(i, tokens, off, ph):
    xfrm = f'<a:xfrm><a:off x="{off[1]}" y="{off[0]}"/><a:ext cx="100" cy="100"/></a:xfrm>' if off else ""
    phx = ""
    if ph == "title":
        phx = '<p:ph type="title"/>'
    elif isinstance(ph, int):
        phx = f'<p:ph type="body" idx="{ph}"/>'
    return (f'<p:sp><p:nvSpPr><p:cNvPr id="{i + 2}" name="s{i}"/><p:cNvSpPr/><p:nvPr>{phx}</p:nvPr></p:nvSpPr>'
            f'<p:spPr>{xfrm}</p:spPr><p:txBody><a:bodyPr/>{para(tokens)}</p:txBody></p:sp>')


def frame_xml(i, rows, off):
    xfrm = f'<p:xfrm><a:off x="{off[1]}" y="{off[0]}"/><a:ext cx="100" cy="100"/></p:xfrm>' if off else ""
    body = "".join("<a:tr>" + "".join(f"<a:tc><a:txBody><a:bodyPr/>{para([c])}</a:txBody></a:tc>" for c in row) + "</a:tr>"
                   for row in rows)
    return (f'<p:graphicFrame><p:nvGraphicFramePr><p:cNvPr id="{i + 2}" name="t{i}"/><p:cNvGraphicFramePr/><p:nvPr/>'
            f'</p:nvGraphicFramePr>{xfrm}<a:graphic><a:graphicData uri="{TABLE_URI}"><a:tbl><a:tblPr/>{body}</a:tbl>'
            f'</a:graphicData></a:graphic></p:graphicFrame>')


def expected_key(kind, off, ph):
    if off:
        return off
    if kind == "sp" and ph == "title":
        return (0, 0)
    if kind == "sp" and isinstance(ph, int):
        return (1 + ph, 0)
    return (BIG, BIG)


class SlideGen:
    """items: dicts {kind, tokens (flat, emission order), off, ph, xml} in DOCUMENT order."""

    def __init__(self, rng, next_id):
        self.rng, self.next_id = rng, next_id

    def tok(self):
        # alphabetical order differs from document order: random leading letter, unique id behind it
        self.next_id[0] += 1
        return self.rng.choice("ZYXWVUTSRQPONMLKJIHGFEDCBAzyxkcba\u00c9\u00df\u00fc\u00e0\u4e2d") + "q" + str(self.next_id[0])

    def item(self, i, mode, shared):
        rng = self.rng
        kind = "frame" if rng.random() < 0.2 else "sp"
        if mode == "equal":
            off = shared
        elif mode == "missing":
            off = None
        elif mode == "mixed":
            off = rng.choice([shared, shared, None, (rng.randint(0, 5) * 100, rng.randint(0, 5) * 100)])
        else:
            off = (rng.randint(0, 6) * 100, rng.randint(0, 6) * 100)
        ph = None
        if kind == "sp" and off is None and rng.random() < 0.6:
            ph = rng.choice(["title", 1, 1, 2, 3])
        if kind == "sp":
            toks = [self.tok() for _ in range(rng.choice([1, 1, 2]))]
            x = sp_xml(i, toks, off, ph)
        else:
            rows = [[self.tok() for _ in range(rng.randint(1, 2))] for _ in range(rng.randint(1, 2))]
            toks = [c for row in rows for c in row]
            x = frame_xml(i, rows, off)
        return {"kind": kind, "tokens": toks, "off": off, "ph": ph, "xml": x, "key": expected_key(kind, off, ph)}

    def slide(self, mode):
        rng = self.rng
        shared = (rng.randint(0, 3) * 100, rng.randint(0, 3) * 100)
        n = rng.randint(1, 4) if mode != "equal" else rng.randint(2, 4)
        if mode == "textless":
            n = 0               # a slide without any text of its own (divider / picture-only slide)
        items, parts, i = [], [], 0
        while i < n:
            if rng.random() < 0.2 and n - i >= 2:      # a group shape with two children (children keep their own offsets)
                a, b = self.item(i, mode, shared), self.item(i + 1, mode, shared)
                parts.append('<p:grpSp><p:nvGrpSpPr><p:cNvPr id="90" name="g"/><p:cNvGrpSpPr/><p:nvPr/></p:nvGrpSpPr>'
                             '<p:grpSpPr><a:xfrm><a:off x="7" y="7"/><a:ext cx="9" cy="9"/><a:chOff x="0" y="0"/>'
                             '<a:chExt cx="9" cy="9"/></a:xfrm></p:grpSpPr>' + a["xml"] + b["xml"] + "</p:grpSp>")
                items += [a, b]
                i += 2
            else:
                a = self.item(i, mode, shared)
                parts.append(a["xml"])
                items.append(a)
                i += 1
        xml = (f'<p:sld {NS}><p:cSld><p:spTree><p:nvGrpSpPr>'
               '<p:cNvPr id="1" name=""/><p:cNvGrpSpPr/><p:nvPr/></p:nvGrpSpPr><p:grpSpPr/>' + "".join(parts) +
               "</p:spTree></p:cSld></p:sld>")
        return items, xml


def notes_slide_xml(token: str) -> str:
    return (f'<p:notes {NS}><p:cSld><p:spTree><p:nvGrpSpPr><p:cNvPr id="1" name=""/><p:cNvGrpSpPr/><p:nvPr/></p:nvGrpSpPr><p:grpSpPr/>'
            '<p:sp><p:nvSpPr><p:cNvPr id="2" name="Notes"/><p:cNvSpPr/><p:nvPr><p:ph type="body" idx="1"/></p:nvPr></p:nvSpPr><p:spPr/>'
            f'<p:txBody><a:bodyPr/><a:p><a:r><a:t>{token}</a:t></a:r></a:p></p:txBody></p:sp></p:spTree></p:cSld></p:notes>')


def package(slides_xml, enc="ascii-refs", notes=None, enc_meta=False, comments=None):
    """notes: per slide a speaker-notes token or None -> ppt/notesSlides/notesSlideN.xml + slide relationship."""
    import re as _re
    from props.c02 import encode_part
    notes = notes or [None] * len(slides_xml)
    meta = (lambda x: encode_part(_re.sub(r"^<\?xml[^>]*\?>", "", x), enc)) if enc_meta else (lambda x: x)
    part = lambda x: encode_part(x.encode("ascii", "xmlcharrefreplace").decode("ascii"), enc)
    ct = ('<?xml version="1.0" encoding="UTF-8"?><Types xmlns="http://schemas.openxmlformats.org/package/2006/content-types">'
          '<Default Extension="rels" ContentType="application/vnd.openxmlformats-package.relationships+xml"/>'
          '<Default Extension="xml" ContentType="application/xml"/>'
          '<Override PartName="/ppt/presentation.xml" ContentType="application/vnd.openxmlformats-officedocument.presentationml.presentation.main+xml"/>'
          + "".join(f'<Override PartName="/ppt/slides/slide{i + 1}.xml" ContentType="application/vnd.openxmlformats-officedocument.presentationml.slide+xml"/>'
                    for i in range(len(slides_xml))) + "</Types>")
    rels = ('<?xml version="1.0" encoding="UTF-8"?><Relationships xmlns="http://schemas.openxmlformats.org/package/2006/relationships">'
            '<Relationship Id="rId1" Type="http://schemas.openxmlformats.org/officeDocument/2006/relationships/officeDocument" Target="ppt/presentation.xml"/></Relationships>')
    pres = (f'<?xml version="1.0" encoding="UTF-8"?><p:presentation {NS}><p:sldIdLst>' +
            "".join(f'<p:sldId id="{256 + i}" r:id="rId{i + 1}"/>' for i in range(len(slides_xml))) +
            "</p:sldIdLst></p:presentation>")
    prels = ('<?xml version="1.0" encoding="UTF-8"?><Relationships xmlns="http://schemas.openxmlformats.org/package/2006/relationships">' +
             "".join(f'<Relationship Id="rId{i + 1}" Type="http://schemas.openxmlformats.org/officeDocument/2006/relationships/slide" Target="slides/slide{i + 1}.xml"/>'
                     for i in range(len(slides_xml))) + "</Relationships>")
    b = io.BytesIO()
    with zipfile.ZipFile(b, "w", zipfile.ZIP_DEFLATED) as z:
        z.writestr("[Content_Types].xml", meta(ct))
        z.writestr("_rels/.rels", meta(rels))
        z.writestr("ppt/presentation.xml", meta(pres))
        z.writestr("ppt/_rels/presentation.xml.rels", meta(prels))
        for i, tok in enumerate(comments or []):
            if tok is not None:      # reviewer comments of slide i+1 (excluded from the default text)
                z.writestr(f"ppt/comments/comment{i + 1}.xml", part(
                    f'<p:cmLst {NS}><p:cm authorId="0" dt="2026-01-0{(i % 8) + 1}T10:00:00.000" idx="1"><p:pos x="10" y="10"/>'
                    f'<p:text>{tok}</p:text></p:cm></p:cmLst>'))
        for i, tok in enumerate(notes):
            if tok is not None:
                z.writestr(f"ppt/notesSlides/notesSlide{i + 1}.xml", part(notes_slide_xml(tok)))
                z.writestr(f"ppt/slides/_rels/slide{i + 1}.xml.rels", meta(
                    '<?xml version="1.0" encoding="UTF-8"?><Relationships xmlns="http://schemas.openxmlformats.org/package/2006/relationships">'
                    '<Relationship Id="rId1" Type="http://schemas.openxmlformats.org/officeDocument/2006/relationships/notesSlide" '
                    f'Target="../notesSlides/notesSlide{i + 1}.xml"/></Relationships>'))
        for i, x in enumerate(slides_xml):
            # part-encoding dimension shared by all C02 package writers (non-ASCII as references first)
            z.writestr(f"ppt/slides/slide{i + 1}.xml", encode_part(x.encode("ascii", "xmlcharrefreplace").decode("ascii"), enc))
    return b.getvalue()


def ideal_order(items):
    """The property: position order, ties in document order (stable sort of the document order)."""
    return [t for it in sorted(items, key=lambda it: it["key"]) for t in it["tokens"]]


def run_part(ctx):
    from sharepoint2text.parsing.extractors.ms_modern import pptx_extractor as PX
    rng = ctx.rng
    ctx.prove("C02/PropsPptx.v", ["C02/Pptx.vo"], expected=PROPS_EXPECTED)
    next_id = [0]
    gen = SlideGen(rng, next_id)
    decks = []
    for _ in range(ctx.n(70, 1500)):
        slides = [gen.slide(rng.choice(["equal", "equal", "missing", "mixed", "distinct", "textless"])) for _ in range(rng.randint(1, 3))]
        decks.append(slides)
    cases, info = [], []
    for slides in decks:
        from props.c02 import pick_encoding
        enc = pick_encoding(rng)
        ctx.count("pptx-encoding:" + enc)
        notes = [("N\u00e9q" + str(900000 + gen.next_id[0] + j)) if rng.random() < 0.5 else None for j in range(len(slides))]
        enc_meta = rng.random() < 0.5
        if enc_meta:
            ctx.count("pptx-encoding-of-rels-and-content-types:" + enc)
        comments = [("C\u00e9q" + str(800000 + gen.next_id[0] + j)) if rng.random() < 0.5 else None for j in range(len(slides))]
        pkg = package([x for _, x in slides], enc, notes, enc_meta, comments)
        try:
            content = next(PX.read_pptx(io.BytesIO(pkg)))
            full = content.get_full_text()
            per_slide = [s.base_text for s in content.slides]
        except Exception as e:  # noqa
            ctx.finding("pptx:raises" + ("" if enc in ("ascii-refs", "utf8-raw") else ":" + enc),
                        f"read_pptx raised {type(e).__name__}: {e} on a generated deck (slides encoded as {enc})",
                        {"format": "pptx", "slides": [x for _, x in slides], "encoding": enc})
            continue
        # speaker notes (notesSlide parts) are documented as excluded from the text
        unit_texts = [u.get_text() for u in content.iterate_units()]
        for tok in notes:
            if tok is not None and (tok in full or any(tok in t for t in unit_texts + per_slide)):
                ctx.finding("pptx:speaker-notes-in-text", "PPTX: the text of a notes slide (ppt/notesSlides/notesSlideN.xml) appears in "
                            "get_full_text() / a unit's text", {"format": "pptx", "notes_token": tok, "full": full, "encoding": enc})
        ctx.count("pptx:decks-with-notes-slides", 1 if any(notes) else 0)
        # reviewer comments: collected in PptxSlide.comments, never in the default text (also not for a slide
        # that has no text of its own)
        for j, tok in enumerate(comments):
            if tok is None:
                continue
            textless = not slides[j][0]
            ctx.count("pptx:slides-with-comment" + ("+textless" if textless else ""))
            if tok in full or any(tok in t for t in unit_texts) or tok in per_slide[j]:
                ctx.finding("pptx:comment-in-default-text" + (":textless-slide" if textless else ""),
                            "PPTX: the text of a reviewer comment (ppt/comments/commentN.xml) appears in get_full_text() / a unit's "
                            "text" + (" of a slide that has no text of its own" if textless else ""),
                            {"format": "pptx", "comment_token": tok, "slide": j + 1, "slide_xml": slides[j][1], "full": full, "encoding": enc})
            elif j < len(content.slides) and not any(tok in (c.text or "") for c in content.slides[j].comments):
                ctx.finding("pptx:comment-not-collected", "PPTX: a reviewer comment is missing from PptxSlide.comments",
                            {"format": "pptx", "comment_token": tok, "slide": j + 1, "encoding": enc})
        all_expected = []
        for (items, xml), text in zip(slides, per_slide):
            # the key oracle: what _get_shape_position really returns for every generated shape
            root = ET.fromstring(xml)
            tree = next(root.iter(PX.P_SPTREE))
            real = [PX._get_shape_position(e) for e in tree.iter() if e.tag in (PX.P_SP, PX.P_GRAPHICFRAME)]
            if real != [it["key"] for it in items]:
                ctx.finding("pptx:position-key", f"_get_shape_position gives {real}, the documented rule {[it['key'] for it in items]}",
                            {"format": "pptx", "slide_xml": xml})
            got = text.split()
            want = ideal_order(items)
            all_expected += want
            tie_kinds = any(a["key"] == b["key"] and a["kind"] != b["kind"] for a in items for b in items)
            ctx.case(("pptx", xml), len(want) >= 3, "pptx:" + ("kind-tie" if tie_kinds else "slide"))
            # correspondence case: (kind, y, x, [token ids]) in document order; implementation's id order
            ids = lambda toks: "[" + ";".join(t.split("q")[1] for t in toks) + "]%N"
            ok_tokens = all("q" in t and t.split("q")[1].isdigit() for t in got)
            if ok_tokens:
                cases.append("(" + coq_list([f"({'true' if it['kind'] == 'sp' else 'false'}, ({it['key'][0]}%Z, {it['key'][1]}%Z), {ids(it['tokens'])})"
                                             for it in items]) + ", " + ids(got) + ")")
                info.append((xml, got))
            if got == want:
                continue
            rep = {"format": "pptx", "slide_xml": xml, "expected_tokens": want, "got_tokens": got, "encoding": enc,
                   "keys": [list(it["key"]) for it in items], "kinds": [it["kind"] for it in items]}
            if sorted(got) != sorted(want):
                ctx.finding("pptx:token-multiplicity", "PPTX slide text: a token is missing, duplicated or invented", rep)
            else:
                # is the deviation explained solely by a table and a text shape sharing a position?
                rule = [t for it in sorted([i for i in items if i["kind"] == "sp"] + [i for i in items if i["kind"] == "frame"],
                                           key=lambda it: it["key"]) for t in it["tokens"]]
                if tie_kinds and got == rule:
                    ctx.finding("pptx:table-and-text-shape-same-position", "PPTX slide text: a table that precedes a text shape "
                                "in the source and has the same position is emitted after it", rep)
                else:
                    ctx.finding("pptx:order", "PPTX slide text: tokens are not in position order with ties in document order "
                                "(e.g. shapes sharing a position come out in another order than in the source)", rep)
        if full.split() != [t for (items, _), text in zip(slides, per_slide) for t in text.split()]:
            ctx.finding("pptx:full-text-join", "PptxContent.get_full_text() is not the slides' texts in slide order",
                        {"format": "pptx", "full": full, "per_slide": per_slide})
    pre = "From S2T Require Import Lib.PyStr C02.Pptx.\nFrom Coq Require Import ZArith.\n"
    ok, failing, log = coq_eval_shards(ctx, "pptx_corr", pre, "corr_slide", cases, shard=400,
                                       ty="list (bool * (Z * Z) * list N) * list N")
    ctx.traces += len(cases)
    ctx.disagreements += len(failing)
    ctx.obligation("correspondence:pptx slide_order model == token order of PptxSlide.base_text", ok and not failing,
                   (f"{len(failing)} disagreements; first: got={info[failing[0]][1]} xml={info[failing[0]][0][:700]} " if failing else "") + log[:600])
    import inspect
    ctx.extra["pptx"] = {"slides": len(cases),
                         "extractor_mentions_notesSlide_parts": "notesSlide" in inspect.getsource(PX),
                         "notes": "notes slides are generated for ~50% of the slides; the extractor does not read them (module docstring: "
                                  "'Speaker notes are not currently extracted'); the oracle asserts their text is in no unit and not in get_full_text()"}
