"""Independent minimal 7z WRITER for the C10 harness (test infrastructure, not the code under test).

Follows 7zFormat.txt of the 7-Zip SDK.  Two levels:
  * write_archive(H, area): serialises an explicit header description H (the same structure that is
    handed to the Coq model as the "parsed header") around a given pack area;
  * pack(members, cuts, coder, ...): a "standard packer": groups the data members into folders of
    cuts[k] consecutive files, compresses every folder with the lzma module in FORMAT_RAW (or copies),
    emits SubStreamsInfo with CRCs the way 7-Zip does, empty files / directories as empty streams.
"""
from __future__ import annotations

import lzma
import struct
import zlib

MAGIC = b"7z\xbc\xaf\x27\x1c"
COPY, LZMA, LZMA2 = b"\x00", b"\x03\x01\x01", b"\x21"


def num(n: int) -> bytes:
    """7z variable-length number."""
    assert 0 <= n < (1 << 64)
    for extra in range(0, 8):
        if n < (1 << (8 * extra + (7 - extra))):
            first = ((0xFF << (8 - extra)) & 0xFF) | (n >> (8 * extra))
            return bytes([first]) + (n & ((1 << (8 * extra)) - 1)).to_bytes(extra, "little")
    return b"\xff" + n.to_bytes(8, "little")


def bitvec(bits) -> bytes:
    out, cur, mask = bytearray(), 0, 0x80
    for b in bits:
        if b:
            cur |= mask
        mask >>= 1
        if mask == 0:
            out.append(cur)
            cur, mask = 0, 0x80
    if mask != 0x80:
        out.append(cur)
    return bytes(out)


def u32(x):
    return struct.pack("<I", x & 0xFFFFFFFF)


def header_bytes(H: dict) -> bytes:
    """H = {pack: None | {"pos": int, "sizes": [int]},
            folders: [{"coders": [(id, props|None)], "unpack": [int], "crc": None|int}],
            ss: None | {"nus": None|[int], "sizes": None|[int] (raw numbers as written), "crcs": None|[int]},
            files: [{"name": str, "empty": bool, "emptyfile": bool, "attr": None|int}],
            attr_external_byte: bool}"""
    o = bytearray([0x01])
    if H.get("pack") is not None or H["folders"]:
        o.append(0x04)
        pk = H.get("pack")
        if pk is not None:
            o += b"\x06" + num(pk["pos"]) + num(len(pk["sizes"]))
            if pk["sizes"]:
                o.append(0x09)
                for z in pk["sizes"]:
                    o += num(z)
            o.append(0x00)
        if H["folders"]:
            o += b"\x07\x0b" + num(len(H["folders"])) + b"\x00"
            for f in H["folders"]:
                o += num(len(f["coders"]))
                for cid, props in f["coders"]:
                    o.append(len(cid) | (0x20 if props is not None else 0))
                    o += cid
                    if props is not None:
                        o += num(len(props)) + props
                for i in range(len(f["coders"]) - 1):  # bind pairs: coder i+1 output -> coder i input
                    o += num(i + 1) + num(i)
            o.append(0x0C)
            for f in H["folders"]:
                for z in f["unpack"]:
                    o += num(z)
            if any(f.get("crc") is not None for f in H["folders"]):
                o.append(0x0A)
                d = [f.get("crc") is not None for f in H["folders"]]
                if all(d):
                    o.append(1)
                else:
                    o.append(0)
                    o += bitvec(d)
                for f in H["folders"]:
                    if f.get("crc") is not None:
                        o += u32(f["crc"])
            o.append(0x00)
        ss = H.get("ss")
        if ss is not None:
            o.append(0x08)
            if ss.get("nus") is not None:
                o.append(0x0D)
                for z in ss["nus"]:
                    o += num(z)
            if ss.get("sizes") is not None:
                o.append(0x09)
                for z in ss["sizes"]:
                    o += num(z)
            if ss.get("crcs") is not None:
                o += b"\x0a\x01"
                for c in ss["crcs"]:
                    o += u32(c)
            o.append(0x00)
        o.append(0x00)
    files = H["files"]
    if files:
        o += b"\x05" + num(len(files))
        empt = [bool(f["empty"]) for f in files]
        if any(empt):
            v = bitvec(empt)
            o += b"\x0e" + num(len(v)) + v
            ef = [bool(f.get("emptyfile")) for f in files if f["empty"]]
            if any(ef):
                v = bitvec(ef)
                o += b"\x0f" + num(len(v)) + v
        nm = b"\x00" + b"".join(f["name"].encode("utf-16-le", "surrogatepass") + b"\x00\x00" for f in files)
        o += b"\x11" + num(len(nm)) + nm
        if any(f.get("attr") is not None for f in files):
            d = [f.get("attr") is not None for f in files]
            body = bytearray()
            if all(d):
                body.append(1)
            else:
                body.append(0)
                body += bitvec(d)
            if H.get("attr_external_byte", True):
                body.append(0)  # External = 0, as in the format specification
            for f in files:
                if f.get("attr") is not None:
                    body += u32(f["attr"])
            o += b"\x15" + num(len(body)) + bytes(body)
        o.append(0x00)
    o.append(0x00)
    return bytes(o)


def write_archive(H: dict, area: bytes, encode_header: bool = False) -> bytes:
    hb = header_bytes(H)
    if encode_header:
        # EncodedHeader: the header itself is LZMA-compressed into one more pack stream after the area
        props = bytes([0x5D]) + struct.pack("<I", 1 << 16)
        comp = lzma.compress(hb, format=lzma.FORMAT_RAW,
                             filters=[{"id": lzma.FILTER_LZMA1, "dict_size": 1 << 16, "lc": 3, "lp": 0, "pb": 2}])
        eh = bytearray([0x17])
        eh += b"\x06" + num(len(area)) + num(1) + b"\x09" + num(len(comp)) + b"\x00"
        eh += b"\x07\x0b" + num(1) + b"\x00" + num(1) + bytes([len(LZMA) | 0x20]) + LZMA + num(len(props)) + props
        eh += b"\x0c" + num(len(hb)) + b"\x0a\x01" + u32(zlib.crc32(hb)) + b"\x00"
        eh += b"\x00"
        area2 = area + comp
        hb2 = bytes(eh)
        return _sig(len(area2), hb2) + area2 + hb2
    return _sig(len(area), hb) + area + hb


def _sig(off: int, hb: bytes) -> bytes:
    tail = struct.pack("<QQI", off, len(hb), zlib.crc32(hb) & 0xFFFFFFFF)
    return MAGIC + b"\x00\x04" + u32(zlib.crc32(tail)) + tail


def compress(kind: str, data: bytes):
    """-> (coder_id, props, packed)"""
    if kind == "copy":
        return COPY, None, data
    if kind == "lzma":
        d = 1 << 16
        packed = lzma.compress(data, format=lzma.FORMAT_RAW,
                               filters=[{"id": lzma.FILTER_LZMA1, "dict_size": d, "lc": 3, "lp": 0, "pb": 2}])
        return LZMA, bytes([0x5D]) + struct.pack("<I", d), packed
    if kind == "lzma2":
        packed = lzma.compress(data, format=lzma.FORMAT_RAW, filters=[{"id": lzma.FILTER_LZMA2, "dict_size": 1 << 16}])
        return LZMA2, bytes([8]), packed  # (2|0) << (8//2+11) = 1<<16
    raise ValueError(kind)


def pack(members, cuts, kind, substreams="7zip", attrs="win", encode_header=False, corrupt_folder=None):
    """members: [(name, 'dir'|'empty'|'data', bytes)], archive order.
    cuts: number of data members per folder (sum == number of data members, each >= 1).
    kind: 'copy'|'lzma'|'lzma2' or a list with one kind per folder.
    substreams: '7zip' (NumUnpackStream/Size only when needed, CRCs always) | 'full' (all three always) |
                'none' (no SubStreamsInfo at all; only meaningful when every folder holds one file).
    Returns (archive_bytes, H, area)."""
    datas = [m for m in members if m[1] == "data"]
    assert sum(cuts) == len(datas) and all(c >= 1 for c in cuts)
    kinds = kind if isinstance(kind, list) else [kind] * len(cuts)
    folders, streams, i = [], [], 0
    raw_sizes, crcs = [], []
    for k, c in enumerate(cuts):
        chunk = datas[i:i + c]
        i += c
        blob = b"".join(m[2] for m in chunk)
        cid, props, packed = compress(kinds[k], blob)
        if corrupt_folder is not None and corrupt_folder[0] == k:
            packed = corrupt_folder[1](packed)
        folders.append({"coders": [(cid, props)], "unpack": [len(blob)], "crc": None})
        streams.append(packed)
        raw_sizes += [len(m[2]) for m in chunk[:-1]]
        crcs += [zlib.crc32(m[2]) for m in chunk]
    if substreams == "none" or not folders:
        ss = None
    elif substreams == "full":
        ss = {"nus": list(cuts), "sizes": raw_sizes, "crcs": crcs}
    else:
        multi = any(c != 1 for c in cuts)
        ss = {"nus": list(cuts) if multi else None, "sizes": raw_sizes if multi else None, "crcs": crcs}
    files = []
    for name, k, _ in members:
        if attrs == "win":
            a = 0x10 if k == "dir" else 0x20
        elif attrs == "unix":
            a = 0x41ED8010 if k == "dir" else 0x81A48020
        else:
            a = None
        files.append({"name": name, "empty": k != "data", "emptyfile": k == "empty", "attr": a})
    H = {"pack": {"pos": 0, "sizes": [len(z) for z in streams]} if folders else None,
         "folders": folders, "ss": ss, "files": files, "attr_external_byte": True}
    area = b"".join(streams)
    return write_archive(H, area, encode_header=encode_header), H, area
